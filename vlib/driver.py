"""Driver: build harnesses from the repository's current tree, run the plan of a property, merge statistics,
match known findings, write the evidence file, print VIOLATION / KNOWN-FINDING lines.

A run is a pure function of the tree and VERIF_SEED (default 1).
"""
import hashlib
import json
import os
import re
import shutil
import struct
import subprocess
import sys
import time
from concurrent.futures import ThreadPoolExecutor

ROOT = os.path.dirname(os.path.dirname(os.path.abspath(__file__)))
REPO = os.environ.get("VERIF_REPO", "/repo")
BUILD = os.path.join(ROOT, ".build")
OUT = os.path.join(ROOT, ".out")
GUARD = "HANIAMMAR_QENTEM_ENGINE_VERIF"
JOBS = int(os.environ.get("VERIF_JOBS", "16"))

UBSAN_CHECKS = ("bounds,null,integer-divide-by-zero,unreachable,return,nonnull-attribute,"
                "pointer-overflow,object-size,vla-bound,returns-nonnull-attribute,bool,enum")

SAN_FLAGS = {
    "asan": ["-g", "-O1", "-fno-omit-frame-pointer", "-fsanitize=address," + UBSAN_CHECKS, "-fno-sanitize-recover=all"],
    "fuzz": ["-g", "-O1", "-fno-omit-frame-pointer", "-fsanitize=fuzzer,address," + UBSAN_CHECKS,
             "-fno-sanitize-recover=all"],
    "tsan": ["-g", "-O1", "-fsanitize=thread"],
    "plain": ["-O2"],
}

SIMD_FLAGS = {
    "none": [],
    "sse2": ["-DQENTEM_SSE2=1", "-msse2"],
    "avx2": ["-DQENTEM_AVX2=1", "-mavx2"],
}


class Build:
    def __init__(self, name, src, san="asan", simd="sse2", hook=True, defs=(), link_rc=True, extra=()):
        self.name, self.src, self.san, self.simd, self.hook = name, src, san, simd, hook
        self.defs, self.link_rc, self.extra = list(defs), link_rc, list(extra)
        self.path = None

    def flags(self):
        f = ["-std=gnu++17"] + SAN_FLAGS[self.san] + SIMD_FLAGS[self.simd]
        if self.hook:
            f.append("-D" + GUARD + "=1")
        f += ["-D" + d for d in self.defs] + self.extra
        f += ["-I" + os.path.join(REPO, "Include"), "-I" + os.path.join(ROOT, "harness")]
        return f


class Run:
    """One process. mode: check | enum | fuzz | custom"""

    def __init__(self, build, mode="check", n=1000, size=100, seed_off=0, enum=None, args=(), fuzz=None, label=None,
                 timeout=3000, env=None):
        self.build, self.mode, self.n, self.size, self.seed_off = build, mode, n, size, seed_off
        self.enum, self.args, self.fuzz, self.timeout = enum, list(args), fuzz or {}, timeout
        self.label = label or ("%s-%s-%d" % (build, mode, seed_off))
        self.env = env or {}


def sh(cmd, **kw):
    return subprocess.run(cmd, stdout=subprocess.PIPE, stderr=subprocess.STDOUT, text=True, errors="replace", **kw)


def tree_hash():
    h = hashlib.sha256()
    inc = os.path.join(REPO, "Include")
    for fn in sorted(os.listdir(inc)):
        p = os.path.join(inc, fn)
        if os.path.isfile(p):
            h.update(fn.encode())
            with open(p, "rb") as f:
                h.update(f.read())
    for d in ("harness", "harness/common"):
        dd = os.path.join(ROOT, d)
        for fn in sorted(os.listdir(dd)):
            p = os.path.join(dd, fn)
            if os.path.isfile(p):
                h.update(fn.encode())
                with open(p, "rb") as f:
                    h.update(f.read())
    return h.hexdigest()[:16]


def build_one(b, th):
    """Rebuilds from the repository's current tree. Binaries are keyed by the content hash of every header in
    /repo/Include and every harness source plus the flags, so an unchanged tree re-uses the binary and any edit
    forces a rebuild."""
    flags = b.flags()
    key = hashlib.sha256((th + " ".join(flags) + b.src).encode()).hexdigest()[:16]
    bdir = os.path.join(BUILD, "bin")
    os.makedirs(bdir, exist_ok=True)
    out = os.path.join(bdir, "%s-%s" % (os.path.basename(b.src).replace(".cpp", ""), key))
    b.path = out
    if os.path.exists(out):
        return (b, True, "cached")
    cmd = ["clang++"] + flags + [os.path.join(ROOT, b.src), "-o", out + ".tmp"]
    if b.link_rc:
        cmd.append("-lrapidcheck")
    if b.san == "tsan" or "-pthread" in b.extra:
        cmd.append("-pthread")
    r = sh(cmd)
    if r.returncode != 0:
        return (b, False, r.stdout[-6000:])
    os.rename(out + ".tmp", out)
    return (b, True, "built")


def prune_bins(keep=120):
    bdir = os.path.join(BUILD, "bin")
    if not os.path.isdir(bdir):
        return
    fs = sorted((os.path.join(bdir, f) for f in os.listdir(bdir)), key=os.path.getmtime)
    for p in fs[:-keep]:
        try:
            os.remove(p)
        except OSError:
            pass


def san_env():
    e = dict(os.environ)
    e["ASAN_OPTIONS"] = ("detect_leaks=1:exitcode=86:abort_on_error=0:allocator_may_return_null=1:"
                         "detect_stack_use_after_return=0:handle_sigfpe=1:symbolize=1:max_malloc_fill_size=4096:"
                         "malloc_fill_byte=190:malloc_context_size=5:quarantine_size_mb=32")
    e["UBSAN_OPTIONS"] = "print_stacktrace=1:halt_on_error=1:exitcode=87"
    e["TSAN_OPTIONS"] = "exitcode=88:halt_on_error=1:second_deadlock_stack=1"
    e["LSAN_OPTIONS"] = "exitcode=89"
    return e


def read_cur(path):
    try:
        with open(path, "rb") as f:
            d = f.read()
        n = struct.unpack("<I", d[:4])[0]
        return d[4:4 + n].decode("latin-1")
    except Exception:
        return None


class Result:
    pass


def exec_run(run, builds, seed, wdir, known):
    b = builds[run.build]
    tag = re.sub(r"[^A-Za-z0-9_.-]", "_", run.label)
    out = os.path.join(wdir, tag + ".json")
    cur = os.path.join(wdir, tag + ".cur")
    failf = os.path.join(wdir, tag + ".fail")
    log = os.path.join(wdir, tag + ".log")
    for p in (out, cur, failf, out + ".nt"):
        if os.path.exists(p):
            os.remove(p)
    env = san_env()
    env.update(run.env)
    res = Result()
    res.run, res.stats, res.case_text, res.crash, res.fail, res.log = run, None, None, False, False, log
    res.artifact = None
    t0 = time.time()
    if run.mode == "fuzz":
        corpus = os.path.join(wdir, tag + ".corpus")
        shutil.rmtree(corpus, ignore_errors=True)
        os.makedirs(corpus)
        art = os.path.join(wdir, tag + ".art") + "/"
        shutil.rmtree(art, ignore_errors=True)
        os.makedirs(art)
        cmd = [b.path, corpus]
        seedc = run.fuzz.get("seed_corpus")
        if seedc and os.path.isdir(os.path.join(ROOT, seedc)):
            cmd.append(os.path.join(ROOT, seedc))
        cmd += ["-seed=%d" % (seed * 1000 + run.seed_off + 1), "-runs=%d" % run.n,
                "-max_len=%d" % run.fuzz.get("max_len", 512), "-artifact_prefix=" + art,
                "-max_total_time=%d" % run.fuzz.get("max_time", 600), "-timeout=%d" % run.fuzz.get("unit_timeout", 25),
                "-rss_limit_mb=3000", "-print_final_stats=1", "-verbosity=0", "-len_control=%d" % run.fuzz.get("len_control", 100)]
        d = run.fuzz.get("dict")
        if d:
            cmd.append("-dict=" + os.path.join(ROOT, d))
        env["VERIF_FUZZ_OUT"] = out
        env["VERIF_KNOWN"] = ",".join(sorted(known))
    else:
        cmd = [b.path, "--out", out, "--cur", cur, "--fail-file", failf]
        if known:
            cmd += ["--known", ",".join(sorted(known))]
        if run.mode == "check":
            cmd.append("--check")
            env["RC_PARAMS"] = "seed=%d max_success=%d max_size=%d" % (seed * 1000 + run.seed_off + 1, run.n, run.size)
        elif run.mode == "enum":
            cmd += ["--enum"] + [str(x) for x in run.enum]
        cmd += run.args
    res.cmd = cmd
    try:
        with open(log, "w") as lf:
            p = subprocess.run(cmd, stdout=lf, stderr=subprocess.STDOUT, env=env, timeout=run.timeout)
        rc = p.returncode
        res.timed_out = False
    except subprocess.TimeoutExpired:
        rc = -999
        res.timed_out = True
    res.rc = rc
    res.wall = time.time() - t0
    try:
        with open(out) as f:
            res.stats = json.load(f)
    except Exception:
        res.stats = None
    res.nt_path = out + ".nt"
    if rc == 5 and run.mode != "fuzz":   # the harness's own watchdog (a phase spun): inconclusive, like the safety-net timeout
        res.timed_out = True
        return res
    if res.timed_out:
        return res
    if run.mode == "fuzz":
        arts = [a for a in sorted(os.listdir(art)) if a.startswith("crash-") or a.startswith("leak-")]
        if arts:
            res.crash = True
            res.artifact = os.path.join(art, arts[0])
            # the generic coverage-guided mode also leaves the failing case in the ordinary replay format
            fc = out + ".failcase"
            if os.path.exists(fc):
                with open(fc, encoding="latin-1") as f:
                    res.case_text = f.read()
        elif rc != 0:
            # timeout-/oom-/slow-unit are load noise unless confirmed by replay (not a violation by themselves)
            res.noise = True
        return res
    if rc == 0:
        return res
    if rc == 1 and os.path.exists(failf):
        res.fail = True
        with open(failf, encoding="latin-1") as f:
            res.case_text = f.read()
        return res
    # abnormal exit: sanitizer abort / signal
    res.crash = True
    res.case_text = read_cur(cur)
    return res


def replay_case(b, case_path, known, timeout=120):
    cmd = [b.path, "--replay", case_path]
    if known:
        cmd += ["--known", ",".join(sorted(known))]
    try:
        p = sh(cmd, env=san_env(), timeout=timeout)
    except subprocess.TimeoutExpired:
        return ("timeout", "", "")
    outp = p.stdout
    if p.returncode == 0:
        return ("pass", "", outp)
    m = re.search(r"^(FAIL|KNOWN) class=(\S+)", outp, re.M)
    if p.returncode == 2 and m:
        return ("known", m.group(2), outp)
    if p.returncode == 1 and m:
        return ("fail", m.group(2), outp)
    return ("crash", crash_class(outp), outp)


def crash_class(text):
    m = re.search(r"ERROR: AddressSanitizer: (\S+)", text)
    kind = None
    if m:
        kind = "asan-" + m.group(1)
    else:
        m = re.search(r"runtime error: (.*)", text)
        if m:
            kind = "ubsan-" + re.sub(r"[^a-z]+", "-", m.group(1).lower())[:40].strip("-")
        elif "LeakSanitizer" in text:
            kind = "lsan-leak"
        elif "ThreadSanitizer" in text:
            kind = "tsan-" + (re.search(r"WARNING: ThreadSanitizer: ([a-z ]+)", text).group(1).strip().replace(" ", "-")
                              if re.search(r"WARNING: ThreadSanitizer: ([a-z ]+)", text) else "report")
        else:
            kind = "abnormal-exit"
    # first frame inside the library
    m = re.search(r"/Include/(\w+\.hpp):(\d+)", text)
    if m:
        kind += "@%s:%s" % (m.group(1), m.group(2))
    return kind


def minimise_crash(b, path, known, want_cls, budget_s=20, max_probes=60):
    """ddmin over the entropy bytes of a crashing case (sanitizer aborts bypass rapidcheck's shrinking).
    Keeps a candidate only if it still fails with the same class; rewrites `path` with the smallest one found."""
    try:
        text = open(path, encoding="latin-1").read()
    except Exception:
        return 0
    m = re.search(r"^bytes=([0-9a-f]*)$", text, re.M)
    if not m:
        return 0
    data = bytes.fromhex(m.group(1))
    t0 = time.time()
    probes = [0]
    tmp = path + ".min"

    def fails(cand):
        if probes[0] >= max_probes or time.time() - t0 > budget_s:
            return False
        probes[0] += 1
        # derived, human-readable lines (template=..., ops=...) are dropped: the harness recomputes from the bytes
        head = [l for l in text.split("\n") if l.startswith("#") or re.match(r"^(width|value|cached|target|kind|vtype|word|bits)=", l)]
        with open(tmp, "w", encoding="latin-1") as f:
            f.write("\n".join(head) + "\nbytes=" + cand.hex() + "\n")
        st, cls, _ = replay_case(b, tmp, known, timeout=30)
        return st in ("fail", "crash") and cls == want_cls

    n = 2
    while len(data) >= 2 and n <= len(data):
        chunk = max(1, len(data) // n)
        reduced = False
        for i in range(0, len(data), chunk):
            cand = data[:i] + data[i + chunk:]
            if cand and fails(cand):
                data = cand
                n = max(n - 1, 2)
                reduced = True
                break
        if not reduced:
            if chunk == 1:
                break
            n = min(n * 2, len(data))
        if probes[0] >= max_probes or time.time() - t0 > budget_s:
            break
    if os.path.exists(tmp):
        os.remove(tmp)
    if probes[0] > 0 and len(data) < len(bytes.fromhex(m.group(1))):
        head = [l for l in text.split("\n") if l.startswith("#") or re.match(r"^(width|value|cached|target|kind|vtype|word|bits)=", l)]
        with open(path, "w", encoding="latin-1") as f:
            f.write("\n".join(head) + "\n#minimised=ddmin over entropy bytes (%d probes)\nbytes=%s\n" % (probes[0], data.hex()))
    return probes[0]


def parse_known(prop):
    findings, fixed = [], []
    p = os.path.join(ROOT, "known_findings.txt")
    if not os.path.exists(p):
        return findings, fixed
    for line in open(p):
        line = line.strip()
        if not line or line.startswith("#"):
            continue
        if line.startswith("finding:"):
            kv = dict(re.findall(r"(\w+)=(\S+)", line.split("--")[0]))
            if kv.get("property") == prop:
                kv["desc"] = line.split("--", 1)[1].strip() if "--" in line else ""
                findings.append(kv)
        elif line.startswith("fixed:"):
            kv = dict(re.findall(r"(\w+)=(\S+)", line.split("--")[0]))
            if kv.get("property") == prop:
                kv["desc"] = line.split("--", 1)[1].strip() if "--" in line else ""
                fixed.append(kv)
    return findings, fixed


def case_header(path):
    hdr = {}
    try:
        with open(path, encoding="latin-1") as f:
            for line in f:
                if line.startswith("#"):
                    m = re.match(r"#\s*(\w+)=(.*)", line.strip())
                    if m:
                        hdr[m.group(1)] = m.group(2)
                else:
                    break
    except Exception:
        pass
    return hdr


def merge_nt(paths):
    s = set()
    for p in paths:
        try:
            with open(p, "rb") as f:
                d = f.read()
            for i in range(0, len(d) - 7, 8):
                s.add(d[i:i + 8])
        except Exception:
            pass
    return len(s)


def sample_to_obj(text):
    o = {}
    for line in text.split("\n"):
        if "=" in line:
            k, v = line.split("=", 1)
            if k in o:
                if not isinstance(o[k], list):
                    o[k] = [o[k]]
                o[k].append(v)
            else:
                o[k] = v
    return o or text


def main(argv):
    from . import props
    if len(argv) < 3:
        print("usage: check <ID> quick|thorough | check <ID> --replay <file>")
        return 3
    pid = argv[1]
    spec = props.SPECS.get(pid)
    if spec is None:
        print("unknown property", pid)
        return 3
    seed = int(os.environ.get("VERIF_SEED", "1") or "1")
    if seed <= 0:
        seed = 1
    findings, fixed = parse_known(pid)
    known = set(f["class"] for f in findings if "class" in f)
    th = tree_hash()
    t_start = time.time()

    if argv[2] == "--replay":
        path = argv[3]
        hdr = case_header(path) if not path.endswith(".bin") else {}
        bname = spec.get("bin_build", spec["default_build"]) if path.endswith(".bin") else hdr.get("harness", spec["default_build"])
        b = spec["builds"][bname]
        _, ok, msg = build_one(b, th)
        if not ok:
            print("BUILD FAILED\n" + msg)
            return 3
        if path.endswith(".bin"):
            p = sh([b.path, path], env=san_env())
            print(p.stdout[-4000:])
            if p.returncode != 0:
                print("VIOLATION property=%s replay=%s" % (pid, path))
                return 1
            print("replay: pass")
            return 0
        st, cls, outp = replay_case(b, path, known)
        print(outp[-4000:])
        print("replay:", st, cls)
        if st in ("fail", "crash"):
            print("VIOLATION property=%s replay=%s" % (pid, path))
            return 1
        return 0

    tier = argv[2]
    if tier not in ("quick", "thorough"):
        print("tier must be quick or thorough")
        return 3
    scratch = (os.path.realpath(REPO) != "/repo")   # VERIF_REPO points at a scratch tree (sensitivity runs): keep those results apart
    wdir = os.path.join(BUILD, "work", "%s-%s-%d" % (pid, tier, os.getpid()))
    shutil.rmtree(wdir, ignore_errors=True)
    os.makedirs(wdir)
    odir = os.path.join(OUT, pid if not scratch else "%s-scratch-%d" % (pid, os.getpid()))
    os.makedirs(odir, exist_ok=True)

    plan = spec["plan"](tier, seed)
    needed = sorted(set(r.build for r in plan) | set(spec.get("replay_builds", [spec["default_build"]])))
    builds = spec["builds"]
    with ThreadPoolExecutor(max_workers=JOBS) as ex:
        rs = list(ex.map(lambda n: build_one(builds[n], th), needed))
    for b, ok, msg in rs:
        if not ok:
            # A harness that does not compile against the tree cannot decide anything; that is a broken check
            # input, reported as such (exit 3), never as a violation.
            print("BUILD FAILED for %s\n%s" % (b.name, msg))
            return 3
    prune_bins()
    build_s = time.time() - t_start

    violations = []   # (class, path, note)
    notes = []
    known_lines = []
    replays_run = 0

    def confirm(b, path, times=3):
        """replay several times; a violation only if it fails every time"""
        last = None
        for _ in range(times):
            st, cls, outp = replay_case(b, path, known)
            last = (st, cls, outp)
            if st not in ("fail", "crash"):
                return last
        return last

    # 1. known findings: each listed replay must still show its class (otherwise just a note)
    for f in findings:
        rp = os.path.join(ROOT, f.get("replay", ""))
        hdr = case_header(rp)
        b = builds[hdr.get("harness", spec["default_build"])]
        if b.path is None:
            build_one(b, th)
        st, cls, outp = replay_case(b, rp, known)
        replays_run += 1
        if st == "known" and cls == f.get("class"):
            known_lines.append("KNOWN-FINDING: property=%s %s [%s] %s" % (pid, f.get("id", ""), f.get("class"), f["desc"]))
        elif st == "pass":
            notes.append("listed finding %s no longer reproduces" % f.get("id", f.get("class")))
        else:
            dst = os.path.join(odir, "violation-knownreplay-%s.case" % f.get("id", "x"))
            shutil.copy(rp, dst)
            violations.append((cls or st, dst, "replay of a listed finding fails differently: " + st))
    # 2. fixed entries and committed regression replays must pass
    rdir = os.path.join(ROOT, "replays", pid)
    listed = set(os.path.join(ROOT, f.get("replay", "")) for f in findings)
    if os.path.isdir(rdir):
        for fn in sorted(os.listdir(rdir)):
            rp = os.path.join(rdir, fn)
            if rp in listed or not (fn.endswith(".case") or fn.endswith(".bin")):
                continue
            hdr = case_header(rp) if fn.endswith(".case") else {}
            bname = hdr.get("harness", spec.get("bin_build") if fn.endswith(".bin") else spec["default_build"])
            b = builds[bname]
            if b.path is None:
                build_one(b, th)
            replays_run += 1
            if fn.endswith(".bin"):
                p = sh([b.path, rp], env=san_env())
                if p.returncode != 0:
                    violations.append((crash_class(p.stdout), rp, "committed regression input fails"))
                continue
            st, cls, outp = confirm(b, rp)
            if st in ("fail", "crash", "timeout"):
                violations.append((cls or st, rp, "committed regression case fails"))

    # 3. the search
    with ThreadPoolExecutor(max_workers=JOBS) as ex:
        results = list(ex.map(lambda r: exec_run(r, builds, seed, wdir, known), plan))

    inconclusive = []
    k = 0
    for res in results:
        if res.timed_out:
            inconclusive.append("%s: %s" % (res.run.label, "watchdog exit (a phase did not finish)" if res.rc == 5 else "safety-net timeout after %ds" % res.run.timeout))
            continue
        if res.run.mode == "fuzz":
            if res.crash:
                k += 1
                dst = os.path.join(odir, "violation-%d.bin" % k)
                shutil.copy(res.artifact, dst)
                b = builds[res.run.build]
                fails = 0
                outp = ""
                for _ in range(3):
                    p = sh([b.path, dst], env=san_env())
                    outp = p.stdout
                    if p.returncode != 0:
                        fails += 1
                if fails == 3:
                    cls = crash_class(outp)
                    m = re.search(r"ORACLE FAILURE class=(\S+)", outp)
                    if m:
                        cls = m.group(1)
                    # prefer the readable case file when it reproduces in the property's default (rapidcheck) build
                    if res.case_text:
                        cdst = os.path.join(odir, "violation-%d.case" % k)
                        with open(cdst, "w", encoding="latin-1") as f:
                            f.write("#harness=%s\n#found_by=%s seed=%d tier=%s\n" % (spec["default_build"], res.run.label, seed, tier))
                            f.write(res.case_text)
                        db = builds[spec["default_build"]]
                        if db.path is None:
                            build_one(db, th)
                        st, ccls, coutp = confirm(db, cdst)
                        if st in ("fail", "crash"):
                            violations.append((ccls, cdst, "found by %s (libFuzzer), reproduced 3x from the case file" % res.run.label))
                            continue
                    violations.append((cls, dst, "libFuzzer artifact, reproduced 3x"))
                else:
                    inconclusive.append("%s: artifact did not reproduce (%d/3)" % (res.run.label, fails))
            elif getattr(res, "noise", False):
                inconclusive.append("%s: libFuzzer exited %d without crash artifact (timeout/oom noise)" % (res.run.label, res.rc))
            continue
        if res.fail or res.crash:
            if not res.case_text:
                inconclusive.append("%s: abnormal exit %s without a recoverable case (see %s)" % (res.run.label, res.rc, res.log))
                # an abnormal exit of the harness itself is still a failure of the check to decide: report it
                violations.append(("abnormal-exit", res.log, "harness exited %s and no case could be recovered" % res.rc))
                continue
            k += 1
            dst = os.path.join(odir, "violation-%d.case" % k)
            with open(dst, "w", encoding="latin-1") as f:
                f.write("#harness=%s\n#found_by=%s seed=%d tier=%s\n" % (res.run.build, res.run.label, seed, tier))
                f.write(res.case_text)
            b = builds[res.run.build]
            st, cls, outp = confirm(b, dst)
            if st == "crash":
                minimise_crash(b, dst, known, cls)
                st, cls, outp = confirm(b, dst)
            if st in ("fail", "crash"):
                with open(dst + ".log", "w") as f:
                    f.write(outp)
                violations.append((cls, dst, "found by %s, reproduced 3x" % res.run.label))
            else:
                inconclusive.append("%s: candidate did not reproduce on replay (%s)" % (res.run.label, st))

    # 4. evidence
    ev = 0
    nt_paths = []
    labels, known_hits, samples = {}, {}, []
    excluded = 0
    discards = 0
    exhaustive = None
    exhaustive_what = ""
    allocs = frees = 0
    per_run = []
    for res in results:
        s = res.stats
        per_run.append({"run": res.run.label, "build": res.run.build, "mode": res.run.mode, "exit": res.rc,
                        "wall_s": round(res.wall, 2), "evaluations": (s or {}).get("evaluations")})
        if not s:
            continue
        ev += s.get("evaluations", 0)
        excluded += s.get("excluded_known", 0)
        discards += s.get("discards", 0)
        allocs += s.get("ledger", {}).get("allocs", 0)
        frees += s.get("ledger", {}).get("frees", 0)
        for kx, v in s.get("labels", {}).items():
            labels[kx] = labels.get(kx, 0) + v
        for kx, v in s.get("known_hits", {}).items():
            known_hits[kx] = known_hits.get(kx, 0) + v
        for sm in s.get("samples", []):
            if len(samples) < 10:
                samples.append(sample_to_obj(sm))
        if res.run.mode == "enum" and res.run.enum and res.run.enum[0] in spec.get("exhaustive_enums", []):
            exhaustive = s.get("exhaustive", False) if exhaustive in (None, True) else False
            exhaustive_what = s.get("exhaustive_what", "")
        nt_paths.append(res.nt_path)
    distinct = merge_nt(nt_paths) + sum((r.stats or {}).get("nontrivial_counted", 0) for r in results)
    wall = time.time() - t_start
    evidence = {
        "property_id": pid,
        "tier": tier,
        "seed": seed,
        "level": "exploration",
        "coverage": {
            "evaluations": ev,
            "distinct_nontrivial": distinct,
            "rule": spec["rule"],
            "samples": samples if samples else ["(no non-trivial sample recorded)"],
            "labels": labels,
            "excluded_known": excluded,
            "excluded_known_by_class": known_hits,
            "discarded_by_generator": discards,
            "replays_run": replays_run,
            "configs": sorted(set("%s[%s,%s,hook=%s%s]" % (b.name, b.san, b.simd, "on" if b.hook else "off",
                                                           "," + ",".join(b.defs) if b.defs else "")
                                  for b in (builds[r.build] for r in plan))),
            "runs": per_run,
            "ledger": {"allocations": allocs, "releases": frees},
            "exhaustive": bool(exhaustive),
            "exhaustive_subspace": exhaustive_what,
            "inconclusive": inconclusive,
            "notes": notes,
            "build_s": round(build_s, 1),
            "tree_hash": th,
        },
        "assumptions": spec.get("assumptions", []),
        "wall_s": round(wall, 2),
        "violations": len(violations),
    }
    evdir = os.path.join(ROOT, "evidence") if not scratch else os.path.join(BUILD, "evidence-scratch")
    os.makedirs(evdir, exist_ok=True)
    with open(os.path.join(evdir, pid + ".json"), "w") as f:
        json.dump(evidence, f, indent=1, sort_keys=False)
        f.write("\n")

    shutil.rmtree(wdir, ignore_errors=True)
    for line in known_lines:
        print(line)
    for n in notes:
        print("note:", n)
    for n in inconclusive:
        print("inconclusive:", n)
    print("%s %s seed=%d: %d evaluations, %d distinct non-trivial, %d excluded-known, %d replays, %.1fs (build %.1fs)"
          % (pid, tier, seed, ev, distinct, excluded, replays_run, wall, build_s))
    if violations:
        seen = set()
        uniq = []
        for v in violations:      # one line per distinct class (root-cause signature), first replay kept
            if v[0] not in seen:
                seen.add(v[0])
                uniq.append(v)
        for cls, path, note in uniq:
            print("violation class=%s (%s)" % (cls, note))
            print("VIOLATION property=%s replay=%s" % (pid, path))
        return 1
    return 0
