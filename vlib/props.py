"""Registry: per property the harness builds, the tiered plan and the evidence rule text."""
from .driver import Build, Run

SPECS = {}
NOT_YET = {}


def shards(build, what, n, **kw):
    return [Run(build, mode="enum", enum=[what, i, n], label="%s-enum-%s-%d" % (build, what, i), **kw) for i in range(n)]


def checks(build, procs, n, size=100, **kw):
    return [Run(build, mode="check", n=n, size=size, seed_off=i, label="%s-check-%d" % (build, i), **kw) for i in range(procs)]


# ---------------------------------------------------------------------------------------------- C20
def plan_c20(tier, seed):
    if tier == "quick":
        # (plain: no sanitizer - the far-document form finds its addresses free there)
        return checks("main", 6, 60000) + checks("plain", 2, 60000) + shards("main", "stride", 4)
    return checks("main", 4, 200000) + checks("plain", 2, 100000) + shards("main", "all", 12) + shards("plain", "all", 4)


SPECS["C20"] = {
    "builds": {
        "main": Build("main", "harness/c20_unicode.cpp"),
        "plain": Build("plain", "harness/c20_unicode.cpp", san="plain", hook=False),
    },
    "default_build": "main",
    "plan": plan_c20,
    "exhaustive_enums": ["all"],
    "rule": ("case = (scalar value, unit width 1/2/4, form: direct Unicode::ToUTF | JSON \\u escape upper-case hex | lower-case | "
             "mixed-case embedded in text); generated boundary-biased (plane/length/surrogate boundaries +-3, uniform, BMP) "
             "plus strided (quick) or complete (thorough) enumeration of all 1,112,064 scalars; non-trivial = code point above "
             "U+007F or decoded through an escape; distinct by (scalar,width,form)"),
    "engine": "rapidcheck + complete enumeration",
    "technique": "property-based testing (rapidcheck) plus complete enumeration of the scalar range against an independent reference encoder",
    "level_text": ("Every Unicode scalar value (strided in quick, all 1,112,064 in thorough) x 3 unit widths x {direct encoder, \\u escape in "
                   "upper, lower and mixed hex embedded in text} is compared with an encoder written from the standard; thorough is an "
                   "exhaustive enumeration of the stated input space, so for this finite space the exploration is complete."),
    "level_note": "trusts the in-harness reference encoder (written from the Unicode standard, 25 lines) and clang/ASan",
    "assumptions": ["reference encoder written in the harness from the Unicode standard",
                    "JSON::Parse is given an exact-size heap buffer under AddressSanitizer"],
}


# ---------------------------------------------------------------------------------------------- C09
def plan_c09(tier, seed):
    if tier == "quick":
        return checks("main", 8, 40000)
    return checks("main", 14, 600000) + checks("nohook_avx2", 2, 300000)


SPECS["C09"] = {
    "builds": {
        "main": Build("main", "harness/c09_strtonum.cpp"),
        "nohook_avx2": Build("nohook_avx2", "harness/c09_strtonum.cpp", simd="avx2", hook=False),
    },
    "default_build": "main",
    "plan": plan_c09,
    "rule": ("case = numeral text built by construction from [+-]?digits(.digits)?([eE][+-]?digits)? in 14 classes (small integers, 2^63/2^64 "
             "boundaries +-3, decimals, integer+exponent, up to 700-digit strings, leading fraction zeros, %e spellings of random finite doubles "
             "incl. subnormals, exact midpoints between adjacent doubles (up to ~770 digits), overflow region 1e285..1e340, subnormal region, "
             "zero mantissas with exponents, and the listed malformed forms), placed after a prefix and before a terminator in an exact-size heap "
             "buffer of 1/2/4-byte units; non-trivial = has fraction or exponent, or >= 19 digits, or malformed; distinct by full case text"),
    "engine": "rapidcheck",
    "technique": "property-based testing (rapidcheck) with a differential oracle: glibc strtod (correctly rounded) and exact decimal-string integer comparison",
    "level_text": ("Generated numerals are converted by Digit::StringToNumber and compared with strtod on the same text (<= 1 ulp in ordered-bit distance, "
                   "sign incl. -0), exact integers by decimal string, consumed length, overflow => NaN kind or infinity, malformed => rejected. "
                   "Sampling, not proof: the numeral space is infinite; the generator is biased to the boundaries the property names."),
    "level_note": "trusts glibc strtod as the correctly rounded reference and the in-harness exact midpoint expansion (bigdec.hpp)",
    "assumptions": ["glibc strtod is correctly rounded", "numerals whose correctly rounded value is 0 with a non-zero mantissa (below the smallest subnormal) are outside the quantifier and discarded"],
}


# ---------------------------------------------------------------------------------------------- C10
def plan_c10(tier, seed):
    if tier == "quick":
        return checks("main", 8, 40000) + shards("plain", "sparse-12", 8) + shards("plain", "tiny-floats", 4) + shards("plain", "big-ties-2", 4)
    runs = (shards("plain", "big-ties-100", 8) + checks("main", 10, 500000) + checks("nohook", 2, 300000) + shards("plain", "sparse-17", 16, timeout=7000)
            + shards("plain", "wide-50", 16, timeout=7000) + shards("plain", "tiny-floats", 4))
    # every float bit pattern at three (precision, format) pairs, plain -O2 build, 16 shards each
    for what in ("floats-9-0", "floats-6-1", "floats-2-2"):
        runs += shards("plain", what, 16, timeout=7000)
    return runs


SPECS["C10"] = {
    "builds": {
        "main": Build("main", "harness/c10_numtostr.cpp"),
        "nohook": Build("nohook", "harness/c10_numtostr.cpp", hook=False, simd="avx2"),
        "plain": Build("plain", "harness/c10_numtostr.cpp", san="plain", hook=False),
    },
    "default_build": "main",
    "plan": plan_c10,
    "exhaustive_enums": ["floats-9-0", "floats-6-1", "floats-2-2", "sparse-12", "sparse-17", "tiny-floats"],
    "rule": ("enumerated: the 196,608 floats with the smallest subnormal bit patterns and those around the smallest normal at precision 24..40 in three formats; "
             "every double with an odd significand part of at most 12 bits (quick) / 17 bits (thorough) in the binades below 1e-200 and above 1e200 at "
             "every precision 0..40 in the Default format (60 M / 1.9 G conversions); thorough also prints 800 M pseudo-random doubles with |binary exponent| >= 200 "
             "(hundreds of digits) in Fixed / SemiFixed at precision 0..3 and Default at 17..40; generated: "
             "case = (value, precision 0..40, format Default/Fixed/SemiFixed, unit width, stream prefix); values: doubles from 14 classes (uniform bits, "
             "modest binades, short decimals m*10^e, everyday decimals, exact binary ties, integers, power-of-ten / power-of-two neighbourhoods, "
             "subnormals, sparse mantissas, specials, nine-runs), floats (uniform, short decimals, ties, specials), integers of 8/16/32/64 bits "
             "incl. minima; thorough adds every one of the 2^32 floats at 3 (precision, format) pairs; non-trivial = finite non-integer value, or "
             "integer value with more digits than the precision, or an integer type; distinct by full case text"),
    "engine": "rapidcheck + complete enumeration of floats",
    "technique": "property-based testing (rapidcheck) with a differential oracle: glibc snprintf %.*g / %.*f (exact) and std::to_string; exhaustive float sweep",
    "level_text": ("Digit::NumberToString output is compared byte for byte with snprintf (Default=%.{p}g, Fixed=%.{p}f, SemiFixed=%.{p}f minus trailing "
                   "fractional zeros) for generated doubles/floats at precision 0..40, with exact integer text for all integer widths, inf/nan spelling, and "
                   "an untouched stream prefix; exact-fit stream growth + ASan makes any write past the stream block a failure. Thorough enumerates all "
                   "2^32 floats at three (precision, format) pairs. Sampling for doubles (2^64 x 41 x 3 is out of reach)."),
    "level_note": "trusts glibc printf as the exact reference; the exhaustive float sweep runs in a plain -O2 build (no sanitizer)",
    "assumptions": ["glibc snprintf prints correctly rounded digits of the exact binary value"],
}


# ---------------------------------------------------------------------------------------------- C11
def plan_c11(tier, seed):
    if tier == "quick":
        return checks("main", 8, 40000) + shards("plain", "least-slack-4", 12) + shards("plain", "short-decimals", 4)
    return (checks("main", 8, 500000) + shards("plain", "short-decimals", 4) + shards("plain", "floats", 16, timeout=7000) + shards("plain", "doubles-lattice", 16, timeout=7000)
            + shards("plain", "least-slack-400", 16, timeout=7000))


SPECS["C11"] = {
    "builds": {
        "main": Build("main", "harness/c11_roundtrip.cpp"),
        "plain": Build("plain", "harness/c11_roundtrip.cpp", san="plain", hook=False),
    },
    "default_build": "main",
    "plan": plan_c11,
    "exhaustive_enums": ["floats"],
    "rule": ("case = finite double (same 14 generator classes as C10: uniform bits, binades, short decimals, ties, powers of 2/10 +-2 ulp, subnormals, "
             "sparse mantissas, extremes, +-0) formatted with 17 significant digits and parsed back, 1 or 3 cycles, 3 unit widths; or a float with 9 digits; "
             "quick and thorough walk the 12 binades whose top lies closest above a power of ten (where the 17-digit text of a double has the least slack "
             "before the midpoint to its neighbour) with an even stride: 64 M / 6.4 G doubles; "
             "thorough adds all finite floats (exhaustive) and a 60M-point lattice over the double bit patterns; non-trivial = value is not an integer "
             "below 2^53; distinct by bit pattern, width and cycles"),
    "engine": "rapidcheck + complete enumeration of floats",
    "technique": "property-based testing (rapidcheck) with a round-trip oracle (bit identity after format(17)/parse); exhaustive float sweep",
    "level_text": ("Bit identity of StringToNumber(NumberToString(d,17)) for generated finite doubles (and 9 digits for floats); thorough enumerates "
                   "every finite float and a regular lattice of doubles. Sampling for doubles; short decimals m x 10^k at every exponent and the "
                   "least-slack binades are enumerated."),
    "level_note": "no external reference needed (round trip); plain -O2 build for the sweeps",
    "assumptions": [],
}


# ---------------------------------------------------------------------------------------------- C05
def fuzz(build, workers, runs, corpus, dic, max_len=256, max_time=600, **kw):
    return [Run(build, mode="fuzz", n=runs, seed_off=i, label="%s-fuzz-%d" % (build, i),
                fuzz={"seed_corpus": corpus if (i % 2 == 0) else None, "dict": dic, "max_len": max_len, "max_time": max_time},
                timeout=max_time + 300, **kw) for i in range(workers)]


def plan_c05(tier, seed):
    if tier == "quick":
        return (checks("main", 4, 20000) + checks("plain", 1, 2000) + shards("main", "sizes", 4) + shards("complete_or_undefined", "deep", 2)
                + fuzz("fuzz", 4, 400000, "corpus/C05", "dict/json.dict", max_time=60))
    return (checks("main", 4, 300000) + checks("nohook_avx2", 1, 100000) + checks("plain", 1, 50000) + shards("main", "sizes", 4) + shards("complete_or_undefined", "deep", 4)
            + shards("nohook_avx2", "sizes", 2) + fuzz("fuzz", 10, 12000000, "corpus/C05", "dict/json.dict", max_len=512, max_time=900))


SPECS["C05"] = {
    "builds": {
        "main": Build("main", "harness/c05_jsonsafe.cpp"),
        "nohook_avx2": Build("nohook_avx2", "harness/c05_jsonsafe.cpp", hook=False, simd="avx2"),
        "plain": Build("plain", "harness/c05_jsonsafe.cpp", san="plain", hook=False),
        # "either a complete value or Undefined" for texts nested 250 .. 2000 levels: the deep enumeration of the all-or-nothing harness
        "complete_or_undefined": Build("complete_or_undefined", "harness/c06_json.cpp", defs=["VERIF_C07"]),
        "fuzz": Build("fuzz", "harness/c05_jsonsafe.cpp", san="fuzz", defs=["VERIF_FUZZ"], link_rc=False),
    },
    "default_build": "main",
    "bin_build": "fuzz",
    "plan": plan_c05,
    "exhaustive_enums": ["sizes"],
    "rule": ("(a) rapidcheck: RFC 8259 documents from the C06 generator with 1-4 generated mutations (truncate, delete, structural replacement, "
             "inserted NUL/unit, cut inside a token, duplicated slice, keyword followed by NULs, replace) and directed nesting classes "
             "('[', '{\"a\":', alternating; depth 1..512; closed / unclosed / half closed / wrong inner bracket), widths char/char16_t/char32_t/wchar_t; "
             "and the size class, enumerated completely: valid (or cut one unit short) documents of 255 .. 2,097,153 units - one long string with an escape at "
             "its start / middle / end as element, member value or key, arrays / objects with up to 70,000 members, number tokens of up to 120,000 digits "
             "whose exponent compensates their length; "
             "(b) libFuzzer: byte 0 selects the width, the rest are code units (0xFF escapes an arbitrary wide unit), JSON dictionary, "
             "seed corpus on even workers and empty corpus on odd ones. Every input sits in an exact-size heap buffer without terminator. "
             "non-trivial = contains a structural character and is rejected, or is accepted with depth >= 2; distinct by input"),
    "engine": "libFuzzer + rapidcheck",
    "technique": "coverage-guided fuzzing (libFuzzer, ASan/UBSan, oracle in the target) plus property-based mutation of valid documents and directed nesting depths (rapidcheck)",
    "level_text": ("Memory safety is observed by AddressSanitizer/UBSan on exact-size buffers (one-past reads are redzone hits), termination by bounded "
                   "work per input, the 512-level claim by directed depth classes in sanitizer and plain -O2 builds (default stack), completeness of "
                   "accepted values by a recursive predicate, and allocation balance by the ledger. Sampling over an infinite input space."),
    "level_note": "trusts ASan/UBSan to report invalid accesses; termination is only observed on generated inputs",
    "assumptions": ["default 8 MiB main-thread stack for the nesting classes"],
}


# ---------------------------------------------------------------------------------------------- C06 / C07
def plan_c06(tier, seed):
    if tier == "quick":
        return checks("main", 8, 30000) + shards("main", "long-strings", 4)
    return checks("main", 14, 150000) + checks("nohook_avx2", 2, 100000) + shards("main", "long-strings", 4) + shards("nohook_avx2", "long-strings", 2)


SPECS["C06"] = {
    "builds": {
        "main": Build("main", "harness/c06_json.cpp"),
        "nohook_avx2": Build("nohook_avx2", "harness/c06_json.cpp", hook=False, simd="avx2"),
    },
    "default_build": "main",
    "plan": plan_c06,
    "exhaustive_enums": ["long-strings"],
    "rule": ("case = entropy bytes -> (model tree with container top level: strings over the whole scalar range incl. U+0000 and astral planes, "
             "numerals from the RFC grammar within range incl. 2^63/2^64 boundaries, -0, exponents; duplicate keys; depth <= 7) and an independent "
             "spelling (whitespace at every legal place, short escapes, \\uXXXX in upper/lower/mixed hex, surrogate pairs), encoded to UTF-8/16/32; "
             "non-trivial = contains an escape, a non-integer number, nesting >= 2 or a duplicate key; distinct by entropy and width"),
    "engine": "rapidcheck",
    "technique": "property-based testing (rapidcheck): documents spelled from a model tree, parsed result compared with the tree; strict reference parser validates the generator; python3 json cross-check of samples",
    "level_text": ("JSON::Parse of generated RFC 8259 text is compared structurally with the tree the text was spelled from (member order, duplicate-key rule, "
                   "code-unit-exact strings via a reference encoder, exact integers, reals within 1 ulp of strtod, lookup-by-key consistency). "
                   "The generator itself is validated on every case by an independent strict RFC 8259 parser. Sampling."),
    "level_note": "trusts the in-harness reference encoder / strict parser and glibc strtod; tools/python_crosscheck.py feeds the sampled documents to python3 json as a second opinion on the generator",
    "assumptions": ["lone surrogates are excluded (RFC 8259 section 8.2: unpredictable)"],
}


def plan_c07(tier, seed):
    if tier == "quick":
        return checks("main", 8, 8000) + shards("main", "deep", 4)
    return checks("main", 16, 40000) + shards("main", "deep", 8)


SPECS["C07"] = {
    "builds": {"main": Build("main", "harness/c06_json.cpp", defs=["VERIF_C07"])},
    "default_build": "main",
    "plan": plan_c07,
    "rule": ("for each generated container document D (C06 generator, no surrounding whitespace): all |D| proper prefixes at code-unit level, D + each of 14 "
             "non-whitespace units (with and without a space before), every structural closing bracket replaced by the other kind, every inner closing "
             "bracket removed; each variant is one evaluation and must parse to Undefined while D itself must be accepted; "
             "non-trivial = document with nesting >= 2, an escape or more than 8 code points; distinct by entropy and width"),
    "engine": "rapidcheck",
    "technique": "property-based testing (rapidcheck) with an inner exhaustive enumeration of every cut point / bracket damage per generated document",
    "level_text": ("Every proper prefix, trailing-garbage variant and bracket-damaged variant of generated valid documents must yield Undefined; the undamaged "
                   "document must be accepted (non-vacuity). Per document the variants are enumerated completely; documents are sampled. "
                   "Strings of the document as whole texts, damaged / cut-short \\u escapes and lone surrogate halves in front of invalidating text are further "
                   "variant classes; texts nested 250..2000 levels are enumerated (prefixes, trailing units, malformed cores)."),
    "level_note": "relies on the C06 generator producing valid documents (validated there by the strict reference parser)",
    "assumptions": [],
}


# ---------------------------------------------------------------------------------------------- C08
def plan_c08(tier, seed):
    if tier == "quick":
        return checks("main", 8, 12000) + shards("plain", "least-slack-2", 8) + shards("main", "huge-strings", 4)
    return (checks("main", 14, 150000) + checks("nohook_avx2", 2, 100000) + shards("plain", "least-slack-200", 16, timeout=7000)
            + shards("main", "huge-strings", 4) + shards("nohook_avx2", "huge-strings", 4))


SPECS["C08"] = {
    "builds": {
        "main": Build("main", "harness/c08_stringify.cpp"),
        "nohook_avx2": Build("nohook_avx2", "harness/c08_stringify.cpp", hook=False, simd="avx2"),
        "plain": Build("plain", "harness/c08_stringify.cpp", san="plain", hook=False),
    },
    "default_build": "main",
    "plan": plan_c08,
    "rule": ("enumerated: arrays of eight doubles taken with an even stride from the 12 binades whose top lies closest above a power of ten (least slack of a 17-digit text), "
             "16 M (quick) / 3.2 G (thorough) numbers, each array stringified with 17 digits, parsed back (equal values) and stringified again (fixed point); generated: "
             "case = entropy bytes -> construction program over the public Value API (every scalar assignment overload incl. float/int/unsigned, "
             "strings through C-string / String copy and move / StringView / (ptr,len) constructor, arrays grown by += copy/move and indexed write, "
             "objects through [] by C-string/String/StringView, Get, Insert with duplicate keys, RemoveIndex / Remove incl. last and all members, "
             "pointer-to-value members, nesting <= 6, strings over all code units incl. NUL/controls/quote/backslash/astral and a labelled ill-formed class, "
             "numeric extremes, -0, subnormals) with the model tree kept alongside; non-trivial = has a string needing an escape, a removed member or a real; "
             "distinct by entropy and width"),
    "engine": "rapidcheck",
    "technique": "property-based testing (rapidcheck): round-trip oracle against a model tree built alongside, fixed-point relation, and an independent strict RFC 8259 reference parser on the emitted text",
    "level_text": ("Stringify(17) text is (1) parsed back by the library and compared with the model (Undefined members omitted, numbers by value), (2) re-stringified "
                   "and compared byte for byte (fixed point), (3) when all strings are well-formed, validated by a strict RFC 8259 parser written in the harness whose "
                   "tree (numbers via strtod) must equal the model. Sampling."),
    "level_note": "trusts the in-harness strict RFC 8259 parser and glibc strtod",
    "assumptions": [],
}


# ---------------------------------------------------------------------------------------------- C15
def plan_c15(tier, seed):
    if tier == "quick":
        return checks("main", 6, 15000) + shards("main", "strings3", 1) + shards("main", "values", 1) + shards("main", "big-sorts", 4)
    return checks("main", 12, 200000) + shards("main", "strings4", 8) + shards("main", "values", 2) + checks("nohook", 2, 100000) + shards("main", "big-sorts", 4) + shards("nohook", "big-sorts", 2)


SPECS["C15"] = {
    "builds": {
        "main": Build("main", "harness/c15_order.cpp"),
        "nohook": Build("nohook", "harness/c15_order.cpp", hook=False, simd="avx2"),
    },
    "default_build": "main",
    "plan": plan_c15,
    "exhaustive_enums": ["strings3", "strings4", "values"],
    "rule": ("(a) enumerated: all pairs over every comparison surface (String, StringView, both against C-strings, StringUtils::IsLess/IsGreater) and all "
             "triples (transitivity) of the strings over {a,b,c} up to length 3 (quick, 40 strings) / 4 (thorough, 121 strings); all pairs and triples of a "
             "universe of 34 values of every kind incl. pointer-to-value; (b) generated: triples of longer strings with forced shared prefixes; sorts of "
             "Array<int>, Array<String>, HArray (with removed members), Value arrays (unsigned/signed/real/strings), Value objects and <loop sort=...> sets, "
             "sizes 0..39, random / presorted / reversed / many duplicates, ascending and descending; non-trivial = every enumerated tuple, every sort, "
             "every random triple with two different strings; distinct by tuple / entropy"),
    "engine": "rapidcheck + complete enumeration",
    "technique": "complete enumeration of small string and value universes against order axioms and a reference order, plus property-based testing of sorts (ordered-permutation oracle)",
    "level_text": ("Order axioms (exactly one of <,==,>; <=, >=, != derived; transitivity) and agreement with lexicographic / numeric reference order are checked "
                   "exhaustively on the stated small universes; sorts are checked on generated inputs for multiset equality, adjacent ordering under the reference "
                   "relation and intact lookups. Exhaustive for the enumerated universes, sampling beyond."),
    "level_note": "reference order: unsigned code-unit lexicographic with prefix first (generated units are < 0x80, so signedness of char does not matter)",
    "assumptions": ["strings compared contain only units below 0x80"],
}


# ---------------------------------------------------------------------------------------------- C14
def plan_c14(tier, seed):
    if tier == "quick":
        # (plain_sse2: no sanitizer and the library's own growth policy - the far-buffer steps find their addresses free there)
        return (checks("main", 5, 12000) + checks("avx2_nohook", 1, 8000) + checks("scalar", 1, 8000) + checks("plain_sse2", 1, 12000)
                + shards("main", "grid-quick", 2) + shards("avx2_nohook", "grid-quick", 2) + shards("scalar", "grid-quick", 2))
    return (checks("main", 8, 200000) + checks("avx2_nohook", 3, 150000) + checks("scalar", 3, 150000)
            + shards("plain_sse2", "grid-full", 5, timeout=7000) + shards("plain_avx2", "grid-full", 5, timeout=7000)
            + shards("plain_scalar", "grid-full", 5, timeout=7000) + shards("main", "grid-quick", 2) + shards("avx2_nohook", "grid-quick", 2))


SPECS["C14"] = {
    "builds": {
        "main": Build("main", "harness/c14_sequences.cpp"),
        "avx2_nohook": Build("avx2_nohook", "harness/c14_sequences.cpp", simd="avx2", hook=False),
        "scalar": Build("scalar", "harness/c14_sequences.cpp", simd="none"),
        "plain_sse2": Build("plain_sse2", "harness/c14_sequences.cpp", san="plain", hook=False),
        "plain_avx2": Build("plain_avx2", "harness/c14_sequences.cpp", san="plain", simd="avx2", hook=False),
        "plain_scalar": Build("plain_scalar", "harness/c14_sequences.cpp", san="plain", simd="none", hook=False),
    },
    "default_build": "main",
    "plan": plan_c14,
    "exhaustive_enums": ["grid-quick", "grid-full"],
    "rule": ("(a) generated operation programs (1-50 steps, pool of two containers) on Array<int>, Array<String> (owning), String, StringStream (char/char16_t/char32_t) "
             "and StringView covering construction forms, copy/move, append of items / ranges / other container / the container itself, Insert, InsertAt, Reverse, "
             "StepBack/Drop, Trim, Reserve/Resize/ResizeAndInitialize/Expect/Compress, Detach/adopt, Reset/Clear, Buffer/SetLength/InsertNull/GetString/"
             "GetStringView, Sort, comparisons against String/StringView/C-string incl. storage-less operands; model compared after every step; "
             "(b) Memory::Copy and SetToZero on exact-end heap buffers against memcpy/memset for a grid of lengths and source/destination misalignments in "
             "scalar, SSE2 and AVX2 builds; non-trivial = a growth happened while the container was non-empty (a), every grid point (b); distinct by entropy"),
    "engine": "rapidcheck + complete enumeration",
    "technique": "model-based property testing (rapidcheck, std::vector / unit-vector reference models compared after every step) plus complete enumeration of the copy/zero-fill length x misalignment grid per SIMD build",
    "level_text": ("Sequence containers are driven by generated operation programs and compared with plain sequence models after every step (contents, length, "
                   "First/Last/End, NUL termination, capacity >= size, the other pool member untouched, allocation ledger); exact-fit growth + ASan turn any access "
                   "past the logical end into a failure. The byte primitives are enumerated over the stated grid in three SIMD builds (thorough: all lengths "
                   "0..4096 x 64 x 64 misalignments). Sampling for the histories, exhaustive for the grid."),
    "level_note": "trusts std::vector / memcpy / memset as reference; ASan for out-of-block accesses",
    "assumptions": ["String(len) is used as a buffer the caller fills (its content is unspecified until written)"],
}


# ---------------------------------------------------------------------------------------------- C12
def plan_c12(tier, seed):
    if tier == "quick":
        # (the build without the exact-fit growth hook keeps the spare room ordinary growth leaves: paths that depend on Capacity() > Size())
        return checks("main", 7, 5000) + checks("nohook_avx2", 2, 4000) + shards("hunt", "marker-hunt-10", 8)
    return checks("main", 13, 80000) + checks("nohook_avx2", 3, 60000) + shards("hunt", "marker-hunt-500", 16, timeout=7000)


SPECS["C12"] = {
    "builds": {
        "main": Build("main", "harness/c12_value.cpp"),
        "nohook_avx2": Build("nohook_avx2", "harness/c12_value.cpp", hook=False, simd="avx2"),
        # the object of a Value is the hash array: a member name that hashes to the removed-slot marker would vanish from it (see C13)
        "hunt": Build("hunt", "harness/c13_harray.cpp", san="plain", hook=False),
    },
    "default_build": "main",
    "plan": plan_c12,
    "rule": ("case = entropy bytes -> program of 1-60 public Value operations over a pool of 3 values + 2 pointer targets, each applied to a node reached by a "
             "generated path (root, then up to 3 child steps): every scalar/string/container assignment overload, += overloads (scalars, strings, Value copy/move, "
             "ObjectT, ArrayT empty and non-empty), [] by C-string/String/StringView/index, Get, Insert, Merge copy/move, Remove (3 overloads), RemoveIndex, Reset, "
             "Compress, copy/move construction and assignment between roots, SetPointerToValue/AddPointerToValue, direct construction followed by in-place "
             "conversion (in a 0xBE-filled buffer); after every step all 5 roots are compared recursively with the document model through every reader "
             "(kind predicates, Type, Size, GetValue by index/key, GetKey iteration, strings, GetNumberType, SetNumber/GetDouble/GetInt64/GetUInt64/SetBool "
             "coercions) and Stringify(17) against the model's canonical text; non-trivial = a step changed the kind of a non-empty value, removed a member, "
             "moved a root or created a pointer; distinct by entropy"),
    "engine": "rapidcheck",
    "technique": "model-based (stateful) property testing with rapidcheck: generated operation programs compared step by step with an abstract JSON document model",
    "level_text": ("Generated histories of public Value operations are executed against the library and an in-harness document model (transition table in DESIGN.md "
                   "Appendix A); every read is compared after every step, copies are checked for independence, the allocation ledger must be empty at the end. "
                   "Positional access into objects is generated only while the object holds no removed entries, as the property states. Sampling over histories."),
    "level_note": "the model encodes the documented transitions; operations whose result is undocumented (SetPointerToValue(nullptr), operator=(ValueType) on a live value, self-merge) are not generated",
    "assumptions": ["pointer targets outlive the values pointing at them and never hold pointers themselves (no cycles)"],
}


# ---------------------------------------------------------------------------------------------- C19
def plan_c19(tier, seed):
    if tier == "quick":
        return (checks("main", 6, 6000) + shards("main", "dw8", 2) + shards("main", "dw64", 1) + shards("plain", "dwq64-4", 6)
                + shards("plain", "dwq32-2", 1) + shards("plain", "dwq16-2", 1))
    return (checks("main", 10, 120000) + checks("nohook_avx2", 2, 60000) + shards("main", "dw8", 2) + shards("main", "dw16", 1)
            + shards("main", "dw32", 1) + shards("main", "dw64", 1) + shards("plain", "dwq64-400", 12, timeout=7000)
            + shards("plain", "dwq32-200", 2, timeout=7000) + shards("plain", "dwq16-100", 2, timeout=7000))


SPECS["C19"] = {
    "builds": {
        "main": Build("main", "harness/c19_bigint.cpp", extra=["-fsanitize=integer-divide-by-zero"]),
        "nohook_avx2": Build("nohook_avx2", "harness/c19_bigint.cpp", hook=False, simd="avx2"),
        "plain": Build("plain", "harness/c19_bigint.cpp", san="plain", hook=False),
    },
    "default_build": "main",
    "plan": plan_c19,
    "exhaustive_enums": ["dw8"],
    "rule": ("(a) generated programs (1-100+ operations, two registers) on BigInt<W,bits> for W in {u8,u16,u32,u64} and widths 64..2048 (incl. 100 and 1000): "
             "constructors, assignment from every scalar width, copy/move, += -= |= &= with every scalar width, Add/Subtract at a word index, Multiply, "
             "Divide (+ remainder), shifts incl. 0 / word-1 / word / k*word / on zero, FindFirstBit/FindLastBit, all comparisons with a word, narrowing "
             "conversions, Clear; operands biased to 0, 1, all-ones, single bits, word boundaries, top-bit divisors; only operations whose exact result "
             "fits are generated; value, remainder, bit index and predicates compared with reference naturals after every step; "
             "(b) DoubleSize<u8>::Multiply (all 2^16 pairs) and ::Divide (all 8.36M triples with high < divisor) exhaustively; 16/32/64-bit helpers on "
             "boundary operands against unsigned __int128; (c) 16/32/64-bit Divide on 28 M (quick) / 5.4 G (thorough) cases built backwards from the answer "
             "(dividend = q * divisor + r, quotient digits at the boundaries where the schoolbook estimate needs its one or two corrections, remainder at "
             "either end of [0, divisor)); non-trivial = program with >= 3 operations and a multi-word value, every helper tuple; distinct by entropy"),
    "engine": "rapidcheck + complete enumeration",
    "technique": "model-based property testing (rapidcheck) against reference arbitrary-precision naturals, plus complete enumeration of the 8-bit double-word helper",
    "level_text": ("BigInt histories are compared after every operation with exact reference arithmetic written in the harness (self-checked against "
                   "unsigned __int128); ASan/UBSan bounds catch walks outside the word array, zero-value shifts are probed in a forked child. The 8-bit "
                   "double-word helper is enumerated completely. Sampling for histories, exhaustive for the 8-bit helper."),
    "level_note": "reference naturals in the harness are validated at start-up against unsigned __int128",
    "assumptions": ["bit scans are only generated for non-zero values (documented precondition of Platform::FindFirstBit/FindLastBit)"],
}


# ---------------------------------------------------------------------------------------------- C13
def plan_c13(tier, seed):
    if tier == "quick":
        return checks("main", 8, 6000) + shards("plain", "marker-hunt-10", 16)
    return checks("main", 13, 120000) + checks("nohook_avx2", 3, 80000) + shards("plain", "marker-hunt-1000", 16, timeout=7000)


SPECS["C13"] = {
    "builds": {
        "main": Build("main", "harness/c13_harray.cpp"),
        "nohook_avx2": Build("nohook_avx2", "harness/c13_harray.cpp", hook=False, simd="avx2"),
        "plain": Build("plain", "harness/c13_harray.cpp", san="plain", hook=False),
    },
    "default_build": "main",
    "plan": plan_c13,
    "rule": ("marker hunt: 160 M (quick) / 16 G (thorough) key stems of 14-24 symbols, each standing for the 256 keys that differ in the middle symbol (solved for, then confirmed by hashing the completed key), are searched for a live key whose hash equals the removed-slot marker 0 "
             "(any such key is put through insert / lookup / growth / copy / Compress against the model); generated: case = entropy bytes -> program of 1-80 operations over a pool of 2-3 tables of HArray<String,SizeT>, HArray<String,String>, HArray<String,Value> or "
             "HList<String>: all Insert / Get / [] overloads, lookups by key / index / hash, GetKey, GetItem, GetKeyIndex, Has, Remove (3) / RemoveIndex, Rename (2), "
             "+= copy and move, Reserve / Resize / Expect / Compress / Clear / Reset, Sort, copy/move construction and assignment; keys from small alphabets, "
             "the empty key, embedded NULs and brute-forced collision sets (equal low 8 / 4 / 3 hash bits, zero low bits, identical 32-bit hashes) plus random bytes; "
             "ordered-map model compared relationally after every step; non-trivial = a removal or rename followed by a growth/rehash and a later lookup; distinct by entropy"),
    "engine": "rapidcheck",
    "technique": "model-based (stateful) property testing with rapidcheck: operation programs with adversarial colliding keys compared with an insertion-ordered map model after every step",
    "level_text": ("Generated operation histories on the hash array / hash list are compared after every step with an ordered-map model through every reader; the oracle is "
                   "relational (independent of the growth policy). Sort is only generated when no live key is a proper prefix of another (that order is C15's subject). "
                   "Sampling over histories."),
    "level_note": "generator restrictions (documented in the harness header): no self-merge, Rename onto an existing key returns false, Resize below the live count only on tombstone-free tables",
    "assumptions": [],
}


# ---------------------------------------------------------------------------------------------- C04
def plan_c04(tier, seed):
    if tier == "quick":
        return checks("main", 8, 15000)
    return checks("main", 14, 300000) + checks("nohook_avx2", 2, 150000)


SPECS["C04"] = {
    "builds": {
        "main": Build("main", "harness/c04_expr.cpp"),
        "nohook_avx2": Build("nohook_avx2", "harness/c04_expr.cpp", hook=False, simd="avx2"),
    },
    "default_build": "main",
    "plan": plan_c04,
    "rule": ("case = entropy bytes -> expression tree (depth <= 4) over all 16 operators; leaves: unsigned and negative integers, decimals, exponent-form reals, "
             "variables bound to unsigned/signed/real numbers, numeric strings, true/false/null, text, empty string, object, missing; ==/!= with bare text operands; "
             "rendered with random spacing and redundant parentheses, parenthesised wherever the documentation leaves grouping open (different operators of one "
             "documented group adjacent, repeated ^ % comparisons, right-nested same operator); evaluated through ParseExpressions+Evaluate and through {math:} and "
             "{if case=}; cases whose exact result leaves 64 bits (and 0^0) are discarded; non-trivial = >= 2 operators from >= 2 precedence groups, or a variable "
             "operand with an operator; distinct by entropy"),
    "engine": "rapidcheck",
    "technique": "property-based testing (rapidcheck) with a reference evaluator over the generated expression tree (exact __int128 integers, doubles with a 4-ulp tolerance)",
    "level_text": ("Generated expressions are evaluated by the library and by an independent reference evaluator that implements ordinary arithmetic with the documented "
                   "precedence, unsigned->signed->real promotion, real division, truncating remainder, 1/0 comparisons and logic, and 'no value' for division/remainder "
                   "by zero, fractional powers and 0^-n; value and real/integer category must agree, and {math:}/{if} must print the value / echo the tag / pick the "
                   "branch accordingly. Sampling over an infinite expression space."),
    "level_note": "integer results are compared by value (Natural 2 and Integer 2 are the same number); reals within 4 ulp relative",
    "assumptions": ["unary minus binds to the literal (-3^2 = 9), as Tests/EvaluateTest.hpp pins"],
}


# ---------------------------------------------------------------------------------------------- C18
def plan_c18(tier, seed):
    if tier == "quick":
        return checks("main", 8, 8000)
    return checks("main", 14, 150000) + checks("nohook_avx2", 2, 100000)


SPECS["C18"] = {
    "builds": {
        "main": Build("main", "harness/c18_groupby.cpp"),
        "nohook_avx2": Build("nohook_avx2", "harness/c18_groupby.cpp", hook=False, simd="avx2"),
    },
    "default_build": "main",
    "plan": plan_c18,
    "rule": ("case = entropy bytes -> array of 0-12 objects built through the public API; each holds the group key at a random member position with a value from a small "
             "set of strings, unsigned/negative integers, reals, true/false/null (so groups repeat and 2.0 / 2 / \"1\" / 1 collide textually), a unique id member at a "
             "random position, 0-4 other members of any kind (scalars, nested array/object), and in a quarter of the objects 1-2 members that were inserted and "
             "removed again; grouped through Value::GroupBy and through <loop group=...> with a nested loop; non-trivial = at least 2 objects; distinct by entropy"),
    "engine": "rapidcheck",
    "technique": "property-based testing (rapidcheck) against a reference partition computed on the generator's description of the objects",
    "level_text": ("The canonical JSON text of GroupBy's result must equal the text of the reference partition (groups in order of first appearance, members in input "
                   "order, key removed, other members unchanged), the source must be unchanged, and a <loop group=...> must print the same partition. Sampling."),
    "level_note": "the reference spells group names like the library documents: strings as is, numbers as their text (reals %.15g), true/false/null",
    "assumptions": ["group key values are non-empty (an empty group name is an undocumented edge of loop-key printing)"],
}


# ---------------------------------------------------------------------------------------------- C03
def plan_c03(tier, seed):
    if tier == "quick":
        return checks("main", 5, 25000) + checks("escape_off", 2, 15000) + shards("main", "short7", 4)
    return checks("main", 10, 300000) + checks("escape_off", 3, 200000) + checks("nohook_avx2", 1, 200000) + shards("main", "short7", 2)


SPECS["C03"] = {
    "builds": {
        "main": Build("main", "harness/c03_escape.cpp"),
        "escape_off": Build("escape_off", "harness/c03_escape.cpp", defs=["QENTEM_AUTO_ESCAPE_HTML=0"]),
        "nohook_avx2": Build("nohook_avx2", "harness/c03_escape.cpp", hook=False, simd="avx2"),
    },
    "default_build": "main",
    "plan": plan_c03,
    "exhaustive_enums": ["short7"],
    "rule": ("case = (string, unit width char/char16_t/char32_t/wchar_t, printing position); strings from a weighted alphabet of & < > \" ' ; the entity letters, "
             "the five entities intact or with one unit deleted / replaced / duplicated / truncated, controls, non-ASCII units; positions: direct "
             "EscapeHTMLSpecialChars, {var:k}, {raw:k}, object-loop key printed through {var:v}, {svar:} phrase text with {var:}/{raw:} sub-tags, echoed source of an "
             "unresolved {var:...}/{raw:...} whose name contains specials; plus every string of length <= 7 over {& a m p ; l t} (960,800 strings, exhaustive); "
             "a second build with QENTEM_AUTO_ESCAPE_HTML=0; non-trivial = the string contains one of the five specials; distinct by case"),
    "engine": "rapidcheck + complete enumeration",
    "technique": "property-based testing (rapidcheck) with metamorphic oracles (safety predicate, decode-equivalence, idempotence, raw identity) plus complete enumeration of short entity look-alike strings",
    "level_text": ("For every generated string and printing position the emitted segment (cut out exactly, the surrounding text is known by construction) must contain none "
                   "of < > \" ', contain & only as the start of one of the five entities, decode to the same text as the input decodes to, and be a fixed point of the "
                   "escaper; {raw:} must be verbatim; with auto-escape compiled off {var:} must be verbatim. Exhaustive over the stated short-string universe, sampling beyond."),
    "level_note": "the reference decoder is a single left-to-right pass over the five entities, written in the harness",
    "assumptions": ["loop keys and names used in template positions contain no braces or NULs (they could not be written in a template)"],
}


# ---------------------------------------------------------------------------------------------- C01
def plan_c01(tier, seed):
    if tier == "quick":
        return (checks("main", 5, 8000) + checks("escape_off_scalar", 1, 5000)
                + fuzz("fuzz", 6, 300000, "corpus/C01", "dict/template.dict", max_len=256, max_time=50))
    return (checks("main", 5, 150000) + checks("escape_off_scalar", 1, 80000) + checks("nohook_avx2", 1, 80000)
            + fuzz("fuzz", 8, 8000000, "corpus/C01", "dict/template.dict", max_len=512, max_time=900)
            + fuzz("fuzz_nohook", 1, 4000000, "corpus/C01", "dict/template.dict", max_len=512, max_time=900))


SPECS["C01"] = {
    "builds": {
        "main": Build("main", "harness/c01_template.cpp", extra=["-fsanitize=integer-divide-by-zero"]),
        "escape_off_scalar": Build("escape_off_scalar", "harness/c01_template.cpp", simd="none", defs=["QENTEM_AUTO_ESCAPE_HTML=0"]),
        "nohook_avx2": Build("nohook_avx2", "harness/c01_template.cpp", hook=False, simd="avx2"),
        "fuzz": Build("fuzz", "harness/c01_template.cpp", san="fuzz", defs=["VERIF_FUZZ"], link_rc=False, extra=["-fsanitize=integer-divide-by-zero"]),
        "fuzz_nohook": Build("fuzz_nohook", "harness/c01_template.cpp", san="fuzz", defs=["VERIF_FUZZ"], link_rc=False, hook=False, simd="avx2"),
    },
    "default_build": "main",
    "bin_build": "fuzz",
    "plan": plan_c01,
    "rule": ("(a) libFuzzer: byte 0 = width (char/char16_t/char32_t/wchar_t) | one of 8 value trees (every scalar kind, zero and negative numbers, removed members, "
             "empty containers, nesting, a phrase with placeholders, objects with the group key at different positions) | cached-or-direct render; the rest are code "
             "units in an exact-size heap buffer; tag dictionary; documented templates as seed corpus on even workers, empty corpus on odd ones; "
             "(b) rapidcheck: templates from a text-level grammar of all documented tags over the palette's names, with 0-6 generated mutations (truncate, delete, "
             "duplicated slice, spliced tag fragment, swapped quote, dropped closer, inserted NUL / wide unit, replacement, cut after an opener). Inputs with more "
             "than 5 loop openers are counted and skipped (rendering cost is exponential in loop nesting by design). Oracle inside the target: ASan/UBSan, no "
             "exception, stream prefix untouched, value unchanged, cached render == direct render, allocation ledger empty. non-trivial = the scanner recognised at "
             "least one tag; distinct by input"),
    "engine": "libFuzzer + rapidcheck",
    "technique": "coverage-guided fuzzing (libFuzzer with a tag dictionary, ASan/UBSan, oracle in the target) plus grammar-based generation with mutations (rapidcheck)",
    "level_text": ("Arbitrary and mutated template texts are rendered against a palette of value trees in all character widths; memory safety, traps and exceptions are "
                   "observed by sanitizers on exact-size buffers with exact-fit container growth, termination by bounded work per input. Sampling over an infinite "
                   "input space; termination for all inputs cannot be decided by this technique."),
    "level_note": "trusts ASan/UBSan; inputs with more than 5 nested loop openers are outside the bounded-work domain (counted in the evidence as discarded)",
    "assumptions": ["templates up to 512 code units", "at most 5 <loop openers per input"],
}


# ---------------------------------------------------------------------------------------------- C02
def plan_c02(tier, seed):
    if tier == "quick":
        return checks("main", 6, 12000) + checks("scalar_nohook", 1, 8000) + checks("escape_off", 1, 8000)
    return checks("main", 9, 150000) + checks("scalar_nohook", 3, 100000) + checks("avx2", 3, 100000) + checks("escape_off", 1, 100000)


SPECS["C02"] = {
    "builds": {
        "main": Build("main", "harness/c02_template.cpp"),
        "scalar_nohook": Build("scalar_nohook", "harness/c02_template.cpp", simd="none", hook=False),
        "avx2": Build("avx2", "harness/c02_template.cpp", simd="avx2"),
        "escape_off": Build("escape_off", "harness/c02_template.cpp", defs=["QENTEM_AUTO_ESCAPE_HTML=0"]),
    },
    "default_build": "main",
    "plan": plan_c02,
    "rule": ("case = entropy bytes -> (value tree, template AST) generated together: text runs, {var:}/{raw:} with paths of keys and numeric ids (resolving, missing, "
             "wrong kind, container-valued), {math:} over literals and variables, {svar:} with 1-3 sub tags over phrases with valid / invalid / trailing placeholders, "
             "inline if (either attribute order, one attribute absent, both quote kinds, sub tags inside the values), if / else-if / else chains in all documented "
             "spellings, loops with any subset of set / value / sort / group over arrays and objects (also the root and outer loop values), nested to depth 5, "
             "loop-in-if; rendered in char/char16_t/char32_t/wchar_t and scalar/SSE2/AVX2 builds; non-trivial = at least 2 tags and at least one path that resolves; "
             "distinct by entropy and width"),
    "engine": "rapidcheck",
    "technique": "property-based testing (rapidcheck) against a reference interpreter of Documentation/Template.md that walks the generator's AST (never parses template text)",
    "level_text": ("The library's output must equal, byte for byte, the expansion computed by an independent reference interpreter written from the documentation over the "
                   "AST the template text was spelled from. The generator stays inside the documented grammar (numeric ids on arrays, unique loop value names, sort "
                   "only on distinct scalars of one kind, group only where every object holds the key, no sub-paths where the documentation is silent). Sampling."),
    "level_note": "trusts the reference interpreter (its semantics are listed in DESIGN.md section 4, C02) and glibc printf for the 2-digit SemiFixed text of reals",
    "assumptions": ["template and value text is ASCII (Unicode transport is covered by C06/C20)"],
}


# ---------------------------------------------------------------------------------------------- C17
def plan_c17(tier, seed):
    if tier == "quick":
        return checks("asan", 4, 2500) + checks("tsan", 4, 1500)
    return checks("asan", 8, 40000) + checks("tsan", 8, 25000)


SPECS["C17"] = {
    "builds": {
        "asan": Build("asan", "harness/c02_template.cpp", defs=["VERIF_C17"], extra=["-pthread"]),
        "tsan": Build("tsan", "harness/c02_template.cpp", san="tsan", defs=["VERIF_C17"], hook=False),
    },
    "default_build": "asan",
    "plan": plan_c17,
    "rule": ("case = the C02 generator's (value, template) pair (every tag kind incl. sort and group); per case: a fresh single render, then 3 renders through one parsed "
             "tag cache into streams that already hold content, a render through a copy of the cache, Template::Render with a caller-owned cache twice, and 4 threads "
             "x 8 renders through the shared const cache and shared value; all outputs must equal the fresh render (and the C02 reference), the value's JSON text and "
             "the template bytes must be unchanged; built with AddressSanitizer and, separately, ThreadSanitizer; non-trivial as C02; distinct by entropy and width"),
    "engine": "rapidcheck",
    "technique": "property-based testing (rapidcheck) with a metamorphic oracle (cached / repeated / copied-cache / concurrent renders == fresh render) under ThreadSanitizer and AddressSanitizer",
    "level_text": ("Purity is checked as a metamorphic relation over generated templates; data-race freedom rests on ThreadSanitizer's happens-before detection while 4 threads "
                   "render through the shared cache and value (the allocation ledger is switched off in that build so that its mutex adds no synchronisation). "
                   "Thread interleavings are sampled by the OS scheduler, not enumerated: all interleavings cannot be decided by this technique."),
    "level_note": "TSan flags unsynchronised conflicting accesses that are executed, largely independent of timing; schedules are not controlled",
    "assumptions": [],
}


# ---------------------------------------------------------------------------------------------- C16
def plan_c16(tier, seed):
    k = 1 if tier == "quick" else 25
    return (checks("main", 4, 3000 * k) + checks("value_history", 2, 1500 * k) + checks("harray_history", 2, 2500 * k)
            + checks("sequence_history", 2, 4000 * k) + checks("json_inputs", 2, 6000 * k) + checks("template_inputs", 2, 3000 * k)
            + checks("groupby_history", 1, 2500 * k))


SPECS["C16"] = {
    "builds": {
        "main": Build("main", "harness/c16_lifetimes.cpp"),
        "value_history": Build("value_history", "harness/c12_value.cpp"),
        "harray_history": Build("harray_history", "harness/c13_harray.cpp"),
        "sequence_history": Build("sequence_history", "harness/c14_sequences.cpp"),
        "json_inputs": Build("json_inputs", "harness/c05_jsonsafe.cpp"),
        "template_inputs": Build("template_inputs", "harness/c01_template.cpp"),
        # a grouping is a value of its own: it is read again after its source has been released
        "groupby_history": Build("groupby_history", "harness/c18_groupby.cpp"),
    },
    "default_build": "main",
    "plan": plan_c16,
    "rule": ("every case of every harness runs between a reset of the allocation ledger (hooked into Memory::Allocate / Memory::Deallocate through the library's own "
             "accounting seam) and a check that no block is live, none was added twice and none was released that was not live, under AddressSanitizer (use after "
             "free, double / invalid free) and LeakSanitizer at exit. Runs: (main) tag-cache lifetime machine - 1-3 generated or malformed templates, a pool of 4 caches, "
             "3-27 operations of parse / copy-assign / move-assign / copy-construct+render / move-construct / clear / reset / destroy / render, caches destroyed in a "
             "generated order, plus a rejected JSON text; and the operation histories of C12 (Value), C13 (hash array), C14 (Array/String/StringStream) and the inputs "
             "of C05 (mutated JSON, rejected texts) and C01 (mutated templates). non-trivial = the case contains a failure path (rejected parse, dropped unfinished "
             "tag) or an ownership transfer (main), or is non-trivial by the rule of its own harness; distinct by entropy"),
    "engine": "rapidcheck",
    "technique": "model-based / generated-history property testing (rapidcheck) with an allocation ledger invariant checked after every case, under AddressSanitizer and LeakSanitizer",
    "level_text": ("Exactly-once release is decided per generated history by an allocation ledger that sees every block the library allocates and frees, together with "
                   "ASan's use-after-free / double-free detection; the dedicated machine exercises parsed-tag-cache lifetimes, the other runs reuse the stateful "
                   "harnesses of C12-C14 and the malformed-input generators of C01/C05. Sampling over histories."),
    "level_note": "the ledger relies on every allocation going through Memory::Allocate/Deallocate (true for the whole library: it is STL-free)",
    "assumptions": [],
}


# ---------------------------------------------------------------------------------------------- coverage-guided mode
# The entropy decoders of these harnesses are also driven by libFuzzer (harness/common/pbt.hpp, PBT_MAIN / from_fuzz): same
# run(), same oracle, same allocation ledger; coverage feedback from the library steers the bytes. pid: (source, defines,
# (quick workers, seconds), (thorough workers, seconds), max_len)
GFUZZ = {
    "C02": ("harness/c02_template.cpp", [], (3, 20), (6, 600), 420),
    "C03": ("harness/c03_escape.cpp", [], (2, 15), (4, 300), 80),
    "C04": ("harness/c04_expr.cpp", [], (3, 15), (6, 600), 160),
    "C06": ("harness/c06_json.cpp", [], (3, 15), (6, 600), 300),
    "C07": ("harness/c06_json.cpp", ["VERIF_C07"], (3, 15), (6, 400), 300),
    "C08": ("harness/c08_stringify.cpp", [], (3, 15), (6, 600), 320),
    "C09": ("harness/c09_strtonum.cpp", [], (4, 15), (8, 900), 400),
    "C10": ("harness/c10_numtostr.cpp", [], (3, 15), (6, 900), 16),
    "C11": ("harness/c11_roundtrip.cpp", [], (3, 15), (6, 900), 16),
    "C12": ("harness/c12_value.cpp", [], (4, 20), (8, 900), 420),
    "C13": ("harness/c13_harray.cpp", [], (4, 20), (8, 900), 440),
    "C14": ("harness/c14_sequences.cpp", [], (4, 15), (8, 600), 320),
    "C15": ("harness/c15_order.cpp", [], (2, 15), (4, 400), 220),
    "C16": ("harness/c16_lifetimes.cpp", [], (2, 15), (4, 400), 320),
    "C18": ("harness/c18_groupby.cpp", [], (2, 15), (4, 400), 220),
    "C19": ("harness/c19_bigint.cpp", [], (3, 15), (6, 600), 320),
}


def _with_gfuzz(base, q, t, ml):
    def plan(tier, seed):
        w, secs = q if tier == "quick" else t
        return base(tier, seed) + fuzz("fuzzg", w, 2000000000, None, None, max_len=ml, max_time=secs)
    return plan


for _pid, (_src, _defs, _q, _t, _ml) in GFUZZ.items():
    _s = SPECS[_pid]
    _s["builds"]["fuzzg"] = Build("fuzzg", _src, san="fuzz", defs=["VERIF_FUZZ_GENERIC"] + _defs)
    _s["plan"] = _with_gfuzz(_s["plan"], _q, _t, _ml)
    _s["engine"] += " + libFuzzer (coverage-guided, same case decoder and oracle)"
    _s["technique"] += "; plus coverage-guided fuzzing (libFuzzer) of the same case decoder with the same oracle inside the target"
    _s["rule"] += ("; the coverage-guided runs decode libFuzzer's bytes with the same decoder (selector byte(s), then entropy) and count by the same rule")


# ---------------------------------------------------------------------------------------------- later additions to the case rules
RULE_ADDENDA = {
    "C11": " ; enumerated 'short-decimals': m x 10^k for k = -330..310 and m < 10,000 (m < 100,000 in the subnormal range and at the top), both signs",
    "C19": " ; a word operand equal to one of the object's own words is handed over as that word (by reference into its storage)",
    "C10": " ; every real with precision <= 2 (one in four otherwise; one in 32 inside the enumerations) is printed again into a stream that had held 420 '9's and 420 units of another digit and was cleared (stale storage behind the content)"
           " ; stream prefixes also end in '-', 'e', '.', a digit ('3-', '1e', '0.', '1.9'); enumerated 'big-ties': 16-23 digit integers ending in 5 and zeros (decimal ties from 2^53 up) and their neighbours one and two ulps away at the tie's precision, 2 M per shard in quick, 100 M in thorough",
    "C08": " ; one case in three (alias=2) has an Undefined value and a pointer to it among the pointer targets; enumerated: arrays of two strings of 0.7..16 Mi units (6 pairs of lengths x escape/none x 3 widths), text compared unit for unit and parsed back"
           " ; alias=2 replaces half of the table reals by short decimals from 1e17 up (2e22, 1.7e22, 1.2345678901234e17 ...)"
           " ; alias=2 draws object keys from equal-hash pairs (ti / t, pear / year, la / l, mb / m)",
    "C05": " ; enumerated through the all-or-nothing harness: texts nested 250..2000 levels (22 depths x 4 shapes) - every sampled proper prefix, trailing units and 14 malformed cores at the deepest level are rejected whole",
    "C01": "; two cases in three build the value with aimed extras (a member holding the template's own tail plus one unit, a storage-less string, a short string "
           "next to one that continues with NULs) and one template in twelve of those is an 'aimed comparison'; boundary classes: 250-261 <if> levels around "
           "loops with sort / group, attributes quoted by operator characters"
           " ; half of the cases (gen2=2) turn one template in eight into an 'expression soup': 2-5 operands drawn from 64-bit limits, variables of every kind, text and text that starts like a number (2x, 1 0, 1.5.2, 0x1g), between random operators, inside {math:}, an inline if, an <if> or a loop"
           " ; gen2=2 boundary classes: an unclosed {var: / {raw: inside true= / false= whose body is 256*m + k units long with the attribute's closing quote as its (k+1)-th unit; loop value / set / group names of 255 .. 513 units"
           " ; gen2=2 aimed templates also hold four loop sequences (sorted / grouped object loop, deeper loop, sibling loop over unprintable items) over an object of arrays, an array of arrays and records to group",
    "C02": "; one case in three writes phrases and text runs with look-alike units (bytes above 0x7F = U+0100|c in the 2- and 4-byte builds: '{', '}', '<', ':', "
           "digits as low bytes); one deep case in seven nests beyond 255 open tags; one build runs with QENTEM_AUTO_ESCAPE_HTML=0"
           " ; one case in four (alias=2) names the grouping member 'year' and gives objects a member 'pear' (same hash) in any slot, writes words that start like a tag (<iframe ...>, <loops>, <elsewhere>, <ifx>) as text runs and names loop values by the first letters of root members (n, s, i, p, f ... next to num, str, items)"
           " ; alias=2 also draws sets of signed integers of both signs (sorted both ways); cases whose reference arithmetic leaves 64 bits are discarded",
    "C03": "; the parsed form reaches the renderer directly, through a caller-owned tag cache, through a copy-constructed cache or through a cache copy-assigned over "
           "another template's tags (chosen by the template text)"
           " ; an unresolved {var:NAME} and a loop key are also printed as the sub tag of a {svar:} (phrase ({0}) / {0})"
           " ; in the 2- and 4-byte builds the {svar:} phrase ends with braces around units whose low byte is a digit (U+0130, U+4E31, U+1F630)"
           " ; an unresolved subscript of an array loop's value ({var:v[NAME]}) is echoed, escaped",
    "C04": "; one case in forty nests parentheses 254..1000 deep (left-nested, right-nested, redundant pairs, alternating)"
           " ; two cases in three (gen2=1) also draw decimals a hair away from a whole number (3.0000000000001, 1.9999999999999, 3.0000000000000004 ...) as literals and exponents",
    "C06": "; enumerated: strings of 255 .. 1,048,577 units with an escape at the start / middle / end / nowhere, as array element, member value and member key, "
           "3 widths (468 documents), decoded content compared unit for unit; one case in three draws strings with look-alike code points (U+0100|c: one UTF-16/32 unit whose low byte is a quote, backslash, bracket, control ...) and "
           "numerals thousands of characters long whose exponent compensates their own zeros, or 17-digit spellings of doubles from the least-slack binades"
           " ; half of the cases parse a rejected text (8 shapes with a broken string after an escape) with one caller-owned scratch stream first, then the document twice with the same stream"
           " ; one case in three (alias=2) draws member names from equal-hash pairs (ti / t, pear / year, la / l, mb / m)",
    "C07": "; one case in three draws look-alike code points and unpaired low-surrogate escapes (legal by the grammar) into the strings"
           " ; per document: one of its strings as the whole text and every proper prefix of it; up to three \\u escapes with one digit replaced by a non-hex unit, and cut short after 0-3 digits followed by the string's end, filler and the rest of the text again; six times the first half of a surrogate pair in front of a closing quote followed by text that makes the whole invalid without the escape (reference parser decides); enumerated: texts nested 250..2000 levels (see C05)"
           " ; (alias=2: member names from equal-hash pairs)",
    "C09": "; near-tie class (midpoints between adjacent doubles cut to 17-21 digits, just below and just above), numerals whose exponent compensates their length "
           "(up to 100,000 zeros), terminators that are non-ASCII units with an ASCII low byte in the 2- and 4-byte runs",
    "C12": "; the marker hunt of C13 (member names whose hash equals the removed-slot marker) runs here as well, since an object is a hash array; two cases in three also merge sized-but-empty temporaries (+= / Merge, copy / move) and assign a container from one of its own descendants (copy / move)"
           " ; half of the cases (gen2=2) also build reserved arrays (room 3..11) whose elements - some of them arrays that lose an element - are written into the room and are then mostly compressed, and append one of an object's own members to the object (copy and move); the quick tier also runs a build without the growth hook",
    "C13": "; two cases in three let Insert(key, const Value &) take its value from an entry of the same table"
           " ; half of the cases (gen2=2) add to the full-hash theme a stem of 64 / 96 / 128 units and its one-unit variants at the outer positions whose hash is confirmed equal"
           " ; gen2=2 adds t / ti, l / la, m / mb, year / pear to the small-key theme",
    "C14": "; two cases in three append copies of own elements (a += a[i], Insert(a[i])) and compare long near-equal operands (16-75 units, one differing unit anywhere) "
           "and views sharing their start, with the ordering operators against a lexicographic model"
           " ; twice per case (1 in 8 of the gen2 cases) a StringStream gets a range from a buffer mapped k*2^32 units (+ less than its length) away from its own block while it has to grow, and a String is assigned / appended from its own tail as a C string; the quick tier also runs a sanitizer-free build"
           " ; gen2=2 draws, in the 2- and 4-byte strings, units whose low byte is a whitespace code (U+4E0A, U+2020 ...; above the BMP too)",
    "C15": "; every string pair is also compared widened to 2- and 4-byte units, stretched to 16-80 units by a common prefix / suffix, and (when one is a prefix of the "
           "other) as views of one buffer"
           " ; enumerated 'big-sorts': 1025..5000 items in six shapes (random, sorted, reversed, equal, few distinct, organ pipe) in Array<unsigned>, a Value array and the keys of a hash array, both directions, and 20000 sorted / reversed / equal items on a thread with a 512 KiB stack"
           " ; the value universe ends with -0.0, the smallest subnormals of both signs, 2^63 as a double and a pointer to -0.0"
           " ; and with objects / arrays that hold a removed member (and a pointer to one)",
    "C16": "; two cases in three may start with a nest of 9-13 loops over a two-element array"
           " ; the group-by harness (C18) runs here too: the grouping is read again after its source has been overwritten and released",
    "C17": "; one case in three holds containers behind pointer values, one in three gives the root object 24 more members (tables above 16 items); for those only purity "
           "is decided, not the expansion; the value text is taken before the first render"
           " ; one renderer object and one cache render a copy of the value three times while its members are taken out and put back in reverse order / replaced in between; Template::Render with a shared, already used tag cache runs on 3 threads for the template and for the template behind an unclosed <loop> (parses to nothing)",
    "C18": "; one case in three takes numeric group values from the table of numbers that share a 64-bit pattern across kinds; the destination of GroupBy is pre-filled in "
           "seven ways (fresh, earlier groupings, array, string, number, object)"
           " ; one case in four (twins=2) names the grouping member 'year' and the others 'pear', 'dear', 'fear' and a name whose hash is the forced top bit only, and uses two such names as group values; the grouping is read again (also through a copy) after its source was overwritten and released"
           " ; twins=3: the grouping member is 't' and a sibling is 'ti' (the key plus one unit, same hash)",
    "C20": "; one generated case in eighty and a thin slice of the enumeration put 4,000-66,000 units in front of the escape"
           " ; one generated case in five and one enumerated scalar in thirteen put the escape into a run of 2-9 adjacent escapes (D000-D7FF next to surrogate pairs, astral, E000.., ASCII)"
           " ; one generated case in ten and one enumerated scalar in 101 map the document a multiple of 2^32 units (minus a few) away from the caller's scratch stream, which has to grow for the run behind the escape (plain build: the address is free there)"
           " ; six scalars are also decoded at the end of a 5 M unit string that follows a 0.3 M unit string with an escape (3 widths)",
}
for _pid, _t in RULE_ADDENDA.items():
    SPECS[_pid]["rule"] += _t
