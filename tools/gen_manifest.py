#!/usr/bin/env python3
"""Regenerates MANIFEST.json from vlib/props.py (claimed checks) and properties.jsonl (everything else goes to
not_applicable with the reason recorded in NOT_YET)."""
import json, os, sys
ROOT = os.path.dirname(os.path.dirname(os.path.abspath(__file__)))
sys.path.insert(0, ROOT)
from vlib import props

ids = [json.loads(l)["id"] for l in open(os.path.join(ROOT, "properties.jsonl"))]
hook_commits = [l.strip() for l in open(os.path.join(ROOT, "hooks.txt")) if l.strip() and not l.startswith("#")] \
    if os.path.exists(os.path.join(ROOT, "hooks.txt")) else []
checks = []
na = []
for pid in ids:
    s = props.SPECS.get(pid)
    if s is None:
        na.append({"property_id": pid, "reason": props.NOT_YET.get(pid, "check not built yet (work in progress); the technique applies, see DESIGN.md")})
        continue
    checks.append({
        "property_id": pid,
        "quick_cmd": "./check %s quick" % pid,
        "thorough_cmd": "./check %s thorough" % pid,
        "evidence_file": "/verif/evidence/%s.json" % pid,
        "replay_cmd_template": "./check %s --replay {path}" % pid,
        "engine": s.get("engine", "rapidcheck"),
        "level_claimed": {"category": "exploration", "text": s["level_text"], "design_ref": "DESIGN.md section 4, " + pid},
        "level_note": s["level_note"],
        "technique": s["technique"],
    })
m = {
    "version": 1,
    "setup_cmd": "python3 tools/setup_check.py",
    "hooks": {
        "guard": "HANIAMMAR_QENTEM_ENGINE_VERIF",
        "enable": "harness builds pass -DHANIAMMAR_QENTEM_ENGINE_VERIF=1 (vlib/driver.py Build.flags); header-only library, so every check "
                  "compiles its harness against /repo/Include of the current working tree",
        "baseline_off_cmd": "sh /verif/tools/baseline.sh /repo",
        "source_commits": hook_commits,
        "add_only": True,
    },
    "engines": [
        {"name": "rapidcheck", "path": "/usr/include/rapidcheck.h", "serves_properties": [c["property_id"] for c in checks],
         "kind_free_text": "property-based testing library (generators with shrinking); harness frame in harness/common/pbt.hpp"},
        {"name": "libFuzzer", "path": "clang++ -fsanitize=fuzzer", "serves_properties": [c["property_id"] for c in checks if "libFuzzer" in c["engine"]],
         "kind_free_text": "coverage-guided in-process fuzzing under ASan/UBSan with the oracle inside the target"},
    ],
    "checks": checks,
    "notes": "Driver: ./check <ID> quick|thorough|--replay <file>. Known findings / repaired defects: known_findings.txt. "
             "Seeded property-breaking changes used to test sensitivity: seeded/. Design and kill matrix: DESIGN.md.",
    "not_applicable": na,
}
json.dump(m, open(os.path.join(ROOT, "MANIFEST.json"), "w"), indent=1)
print("claimed:", [c["property_id"] for c in checks])
print("not_applicable:", [n["property_id"] for n in na])
