#!/bin/bash
# usage: tools/coverage.sh [cases]  -- development aid, not a check: builds every harness once with clang source-based coverage
# (no sanitizer), runs a short rapidcheck / enumeration pass of each, merges the profiles and prints per-file line coverage of
# /repo/Include plus the library functions that were never executed. Scratch output under .build/cov (removed at the start).
cd "$(dirname "$0")/.."
N=${1:-3000}
OUT=.build/cov; rm -rf $OUT; mkdir -p $OUT
python3 - "$N" <<'PY'
import sys,subprocess,os
sys.path.insert(0,'/verif')
from vlib import props
from concurrent.futures import ThreadPoolExecutor
N=sys.argv[1]
jobs=[]
for pid,spec in sorted(props.SPECS.items()):
    seen=set()
    for r in spec["plan"]("quick",1):
        if r.mode=="fuzz": continue
        key=(r.build, r.mode, tuple(r.enum[:1]) if r.enum else ())
        if key in seen: continue
        seen.add(key)
        jobs.append((pid,spec["builds"][r.build],r))
built={}
def build(pid,bd):
    out=".build/cov/%s-%s"%(pid,bd.name)
    if out in built: return out,built[out]
    flags=[f for f in bd.flags() if not f.startswith("-fsanitize") and not f.startswith("-fno-sanitize")]
    cmd=["clang++"]+flags+["-O0","-fprofile-instr-generate","-fcoverage-mapping",os.path.join("/verif",bd.src),"-o",out]+(["-lrapidcheck"] if bd.link_rc else [])
    r=subprocess.run(cmd,stdout=subprocess.PIPE,stderr=subprocess.STDOUT,text=True)
    built[out]=(r.returncode==0)
    return out,built[out]
for pid,bd,_ in jobs: build(pid,bd)
def run(j):
    pid,bd,r=j
    out,ok=build(pid,bd)
    if not ok: return pid,bd.name,"build failed"
    tag="%s.%s-%s"%(out,r.mode,(r.enum[0] if r.enum else "x"))
    env=dict(os.environ,LLVM_PROFILE_FILE=tag+".profraw",RC_PARAMS="seed=1 max_success=%s"%N)
    cmd=[out,"--out",tag+".json","--known","pow-neg-base-neg-exp"]+(["--check"] if r.mode=="check" else ["--enum",str(r.enum[0]),"0",str(max(int(r.enum[2]),64))])
    try:
        p=subprocess.run(cmd,stdout=subprocess.PIPE,stderr=subprocess.STDOUT,text=True,env=env,timeout=3000)
        return pid,bd.name,r.mode+(":"+str(r.enum[0]) if r.enum else ""),"ok" if p.returncode==0 else "rc=%d %s"%(p.returncode,p.stdout[-200:])
    except subprocess.TimeoutExpired:
        return pid,bd.name,"timeout"
with ThreadPoolExecutor(12) as ex:
    for res in ex.map(run,jobs): print(*res)
PY
llvm-profdata-14 merge -o $OUT/all.profdata $OUT/*.profraw
first=""; objs=""; for f in $OUT/C??-*; do case $f in *.*) continue;; esac; if [ -z "$first" ]; then first=$f; else objs="$objs -object $f"; fi; done
llvm-cov-14 report $first $objs -instr-profile=$OUT/all.profdata 2>/dev/null | grep -E 'Include/|TOTAL' | awk '{printf "%-30s lines %6s missed %6s %8s   branches %6s missed %6s %8s\n", $1,$8,$9,$10,$11,$12,$13}'
echo "$first $objs" > $OUT/objects.txt
