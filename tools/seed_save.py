#!/usr/bin/env python3
"""Save an agent's seeded change under /verif/seeded/<ID>-<round>: tools/seed_save.py CNN round "needs" "caught_by" [before]"""
import json, os, shutil, sys
pid, rnd, needs, caught = sys.argv[1:5]
before = sys.argv[5] if len(sys.argv) > 5 else ""
src = "/tmp/wt/%s-out%s" % (pid, rnd)
dst = "/verif/seeded/%s-%s" % (pid, rnd)
os.makedirs(dst, exist_ok=True)
for f in os.listdir(src):
    if f in ("patch.diff", "demo.cpp", "notes.md") or f.startswith("existing_"):
        shutil.copy(os.path.join(src, f), dst)
notes = open(os.path.join(src, "notes.md")).read()
meta = {"property": pid, "round": int(rnd), "breaks": notes[:600], "needs_to_manifest": needs,
        "what_was_run": "tools/seed_confirm.sh %s %s; tools/seed_eval.py <patch> %s (quick tier, seed 1) with the checks as they stood when the change arrived, and again after each strengthening" % (pid, rnd, pid),
        "result_before_strengthening": before, "caught_by": caught,
        "confirmed": "demo PASS on the clean worktree, patch applies, repository suite 15/15 green with the patch, demo FAILS with the patch",
        "author": "independent sub-agent given only the property text, the notes of the earlier changes and a scratch worktree; also asked for defects of the unmodified library (existing_N.cpp)"}
json.dump(meta, open(os.path.join(dst, "meta.json"), "w"), indent=1)
print("saved", dst)
