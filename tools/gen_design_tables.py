#!/usr/bin/env python3
"""Regenerates the machine-written tables of DESIGN.md (between the BEGIN/END GENERATED markers) from
known_findings.txt and seeded/*/meta.json."""
import glob, json, os, re
ROOT = os.path.dirname(os.path.dirname(os.path.abspath(__file__)))
kf = open(os.path.join(ROOT, "known_findings.txt")).read().splitlines()
fixed = [l for l in kf if l.startswith("fixed:")]
finds = [l for l in kf if l.startswith("finding:")]
out = []
out.append("### 8.1 Repaired defects (one unguarded `fix:` commit each in /repo; the replay is a committed regression case)\n")
out.append("| property | commit | replay | what failed |\n|---|---|---|---|")
for l in sorted(fixed, key=lambda x: re.search(r"property=(\S+)", x).group(1)):
    kv = dict(re.findall(r"(\w+)=(\S+)", l.split("--")[0]))
    out.append("| %s | `%s` | `%s` | %s |" % (kv["property"], kv["commit"], kv["replay"], l.split("--", 1)[1].strip().replace("|", "\\|")))
out.append("\n%d repaired defects in total.\n" % len(fixed))
out.append("### 8.2 Known findings (genuine defects recorded, not repaired)\n")
out.append("| property | id | class | replay | what fails and why it is not repaired |\n|---|---|---|---|---|")
for l in finds:
    kv = dict(re.findall(r"(\w+)=(\S+)", l.split("--")[0]))
    out.append("| %s | %s | `%s` | `%s` | %s |" % (kv["property"], kv.get("id", ""), kv["class"], kv["replay"], l.split("--", 1)[1].strip().replace("|", "\\|")))
out.append("")
out.append("### 8.3 Seeded property-breaking changes (written by independent sub-agents) and which check catches them\n")
out.append("| seeded change | needs to manifest | result |\n|---|---|---|")
for m in sorted(glob.glob(os.path.join(ROOT, "seeded", "*", "meta.json"))):
    j = json.load(open(m))
    out.append("| `seeded/%s/patch.diff` | %s | %s |" % (os.path.basename(os.path.dirname(m)), j["needs_to_manifest"].replace("|", "\\|"), j["caught_by"].replace("|", "\\|")))
out.append("")
p = os.path.join(ROOT, "DESIGN.md")
s = open(p).read()
b, e = "<!-- BEGIN GENERATED TABLES -->", "<!-- END GENERATED TABLES -->"
assert b in s and e in s
s = s[:s.index(b) + len(b)] + "\n" + "\n".join(out) + "\n" + s[s.index(e):]
open(p, "w").write(s)
print("tables regenerated:", len(fixed), "fixed,", len(finds), "findings")
