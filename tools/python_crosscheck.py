#!/usr/bin/env python3
"""Second opinion on the JSON generators: every `doc` sample in evidence/C06.json (a generated RFC 8259 document, code
points spelled with %XX / %{HEX}) must be accepted by python3's json module. A rejection means the *generator* is wrong
(a harness bug), never a finding about the library. usage: tools/python_crosscheck.py [evidence/C06.json]"""
import json, re, sys

def dec(s):
    out = []
    i = 0
    while i < len(s):
        if s[i] != '%':
            out.append(s[i]); i += 1
        elif s[i + 1] == '{':
            e = s.index('}', i); out.append(chr(int(s[i + 2:e], 16))); i = e + 1
        else:
            out.append(chr(int(s[i + 1:i + 3], 16))); i += 3
    return ''.join(out)

path = sys.argv[1] if len(sys.argv) > 1 else '/verif/evidence/C06.json'
ev = json.load(open(path))
n = bad = 0
for smp in ev['coverage']['samples']:
    if isinstance(smp, dict) and 'doc' in smp:
        n += 1
        try:
            json.loads(dec(smp['doc']))
        except Exception as ex:
            bad += 1
            print('python rejects generated document:', smp['doc'][:200], ex)
print('%d sample documents checked with python json, %d rejected' % (n, bad))
sys.exit(1 if bad else 0)
