#!/bin/sh
# Builds the repository's own test suite (guard OFF) in a scratch directory outside /repo and /verif, runs ctest,
# removes the scratch directory. Usage: tools/baseline.sh [repo-dir]
REPO="${1:-/repo}"
B="$(mktemp -d /tmp/qentem-baseline.XXXXXX)"
trap 'rm -rf "$B"' EXIT
cmake -G Ninja -S "$REPO" -B "$B" >"$B/cmake.log" 2>&1 || { cat "$B/cmake.log"; exit 2; }
cmake --build "$B" -j16 >"$B/build.log" 2>&1 || { tail -50 "$B/build.log"; exit 2; }
ctest --test-dir "$B" -j8 --timeout 900 2>&1 | tail -25
ctest --test-dir "$B" -j8 --timeout 900 >/dev/null 2>&1
