#!/usr/bin/env python3
"""setup_cmd: verifies offline that the toolchain the checks need is present (nothing is downloaded or installed);
the harnesses themselves are compiled by each check from /repo's current tree."""
import os, shutil, subprocess, sys, tempfile
ok = True
for tool in ("clang++", "python3"):
    if shutil.which(tool) is None:
        print("missing", tool); ok = False
if not os.path.exists("/usr/include/rapidcheck.h"):
    print("missing rapidcheck"); ok = False
d = tempfile.mkdtemp(prefix="verif-setup.")
try:
    src = os.path.join(d, "t.cpp")
    open(src, "w").write("#include <rapidcheck.h>\nint main(){return rc::check([](int a){RC_ASSERT(a==a);})?0:1;}\n")
    r = subprocess.run(["clang++", "-std=gnu++17", "-fsanitize=address", src, "-o", os.path.join(d, "t"), "-lrapidcheck"],
                       stdout=subprocess.PIPE, stderr=subprocess.STDOUT, text=True)
    if r.returncode != 0:
        print(r.stdout); ok = False
finally:
    shutil.rmtree(d, ignore_errors=True)
os.makedirs(os.path.join(os.path.dirname(os.path.dirname(os.path.abspath(__file__))), "evidence"), exist_ok=True)
print("setup ok" if ok else "setup FAILED")
sys.exit(0 if ok else 1)
