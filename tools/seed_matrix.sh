#!/bin/bash
# usage: tools/seed_matrix.sh [out-file]  -- runs the check of its property (quick tier, seed 1) against every seeded change under
# seeded/ in a scratch worktree (tools/seed_eval.py) and writes one line per change. A patch that no longer applies (the line it
# edits was rewritten by a repair) is reported as such; a ported variant (patch-ported.diff) is used when present.
cd "$(dirname "$0")/.."
out=${1:-seeded/RESULTS.txt}
: > "$out"
for d in seeded/C*/; do
  name=$(basename "$d"); pid=${name%%-*}
  patch="$d/patch.diff"; [ -f "$d/patch-ported.diff" ] && patch="$d/patch-ported.diff"
  res=$(python3 tools/seed_eval.py "$patch" "$pid" 2>&1)
  line=$(echo "$res" | grep -E "KILLED|survived|DOES NOT APPLY" | head -1)
  cls=$(echo "$res" | grep -E "violation class" | head -1 | sed 's/^ *//')
  suite=$(echo "$res" | grep -E "^suite with the change" | head -1)
  echo "$name ($(basename $patch)): ${line:-no result} | ${suite} | ${cls}" | cut -c1-400 >> "$out"
done
cat "$out"
