#!/usr/bin/env python3
"""Evaluate a seeded property-breaking change against the checks.

usage: tools/seed_eval.py <patch.diff> <check-id>[,<check-id>...] [--tier quick|thorough] [--seeds 1,2,3]

Creates a scratch git worktree of /repo under /tmp (never touches /repo's working tree), applies the patch, runs the
repository's own suite there (the change must keep it green), then runs the named checks with VERIF_REPO pointing at
the scratch tree, prints killed/survived per (check, seed), and removes the worktree. The evidence files these runs
write are scratch results and are restored from git afterwards.
"""
import json, os, shutil, subprocess, sys, tempfile, time

ROOT = os.path.dirname(os.path.dirname(os.path.abspath(__file__)))


def sh(cmd, **kw):
    return subprocess.run(cmd, stdout=subprocess.PIPE, stderr=subprocess.STDOUT, text=True, **kw)


def main():
    patch = os.path.abspath(sys.argv[1])
    ids = sys.argv[2].split(",")
    tier = "quick"
    seeds = ["1"]
    if "--tier" in sys.argv:
        tier = sys.argv[sys.argv.index("--tier") + 1]
    if "--seeds" in sys.argv:
        seeds = sys.argv[sys.argv.index("--seeds") + 1].split(",")
    wt = tempfile.mkdtemp(prefix="qentem-seed.")
    os.rmdir(wt)
    res = {"patch": patch, "checks": {}, "suite_green": None}
    try:
        r = sh(["git", "-C", "/repo", "worktree", "add", "-f", "--detach", wt, "HEAD"])
        if r.returncode != 0:
            print(r.stdout)
            return 2
        r = sh(["git", "-C", wt, "apply", patch])
        if r.returncode != 0:
            print("PATCH DOES NOT APPLY\n" + r.stdout)
            return 2
        r = sh(["sh", os.path.join(ROOT, "tools", "baseline.sh"), wt])
        res["suite_green"] = "100% tests passed" in r.stdout
        print("suite with the change:", "green" if res["suite_green"] else "NOT GREEN")
        if not res["suite_green"]:
            print(r.stdout[-1500:])
        for cid in ids:
            for seed in seeds:
                env = dict(os.environ, VERIF_REPO=wt, VERIF_SEED=seed)
                t0 = time.time()
                r = sh([os.path.join(ROOT, "check"), cid, tier], env=env, cwd=ROOT)
                killed = (r.returncode == 1 and "VIOLATION property=" in r.stdout)
                lines = [l for l in r.stdout.splitlines() if l.startswith("violation class=") or l.startswith("VIOLATION") or "BUILD FAILED" in l]
                res["checks"]["%s/seed%s" % (cid, seed)] = {"killed": killed, "exit": r.returncode, "wall_s": round(time.time() - t0, 1), "lines": lines[:6]}
                print("%s %s seed=%s: %s (exit %d, %.0fs)" % (cid, tier, seed, "KILLED" if killed else "survived", r.returncode, time.time() - t0))
                for l in lines[:4]:
                    print("   ", l[:300])
    finally:
        sh(["git", "-C", "/repo", "worktree", "remove", "--force", wt])
        shutil.rmtree(wt, ignore_errors=True)
        # (runs with VERIF_REPO pointing at a scratch tree write their evidence under .build/evidence-scratch/)
    print(json.dumps(res))
    return 0


if __name__ == "__main__":
    sys.exit(main())
