#!/bin/bash
# usage: tools/seed_confirm.sh CNN [2]  -- confirms an agent's deliverable in its own scratch worktree /tmp/wt/CNN:
#   demo passes on the clean tree, the patch applies, the suite stays green with it, the demo fails with it. Reverts afterwards.
ID=$1; W=/tmp/wt/$ID; O=/tmp/wt/$ID-out$2
git -C $W checkout -q -- . ; git -C $W clean -fdq
cmd=$(head -1 $O/demo.cpp | sed 's|^// *||; s|^/\* *||; s| *\*/$||; s|^[Bb]uild[^:]*: *||; s|^[Bb]uild+run: *||')
echo "cmd: $cmd"
( cd $O && timeout 300 bash -c "$cmd" ) > $O/clean.log 2>&1; c1=$?
git -C $W apply $O/patch.diff || { echo "PATCH FAILS TO APPLY"; exit 2; }
suite=$(sh /verif/tools/baseline.sh $W | grep -c "100% tests passed")
( cd $O && timeout 300 bash -c "$cmd" ) > $O/patched.log 2>&1; c2=$?
git -C $W checkout -q -- . ; git -C $W clean -fdq
echo "$ID: demo clean exit=$c1 ($(tail -1 $O/clean.log | cut -c1-60)) | suite green with patch=$suite | demo patched exit=$c2 ($(grep -E 'FAIL|ERROR|SUMMARY' $O/patched.log | head -1 | cut -c1-80))"
