// C14 — Array, String, StringStream and StringView behave as plain sequences; Memory::Copy / SetToZero equal
// memcpy / memset for every length and alignment in the SIMD configuration of the build.
// Oracle: std::vector / unit-vector models compared after every step; allocation ledger; ASan with exact-fit growth.
#include "common/pbt.hpp"
#include <sys/mman.h>
#include "common/jmodel.hpp"

#include <algorithm>

using namespace Qentem;

namespace {

struct Case {
    int                  target{0}; // 0 Array<int>, 1 Array<String<char>>, 2 String, 3 StringStream, 4 StringView
    int                  width{1};  // for the string-like targets
    std::vector<uint8_t> bytes;
    int                  gen2{0};   // 1: copy-appends may take their argument from the array itself (absent in older files: 0)
};
static thread_local bool g_gen2 = false;
static thread_local int  g_gen2_level = 0; // 2: wide text also draws units whose low byte is a whitespace code (U+4E0A, U+2020, U+010D ...)

using jm::Entropy;
using jm::Units;

struct Trace {
    std::string ops;
    bool        grew_nonempty{false};
    void        add(const std::string &s) {
        if (ops.size() < 4000) {
            ops += s;
            ops += ';';
        }
    }
};

// ------------------------------------------------------------------------------------------------ Array<T>
template <typename T>
struct Elem;
template <>
struct Elem<int> {
    static int  make(Entropy &e) { return int(e.below(1000)) - 500; }
    static bool eq(const int &a, const int &b) { return a == b; }
    static int  zero() { return 0; }
};
template <>
struct Elem<String<char>> {
    static String<char> make(Entropy &e) {
        std::string s;
        unsigned    n = e.below(5);
        for (unsigned i = 0; i < n; ++i) {
            s.push_back(char('a' + e.below(26)));
        }
        return String<char>{s.c_str(), SizeT(s.size())};
    }
    static bool         eq(const String<char> &a, const String<char> &b) { return a == b; }
    static String<char> zero() { return String<char>{}; }
};

template <typename T>
void check_array(const Array<T> &a, const std::vector<T> &m, const char *after, pbt::Ctx &ctx) {
    auto bad = [&](const std::string &why) { ctx.fail("array-model-mismatch", std::string("after ") + after + ": " + why); };
    if (a.Size() != m.size()) {
        bad("Size() " + std::to_string(a.Size()) + " model " + std::to_string(m.size()));
    }
    if (a.Capacity() < a.Size()) {
        bad("Capacity() < Size()");
    }
    if (a.IsEmpty() != m.empty() || a.IsNotEmpty() == m.empty()) {
        bad("IsEmpty");
    }
    if (!m.empty()) {
        if (a.First() == nullptr || a.Last() != a.First() + (m.size() - 1) || a.End() != a.First() + m.size()) {
            bad("First/Last/End");
        }
    } else if (a.Last() != nullptr) {
        bad("Last() of an empty array");
    }
    size_t i = 0;
    for (const T &x : a) {
        if (i >= m.size() || !Elem<T>::eq(x, m[i])) {
            bad("element " + std::to_string(i) + " differs");
        }
        ++i;
    }
    if (i != m.size()) {
        bad("iteration length");
    }
}

template <typename T>
void run_array(const Case &c, pbt::Ctx &ctx, Trace &tr) {
    Entropy        e(c.bytes);
    struct World {
        Array<T> pool[2];
    };
    pbt::Leaky<World> world;
    Array<T>         *pool = world->pool;
    std::vector<T>    model[2];
    unsigned          nops = 1 + e.below(50);
    for (unsigned step = 0; step < nops; ++step) {
        unsigned        w = e.below(2);
        Array<T>       &a = pool[w];
        std::vector<T> &m = model[w];
        Array<T>       &b = pool[1 - w];
        std::vector<T> &mb = model[1 - w];
        const SizeT     cap_before = a.Capacity();
        const bool      nonempty_before = !m.empty();
        const char     *name = "";
        switch (e.below(26)) {
            case 0:
            case 1: {
                name = "+= item (move)";
                T x  = Elem<T>::make(e);
                m.push_back(x);
                a += Memory::Move(x);
                break;
            }
            case 2: {
                name = "+= item (copy)";
                T x  = Elem<T>::make(e);
                if (g_gen2 && !m.empty() && (step % 3) == 1) {
                    // the argument is an element of the array itself (a += a[i], what push_back(v[i]) is for a std::vector): the
                    // array may have to grow while it still has to read that element
                    name             = "+= item (copy of an own element)";
                    const size_t idx = m.size() / 2;
                    m.push_back(T(m[idx]));
                    a += a.Storage()[idx];
                    break;
                }
                m.push_back(x);
                a += x;
                break;
            }
            case 3: {
                name  = "Insert(item) returns the new element";
                T  x  = Elem<T>::make(e);
                T  y  = x;
                const bool by_move = e.chance(50);
                if (g_gen2 && !by_move && !m.empty() && (step % 2) == 1) {
                    name             = "Insert(own element)";
                    const size_t idx = (m.size() - 1) / 2;
                    y                = m[idx];
                    T &r2            = a.Insert(a.Storage()[idx]);
                    m.push_back(y);
                    if (&r2 != a.Last() || !Elem<T>::eq(r2, y)) {
                        ctx.fail("array-insert-reference", "Insert(own element) did not return the appended element");
                    }
                    break;
                }
                T &r  = by_move ? a.Insert(Memory::Move(x)) : a.Insert(y);
                m.push_back(y);
                if (&r != a.Last() || !Elem<T>::eq(r, y)) {
                    ctx.fail("array-insert-reference", "Insert() did not return the appended element");
                }
                break;
            }
            case 4: {
                name = "+= Array&& (fresh array)";
                Array<T> src;
                unsigned k = e.below(5);
                for (unsigned i = 0; i < k; ++i) {
                    T x = Elem<T>::make(e);
                    m.push_back(x);
                    src += Memory::Move(x);
                }
                if (e.chance(50)) {
                    a += Memory::Move(src);
                } else {
                    a.Insert(Memory::Move(src));
                }
                if (src.Size() != 0 || src.Storage() != nullptr) {
                    ctx.fail("array-moved-from-not-empty", "source of += Array&& is not empty afterwards");
                }
                break;
            }
            case 5: {
                name = "+= const Array& (other array)";
                m.insert(m.end(), mb.begin(), mb.end());
                if (e.chance(50)) {
                    a += static_cast<const Array<T> &>(b);
                } else {
                    a.Insert(static_cast<const Array<T> &>(b));
                }
                ctx.label("array:append-other-array");
                break;
            }
            case 6: {
                name = "+= itself";
                std::vector<T> copy = m;
                m.insert(m.end(), copy.begin(), copy.end());
                a += static_cast<const Array<T> &>(a);
                ctx.label("array:append-itself");
                break;
            }
            case 7: name = "Clear"; a.Clear(); m.clear(); break;
            case 8: name = "Reset"; a.Reset(); m.clear(); if (a.Capacity() != 0 || a.Storage() != nullptr) ctx.fail("array-reset", "Reset left storage"); break;
            case 9: {
                name        = "Detach";
                SizeT   n   = a.Size();
                T      *raw = a.Detach();
                if (a.Size() != 0 || a.Capacity() != 0 || a.Storage() != nullptr) {
                    ctx.fail("array-detach", "Detach left the array non-empty");
                }
                for (SizeT i = 0; i < n; ++i) {
                    if (!Elem<T>::eq(raw[i], m[i])) {
                        ctx.fail("array-detach", "detached storage differs from the model");
                    }
                }
                Memory::Dispose(raw, raw + n);
                Memory::Deallocate(raw);
                m.clear();
                break;
            }
            case 10: {
                name       = "Reserve";
                SizeT n    = SizeT(e.below(8));
                bool  init = e.chance(50);
                a.Reserve(n, init);
                m.clear();
                if (init) {
                    m.assign(n, Elem<T>::zero());
                }
                if (a.Capacity() < n) {
                    ctx.fail("array-reserve", "Reserve(n) capacity below n");
                }
                break;
            }
            case 11: {
                name    = "Resize";
                SizeT n = SizeT(e.below(10));
                a.Resize(n);
                if (m.size() > n) {
                    m.resize(n);
                }
                if (n != 0 && a.Capacity() != n) {
                    ctx.fail("array-resize", "Resize(n) capacity != n");
                }
                break;
            }
            case 12: {
                name    = "ResizeAndInitialize";
                SizeT n = SizeT(e.below(10));
                a.ResizeAndInitialize(n);
                m.resize(n, Elem<T>::zero());
                break;
            }
            case 13: {
                name    = "Expect";
                SizeT n = SizeT(e.below(10));
                a.Expect(n);
                if (a.Capacity() < a.Size() + n) {
                    ctx.fail("array-expect", "Expect(n) did not provide room");
                }
                break;
            }
            case 14: name = "Compress"; a.Compress(); if (a.Capacity() != a.Size()) ctx.fail("array-compress", "Compress left excess capacity"); break;
            case 15: {
                name    = "Drop";
                SizeT n = SizeT(e.below(6));
                a.Drop(n);
                if (n <= m.size()) {
                    m.resize(m.size() - n);
                }
                break;
            }
            case 16: {
                name = "Swap";
                if (m.size() >= 2) {
                    size_t i = e.below(uint32_t(m.size())), j = e.below(uint32_t(m.size()));
                    if (i != j) {
                        a.Swap(a.Storage()[i], a.Storage()[j]);
                        std::swap(m[i], m[j]);
                    }
                }
                break;
            }
            case 17: {
                name = "copy construct";
                Array<T> cp{static_cast<const Array<T> &>(a)};
                check_array(cp, m, "copy construct (the copy)", ctx);
                if (!m.empty() && cp.First() == a.First()) {
                    ctx.fail("array-copy-shares-storage", "copy shares storage");
                }
                break;
            }
            case 18: {
                name = "move construct and move back";
                Array<T> mv{Memory::Move(a)};
                check_array(mv, m, "move construct (the new array)", ctx);
                if (a.Size() != 0 || a.Storage() != nullptr) {
                    ctx.fail("array-moved-from-not-empty", "moved-from array not empty");
                }
                a = Memory::Move(mv);
                break;
            }
            case 19: name = "copy assign from other"; a = static_cast<const Array<T> &>(b); m = mb; break;
            case 20: name = "move assign from other"; a = Memory::Move(b); m = mb; mb.clear(); if (b.Size() != 0) ctx.fail("array-moved-from-not-empty", "moved-from not empty"); break;
            case 21: name = "self copy assign"; a = static_cast<const Array<T> &>(a); break;
            case 22: {
                name = "construct with size";
                SizeT n    = SizeT(e.below(6));
                bool  init = e.chance(50);
                Array<T> tmp{n, init};
                if (tmp.Capacity() != n || tmp.Size() != (init ? n : 0)) {
                    ctx.fail("array-size-constructor", "Array(size, initialize) size/capacity");
                }
                if (init) {
                    std::vector<T> z(n, Elem<T>::zero());
                    check_array(tmp, z, "Array(size, true)", ctx);
                }
                break;
            }
            case 23: {
                name = "Sort";
                bool asc = e.chance(50);
                a.Sort(asc);
                std::sort(m.begin(), m.end(), [](const T &x, const T &y) { return x < y; });
                if (!asc) {
                    std::reverse(m.begin(), m.end());
                }
                // ties are indistinguishable for these element types, so the model order is exact
                break;
            }
            default: {
                name = "+= item (copy) x3";
                for (int k = 0; k < 3; ++k) {
                    T x = Elem<T>::make(e);
                    m.push_back(x);
                    a += x;
                }
                break;
            }
        }
        tr.add(name);
        if (nonempty_before && a.Capacity() > cap_before) {
            tr.grew_nonempty = true;
        }
        check_array(a, m, name, ctx);
        check_array(b, mb, name, ctx); // the other array must be untouched
    }
}

// ------------------------------------------------------------------------------------------------ strings
template <typename Char_T>
Units gen_text(Entropy &e, unsigned maxlen, bool allow_nul) {
    Units    u;
    unsigned n = e.below(maxlen + 1);
    for (unsigned i = 0; i < n; ++i) {
        uint32_t c;
        switch (e.below(8)) {
            case 0: c = (uint32_t[]){' ', '\t', '\n', '\r'}[e.below(4)]; break;
            case 1:
                c = allow_nul && e.chance(30) ? 0 : 0x80 + e.below(sizeof(Char_T) == 1 ? 0x80 : 0x7000);
                if (g_gen2_level >= 2 && sizeof(Char_T) > 1 && c >= 0x100 && (c & 3) == 1) {
                    // not whitespace, although the low byte is one (and, in 4-byte units, above the BMP as well)
                    c = (c & 0x7F00) | (uint32_t[]){0x20, 0x09, 0x0A, 0x0D}[(c >> 2) & 3];
                    if (sizeof(Char_T) == 4 && (c & 0x0400) != 0) {
                        c |= 0x10000;
                    }
                }
                break;
            default: c = 0x21 + e.below(0x5E); break;
        }
        u.push_back(c);
    }
    return u;
}

template <typename Char_T>
void check_string(const String<Char_T> &s, const Units &m, const char *after, pbt::Ctx &ctx) {
    auto bad = [&](const std::string &why) { ctx.fail("string-model-mismatch", std::string("after ") + after + ": " + why); };
    if (s.Length() != m.size()) {
        bad("Length() " + std::to_string(s.Length()) + " model " + std::to_string(m.size()));
    }
    if (s.Storage() != nullptr && s.Storage()[s.Length()] != Char_T{0}) {
        ctx.fail("string-not-terminated", std::string("after ") + after + ": Storage()[Length()] is not NUL");
    }
    if (jm::units_of(s.First(), s.Length()) != m) {
        bad("contents " + jm::show(jm::units_of(s.First(), s.Length())) + " model " + jm::show(m));
    }
    if (s.IsEmpty() != m.empty()) {
        bad("IsEmpty");
    }
    if (!m.empty() && (s.Last() != s.First() + (m.size() - 1) || s.End() != s.First() + m.size())) {
        bad("Last/End");
    }
}

template <typename Char_T>
String<Char_T> mk_string(const Units &u) {
    jm::Buf<Char_T> b(u);
    return String<Char_T>{b.cp(), SizeT(b.n)};
}
// a NUL-terminated heap copy (exact size incl. terminator) for the C-string overloads
template <typename Char_T>
struct CStr {
    jm::Buf<Char_T> b;
    explicit CStr(Units u) : b((u.push_back(0), u)) {}
    const Char_T *get() const { return b.cp(); }
};
bool has_nul(const Units &u) { return std::find(u.begin(), u.end(), 0u) != u.end(); }

Units trimmed(const Units &u) {
    size_t a = 0, b = u.size();
    auto   ws = [](uint32_t c) { return c == ' ' || c == '\t' || c == '\n' || c == '\r'; };
    while (a < b && ws(u[a])) {
        ++a;
    }
    while (b > a && ws(u[b - 1])) {
        --b;
    }
    return Units(u.begin() + long(a), u.begin() + long(b));
}

template <typename Char_T>
void run_string(const Case &c, pbt::Ctx &ctx, Trace &tr) {
    Entropy        e(c.bytes);
    struct World {
        String<Char_T> pool[2];
    };
    pbt::Leaky<World> world;
    String<Char_T>   *pool = world->pool;
    Units             model[2];
    unsigned       nops = 1 + e.below(45);
    for (unsigned step = 0; step < nops; ++step) {
        unsigned        w  = e.below(2);
        String<Char_T> &s  = pool[w];
        Units          &m  = model[w];
        String<Char_T> &o  = pool[1 - w];
        Units          &mo = model[1 - w];
        const bool      nonempty_before = !m.empty();
        const char     *name = "";
        if (g_gen2 && (step == 4 || step == 11) && !c.bytes.empty() && (c.bytes.back() % 8) == 2 && !m.empty() && s.First() != nullptr) {
            // the string assigned / appended from a C string that is its own tail (s = s.First() + k): the units from k up to the first NUL
            const size_t k = size_t(c.bytes[0]) % m.size();
            Units        tail;
            for (size_t i = k; i < m.size() && m[i] != 0; ++i) {
                tail.push_back(m[i]);
            }
            if ((c.bytes.back() & 8) != 0) {
                s = static_cast<const Char_T *>(s.First() + k);
                m = tail;
                tr.add("assign own tail (C string)");
            } else {
                s += static_cast<const Char_T *>(s.First() + k);
                m.insert(m.end(), tail.begin(), tail.end());
                tr.add("append own tail (C string)");
            }
            ctx.label("string:own-tail-as-c-string");
            check_string(s, m, "assign / append of the string's own tail as a C string", ctx);
            continue;
        }
        switch (e.below(26)) {
            case 0: {
                name    = "assign String(ptr,len)";
                Units u = gen_text<Char_T>(e, 12, true);
                s       = mk_string<Char_T>(u);
                m       = u;
                break;
            }
            case 1: {
                name    = "assign C-string";
                Units u = gen_text<Char_T>(e, 12, false);
                CStr<Char_T> z(u);
                if (e.chance(50)) {
                    s = z.get();
                } else {
                    s = String<Char_T>{z.get()};
                }
                m = u;
                break;
            }
            case 2: {
                name    = "String(len) used as a buffer";
                Units u = gen_text<Char_T>(e, 10, true);
                String<Char_T> t{SizeT(u.size())};
                for (size_t i = 0; i < u.size(); ++i) {
                    t.Storage()[i] = Char_T(u[i]);
                }
                s = Memory::Move(t);
                m = u;
                break;
            }
            case 3: name = "+= const String& (other)"; s += static_cast<const String<Char_T> &>(o); m.insert(m.end(), mo.begin(), mo.end()); break;
            case 4: {
                name = "+= itself";
                s += static_cast<const String<Char_T> &>(s);
                Units cp = m;
                m.insert(m.end(), cp.begin(), cp.end());
                ctx.label("string:append-itself");
                break;
            }
            case 5: {
                name    = "+= String&&";
                Units u = gen_text<Char_T>(e, 8, true);
                String<Char_T> t = mk_string<Char_T>(u);
                s += Memory::Move(t);
                m.insert(m.end(), u.begin(), u.end());
                if (t.Length() != 0 || t.Storage() != nullptr) {
                    ctx.fail("string-moved-from-not-empty", "source of += String&& not reset");
                }
                break;
            }
            case 6: {
                name    = "+= C-string";
                Units u = gen_text<Char_T>(e, 8, false);
                CStr<Char_T> z(u);
                if (e.chance(50)) {
                    s += z.get();
                } else {
                    s << z.get();
                }
                m.insert(m.end(), u.begin(), u.end());
                break;
            }
            case 7: {
                name       = "+= char";
                uint32_t ch = 0x21 + e.below(0x5E);
                s += Char_T(ch);
                m.push_back(ch);
                break;
            }
            case 8: {
                name    = "Write(ptr,len)";
                Units u = gen_text<Char_T>(e, 8, true);
                jm::Buf<Char_T> b(u);
                s.Write(b.cp(), SizeT(b.n));
                m.insert(m.end(), u.begin(), u.end());
                break;
            }
            case 9: {
                name = "operator+ (String, C-string, String&&)";
                Units u = gen_text<Char_T>(e, 6, false);
                CStr<Char_T>   z(u);
                String<Char_T> r1 = s + static_cast<const String<Char_T> &>(o);
                Units          e1 = m;
                e1.insert(e1.end(), mo.begin(), mo.end());
                check_string(r1, e1, "a + b (result)", ctx);
                String<Char_T> r2 = s + z.get();
                Units          e2 = m;
                e2.insert(e2.end(), u.begin(), u.end());
                check_string(r2, e2, "a + cstr (result)", ctx);
                String<Char_T> t  = mk_string<Char_T>(u);
                String<Char_T> r3 = s + Memory::Move(t);
                check_string(r3, e2, "a + String&& (result)", ctx);
                String<Char_T> r4 = String<Char_T>::Merge(s, o);
                check_string(r4, e1, "Merge (result)", ctx);
                break;
            }
            case 10: name = "Reset"; s.Reset(); m.clear(); if (s.Storage() != nullptr) ctx.fail("string-reset", "Reset left storage"); break;
            case 11: {
                name          = "Detach and adopt";
                SizeT   len   = s.Length();
                Char_T *raw   = s.Detach();
                if (s.Length() != 0 || s.Storage() != nullptr) {
                    ctx.fail("string-detach", "Detach left the string non-empty");
                }
                String<Char_T> adopted{raw, len}; // adopting constructor
                check_string(adopted, m, "adopt detached storage", ctx);
                s = Memory::Move(adopted);
                break;
            }
            case 12: {
                name    = "StepBack";
                SizeT n = SizeT(e.below(5));
                s.StepBack(n);
                if (n <= m.size()) {
                    m.resize(m.size() - n);
                }
                ctx.label("string:stepback-on-empty", m.empty() && !nonempty_before);
                break;
            }
            case 13: {
                name      = "Reverse";
                SizeT idx = SizeT(e.below(unsigned(m.size()) + 2));
                s.Reverse(idx);
                if (idx < m.size()) {
                    std::reverse(m.begin() + long(idx), m.end());
                }
                break;
            }
            case 14: {
                name       = "InsertAt";
                SizeT   idx = SizeT(e.below(unsigned(m.size()) + 2));
                uint32_t ch = 0x21 + e.below(0x5E);
                s.InsertAt(Char_T(ch), idx);
                if (idx < m.size()) {
                    m.insert(m.begin() + long(idx), ch);
                }
                break;
            }
            case 15: {
                name = "Trim (static)";
                String<Char_T> t = String<Char_T>::Trim(s);
                check_string(t, trimmed(m), "Trim (result)", ctx);
                break;
            }
            case 16: {
                name = "copy construct";
                String<Char_T> cp{static_cast<const String<Char_T> &>(s)};
                check_string(cp, m, "copy construct (the copy)", ctx);
                if (!m.empty() && cp.First() == s.First()) {
                    ctx.fail("string-copy-shares-storage", "copy shares storage");
                }
                break;
            }
            case 17: {
                name = "move construct and back";
                String<Char_T> mv{Memory::Move(s)};
                check_string(mv, m, "move construct (new)", ctx);
                if (s.Length() != 0 || s.Storage() != nullptr) {
                    ctx.fail("string-moved-from-not-empty", "moved-from string not empty");
                }
                s = Memory::Move(mv);
                break;
            }
            case 18: name = "copy assign other"; s = static_cast<const String<Char_T> &>(o); m = mo; break;
            case 19: name = "move assign other"; s = Memory::Move(o); m = mo; mo.clear(); break;
            case 20: name = "self copy assign"; s = static_cast<const String<Char_T> &>(s); break;
            case 21:
            case 22: {
                name = "compare with String / C-string";
                bool eq = (m == mo);
                if ((s == o) != eq || (s != o) == eq || s.IsEqual(o.First(), o.Length()) != eq) {
                    ctx.fail("string-equality", "== / != / IsEqual between Strings disagree with the contents");
                }
                // against a C-string: includes empty and storage-less operands
                Units u = e.chance(40) ? m : gen_text<Char_T>(e, 4, false);
                if (!has_nul(u) && !has_nul(m)) {
                    CStr<Char_T> z(u);
                    bool         eqc = (u == m);
                    ctx.label("string:compare-cstring-with-null-storage", s.Storage() == nullptr);
                    if ((s == z.get()) != eqc || (s != z.get()) == eqc) {
                        ctx.fail("string-equality-cstring", "String == C-string disagrees: " + jm::show(m) + " vs " + jm::show(u));
                    }
                }
                break;
            }
            default: {
                name    = "<< String";
                s << static_cast<const String<Char_T> &>(o);
                m.insert(m.end(), mo.begin(), mo.end());
                break;
            }
        }
        tr.add(name);
        if (nonempty_before && m.size() > 0) {
            tr.grew_nonempty = true;
        }
        check_string(s, m, name, ctx);
        check_string(o, mo, name, ctx);
    }
}

// ------------------------------------------------------------------------------------------------ StringStream
// A foreign buffer whose address differs from a position inside the container's own block by a multiple of 2^32 units: the library's
// sizes are 32 bits wide, so a pointer difference that is narrowed before it is tested takes such a buffer for a part of the container.
// Mapped at the wanted address (MAP_FIXED_NOREPLACE); when the place is taken (a sanitizer's reserved ranges, say) the step is skipped.
template <typename Char_T>
struct FarBuffer {
    void   *map{MAP_FAILED};
    size_t  map_len{0};
    Char_T *p{nullptr};
    FarBuffer(const Char_T *own, size_t own_len, unsigned k, unsigned d, const Units &u) {
        if (own == nullptr || own_len == 0) {
            return;
        }
        const uintptr_t want = uintptr_t(own + (d % own_len)) + uintptr_t(k) * (uintptr_t(1) << 32) * sizeof(Char_T);
        const uintptr_t page = want & ~uintptr_t(4095);
        map_len              = size_t((want - page) + (u.size() + 1) * sizeof(Char_T) + 4095) & ~size_t(4095);
        map                  = mmap(reinterpret_cast<void *>(page), map_len, PROT_READ | PROT_WRITE, MAP_PRIVATE | MAP_ANONYMOUS | MAP_FIXED_NOREPLACE, -1, 0);
        if (map == MAP_FAILED) {
            return;
        }
        if (map != reinterpret_cast<void *>(page)) { // (kernels that do not know the flag treat the address as a hint)
            munmap(map, map_len);
            map = MAP_FAILED;
            return;
        }
        p = reinterpret_cast<Char_T *>(want);
        for (size_t i = 0; i < u.size(); ++i) {
            p[i] = Char_T(u[i]);
        }
        p[u.size()] = Char_T(0);
    }
    ~FarBuffer() {
        if (map != MAP_FAILED) {
            munmap(map, map_len);
        }
    }
    FarBuffer(const FarBuffer &)            = delete;
    FarBuffer &operator=(const FarBuffer &) = delete;
};
template <typename Char_T>
void check_stream(const StringStream<Char_T> &s, const Units &m, const char *after, pbt::Ctx &ctx) {
    auto bad = [&](const std::string &why) { ctx.fail("stream-model-mismatch", std::string("after ") + after + ": " + why); };
    if (s.Length() != m.size()) {
        bad("Length() " + std::to_string(s.Length()) + " model " + std::to_string(m.size()));
    }
    if (s.Capacity() < s.Length()) {
        bad("Capacity() < Length()");
    }
    if (jm::units_of(s.First(), s.Length()) != m) {
        bad("contents " + jm::show(jm::units_of(s.First(), s.Length())) + " model " + jm::show(m));
    }
    if (s.IsEmpty() != m.empty() || s.IsNotEmpty() == m.empty()) {
        bad("IsEmpty");
    }
    if (m.empty() ? (s.Last() != nullptr) : (s.Last() != s.First() + (m.size() - 1) || s.End() != s.First() + m.size())) {
        bad("Last/End");
    }
    size_t n = 0;
    for (Char_T ch : s) {
        if (n >= m.size() || jm::unit_of(ch) != m[n]) {
            bad("iteration");
        }
        ++n;
    }
}

template <typename Char_T>
void run_stream(const Case &c, pbt::Ctx &ctx, Trace &tr) {
    Entropy              e(c.bytes);
    struct World {
        StringStream<Char_T> pool[2];
    };
    pbt::Leaky<World>     world;
    StringStream<Char_T> *pool = world->pool;
    Units                 model[2];
    unsigned             nops = 1 + e.below(45);
    for (unsigned step = 0; step < nops; ++step) {
        unsigned              w  = e.below(2);
        StringStream<Char_T> &s  = pool[w];
        Units                &m  = model[w];
        StringStream<Char_T> &o  = pool[1 - w];
        Units                &mo = model[1 - w];
        const SizeT           cap_before      = s.Capacity();
        const bool            nonempty_before = !m.empty();
        const char           *name            = "";
        if (g_gen2 && step == 2 && !c.bytes.empty() && (c.bytes.back() % 8) == 0) {
            // growth in big steps (once per case): a stream that already holds tens of thousands of units is asked for several times
            // its capacity at once (Expect), then gets a range of more than twice its capacity appended
            Units big;
            for (unsigned i = 0; i < 66000; ++i) {
                big.push_back('a' + (i % 26));
            }
            {
                jm::Buf<Char_T> b(big);
                s.Write(b.cp(), SizeT(b.n));
                m.insert(m.end(), big.begin(), big.end());
            }
            const bool by_expect = (c.bytes.back() & 8) != 0;
            if (by_expect) {
                const SizeT want = SizeT(s.Capacity() * 3U + 17U);
                s.Expect(want);
                if (s.Capacity() < s.Length() + want) {
                    ctx.fail("stream-expect", "Expect(" + std::to_string(want) + ") on a stream of length " + std::to_string(s.Length()) + " did not provide room (capacity " +
                                                  std::to_string(s.Capacity()) + ")");
                }
            } else {
                Units        huge;
                const size_t hn = size_t(s.Capacity()) * 2 + 4097;
                for (size_t i = 0; i < hn; ++i) {
                    huge.push_back('0' + (i % 10));
                }
                jm::Buf<Char_T> b(huge);
                s.Write(b.cp(), SizeT(b.n));
                m.insert(m.end(), huge.begin(), huge.end());
            }
            tr.add("growth in big steps");
            check_stream(s, m, "growth in big steps", ctx);
            s.Reset();
            m.clear();
            continue;
        }
        if (g_gen2 && (step == 3 || step == 9) && !c.bytes.empty() && (c.bytes.back() % 8) == 1 && !m.empty()) {
            // a range from a far buffer (see FarBuffer), long enough to make the stream grow: the stream's own units must not be taken for it
            Units u;
            const size_t un = size_t(s.Capacity() - s.Length()) + 1 + (c.bytes.back() >> 3) % 7;
            for (size_t i = 0; i < un; ++i) {
                u.push_back('A' + uint32_t((i + step) % 26));
            }
            FarBuffer<Char_T> far(s.First(), s.Length(), 1 + unsigned(c.bytes.size() % 3), unsigned(c.bytes[0]), u);
            if (far.p != nullptr) {
                if ((c.bytes.back() & 0x40) != 0) {
                    s.Write(far.p, SizeT(un));
                } else {
                    s += static_cast<const Char_T *>(far.p);
                }
                m.insert(m.end(), u.begin(), u.end());
                tr.add("append from a buffer 2^32 units away");
                ctx.label("stream:append-from-far-buffer");
                check_stream(s, m, "append from a buffer whose address is a multiple of 2^32 units away from the stream's block", ctx);
            } else {
                ctx.label("stream:far-buffer-address-taken");
            }
            continue;
        }
        switch (e.below(30)) {
            case 0:
            case 1: {
                name        = "+= char";
                uint32_t ch = e.chance(10) ? 0 : 0x21 + e.below(0x5E);
                if (e.chance(50)) {
                    s += Char_T(ch);
                } else {
                    s << Char_T(ch);
                }
                m.push_back(ch);
                break;
            }
            case 2: {
                name    = "Write(ptr,len)";
                Units u = gen_text<Char_T>(e, 40, true);
                jm::Buf<Char_T> b(u);
                s.Write(b.cp(), SizeT(b.n));
                m.insert(m.end(), u.begin(), u.end());
                break;
            }
            case 3: {
                name = "+= stream (other)";
                if (e.chance(50)) {
                    s += static_cast<const StringStream<Char_T> &>(o);
                } else {
                    s << static_cast<const StringStream<Char_T> &>(o);
                }
                m.insert(m.end(), mo.begin(), mo.end());
                break;
            }
            case 4: {
                name = "+= itself";
                s += static_cast<const StringStream<Char_T> &>(s);
                Units cp = m;
                m.insert(m.end(), cp.begin(), cp.end());
                ctx.label("stream:append-itself");
                break;
            }
            case 5: {
                name    = "+= String / StringView / C-string";
                Units u = gen_text<Char_T>(e, 10, false);
                String<Char_T> str = mk_string<Char_T>(u);
                CStr<Char_T>   z(u);
                switch (e.below(5)) {
                    case 0: s += str; break;
                    case 1: s << str; break;
                    case 2: s << StringView<Char_T>{str.First(), str.Length()}; break;
                    case 3: s += z.get(); break;
                    default: s << z.get(); break;
                }
                m.insert(m.end(), u.begin(), u.end());
                break;
            }
            case 6: {
                name    = "assign from C-string / String / StringView";
                Units u = gen_text<Char_T>(e, 10, false);
                String<Char_T> str = mk_string<Char_T>(u);
                CStr<Char_T>   z(u);
                switch (e.below(3)) {
                    case 0: s = z.get(); break;
                    case 1: s = str; break;
                    default: s = StringView<Char_T>{str.First(), str.Length()}; break;
                }
                m = u;
                break;
            }
            case 7: name = "copy assign other"; s = static_cast<const StringStream<Char_T> &>(o); m = mo; break;
            case 8: name = "move assign other"; s = Memory::Move(o); m = mo; mo.clear(); if (o.Length() != 0 || o.Storage() != nullptr) ctx.fail("stream-moved-from-not-empty", "moved-from"); break;
            case 9: name = "self copy assign"; s = static_cast<const StringStream<Char_T> &>(s); break;
            case 10: {
                name = "copy construct";
                StringStream<Char_T> cp{static_cast<const StringStream<Char_T> &>(s)};
                check_stream(cp, m, "copy construct (copy)", ctx);
                break;
            }
            case 11: {
                name = "move construct and back";
                StringStream<Char_T> mv{Memory::Move(s)};
                check_stream(mv, m, "move construct (new)", ctx);
                if (s.Length() != 0 || s.Storage() != nullptr || s.Capacity() != 0) {
                    ctx.fail("stream-moved-from-not-empty", "moved-from stream not empty");
                }
                s = Memory::Move(mv);
                break;
            }
            case 12: name = "Clear"; s.Clear(); m.clear(); break;
            case 13: name = "Reset"; s.Reset(); m.clear(); if (s.Capacity() != 0 || s.Storage() != nullptr) ctx.fail("stream-reset", "Reset left storage"); break;
            case 14: {
                name    = "StepBack";
                SizeT n = SizeT(e.below(6));
                s.StepBack(n);
                if (n <= m.size()) {
                    m.resize(m.size() - n);
                }
                break;
            }
            case 15: {
                name      = "Reverse";
                SizeT idx = SizeT(e.below(unsigned(m.size()) + 2));
                s.Reverse(idx);
                if (idx < m.size()) {
                    std::reverse(m.begin() + long(idx), m.end());
                }
                break;
            }
            case 16: {
                name        = "InsertAt";
                SizeT    idx = SizeT(e.below(unsigned(m.size()) + 2));
                uint32_t ch  = 0x21 + e.below(0x5E);
                s.InsertAt(Char_T(ch), idx);
                if (idx < m.size()) {
                    m.insert(m.begin() + long(idx), ch);
                }
                break;
            }
            case 17: {
                name      = "SetLength (grow is filled by the caller)";
                SizeT n   = SizeT(e.below(unsigned(m.size()) + 12));
                SizeT old = s.Length();
                s.SetLength(n);
                if (s.Capacity() < n) {
                    ctx.fail("stream-setlength", "SetLength(n) without room");
                }
                for (SizeT i = old; i < n; ++i) {
                    s.Storage()[i] = Char_T('#');
                }
                m.resize(n, uint32_t('#'));
                break;
            }
            case 18: {
                name    = "Buffer(len)";
                Units u = gen_text<Char_T>(e, 20, true);
                Char_T *p = s.Buffer(SizeT(u.size()));
                for (size_t i = 0; i < u.size(); ++i) {
                    p[i] = Char_T(u[i]);
                }
                m.insert(m.end(), u.begin(), u.end());
                break;
            }
            case 19: {
                name    = "Expect";
                SizeT n = SizeT(e.below(40));
                s.Expect(n);
                if (s.Capacity() < s.Length() + n) {
                    ctx.fail("stream-expect", "Expect(n) did not provide room");
                }
                break;
            }
            case 20: {
                name    = "Reserve";
                SizeT n = SizeT(e.below(20));
                s.Reserve(n);
                m.clear();
                if (s.Capacity() < n) {
                    ctx.fail("stream-reserve", "Reserve(n) capacity below n");
                }
                break;
            }
            case 21: {
                name        = "Detach";
                Char_T *raw = s.Detach();
                if (raw != nullptr || !m.empty()) {
                    if (jm::units_of(raw, m.size()) != m) {
                        ctx.fail("stream-detach", "detached storage differs");
                    }
                }
                Memory::Deallocate(raw);
                if (s.Length() != 0 || s.Capacity() != 0 || s.Storage() != nullptr) {
                    ctx.fail("stream-detach", "Detach left the stream non-empty");
                }
                m.clear();
                break;
            }
            case 22: {
                name = "GetString";
                String<Char_T> str = s.GetString();
                check_string(str, m, "GetString (result)", ctx);
                m.clear();
                break;
            }
            case 23: {
                name = "GetStringView / InsertNull";
                if (e.chance(50)) {
                    StringView<Char_T> v = s.GetStringView();
                    if (v.Length() != m.size() || jm::units_of(v.First(), v.Length()) != m || v.First()[v.Length()] != Char_T{0}) {
                        ctx.fail("stream-stringview", "GetStringView content / terminator");
                    }
                } else {
                    s.InsertNull();
                    if (s.Storage()[s.Length()] != Char_T{0}) {
                        ctx.fail("stream-insertnull", "InsertNull did not terminate");
                    }
                }
                break;
            }
            case 24:
            case 25: {
                name      = "comparisons";
                bool eq   = (m == mo);
                bool ok   = ((s == o) == eq) && ((s != o) != eq);
                String<Char_T> str = mk_string<Char_T>(mo);
                ok = ok && ((s == str) == eq) && ((s != str) != eq);
                ok = ok && ((s == StringView<Char_T>{str.First(), str.Length()}) == eq);
                ok = ok && (s.IsEqual(str.First(), str.Length()) == eq);
                if (!has_nul(mo) && !has_nul(m)) {
                    CStr<Char_T> z(mo);
                    ok = ok && ((s == z.get()) == eq) && ((s != z.get()) != eq);
                }
                if (!ok) {
                    ctx.fail("stream-equality", "stream comparisons disagree with the contents");
                }
                break;
            }
            case 26: {
                name = "construct with size";
                SizeT n = SizeT(e.below(20));
                StringStream<Char_T> t{n};
                if (t.Length() != 0 || t.Capacity() < n) {
                    ctx.fail("stream-size-constructor", "StringStream(size)");
                }
                break;
            }
            default: {
                name = "+= char x many (growth)";
                unsigned k = 1 + e.below(70);
                for (unsigned i = 0; i < k; ++i) {
                    uint32_t ch = 0x30 + (i % 10);
                    s += Char_T(ch);
                    m.push_back(ch);
                }
                break;
            }
        }
        tr.add(name);
        if (nonempty_before && s.Capacity() > cap_before) {
            tr.grew_nonempty = true;
        }
        check_stream(s, m, name, ctx);
        check_stream(o, mo, name, ctx);
    }
}

// ------------------------------------------------------------------------------------------------ StringView
template <typename Char_T>
void run_view(const Case &c, pbt::Ctx &ctx, Trace &tr) {
    Entropy  e(c.bytes);
    unsigned nops = 1 + e.below(20);
    for (unsigned step = 0; step < nops; ++step) {
        Units a = gen_text<Char_T>(e, 8, false), b = e.chance(40) ? a : gen_text<Char_T>(e, 8, false);
        jm::Buf<Char_T> ba(a), bb(b);
        StringView<Char_T> va{ba.cp(), SizeT(ba.n)}, vb{bb.cp(), SizeT(bb.n)};
        StringView<Char_T> cp{va};
        StringView<Char_T> as;
        as = vb;
        StringView<Char_T> mv{Memory::Move(cp)};
        CStr<Char_T>       z(a);
        StringView<Char_T> fromc{z.get()};
        StringView<Char_T> assigned;
        assigned = z.get();
        bool ok  = va.Length() == a.size() && jm::units_of(va.First(), va.Length()) == a && mv.First() == va.First() && mv.Length() == va.Length() &&
                  as.First() == vb.First() && fromc.Length() == a.size() && jm::units_of(fromc.First(), fromc.Length()) == a &&
                  assigned.Length() == a.size() && va.IsEmpty() == a.empty() && va.IsNotEmpty() != a.empty() &&
                  (a.empty() ? true : (va.Last() == va.First() + (a.size() - 1) && va.End() == va.First() + a.size())) &&
                  ((va == vb) == (a == b)) && ((va != vb) == (a != b)) && (va.IsEqual(bb.cp(), SizeT(bb.n)) == (a == b)) && ((va == z.get()) == true);
        // ordering operators against a lexicographic model (units compared as Char_T compares them)
        auto ref_cmp = [](const Units &x, const Units &y) {
            for (size_t i = 0; i < x.size() && i < y.size(); ++i) {
                if (Char_T(x[i]) != Char_T(y[i])) {
                    return Char_T(x[i]) < Char_T(y[i]) ? -1 : 1;
                }
            }
            return x.size() == y.size() ? 0 : (x.size() < y.size() ? -1 : 1);
        };
        auto ord_ok = [](const StringView<Char_T> &l, const StringView<Char_T> &r, int ref) {
            return (l < r) == (ref < 0) && (l <= r) == (ref <= 0) && (l > r) == (ref > 0) && (l >= r) == (ref >= 0) && (l == r) == (ref == 0);
        };
        ok = ok && ord_ok(va, vb, ref_cmp(a, b)) && ord_ok(vb, va, ref_cmp(b, a)) && ord_ok(va, va, 0);
        {   // views that share their start: a prefix of a buffer against the whole buffer, and against the C string it is cut from
            const size_t       k = (a.size() * 7 + step) % (a.size() + 1);
            const Units        ap(a.begin(), a.begin() + long(k));
            StringView<Char_T> pa{ba.cp(), SizeT(k)};
            ok = ok && ord_ok(pa, va, ref_cmp(ap, a)) && ord_ok(va, pa, ref_cmp(a, ap));
            if (!has_nul(a)) {
                StringView<Char_T> pz{z.get(), SizeT(k)};
                const int          r = ref_cmp(ap, a);
                ok = ok && (pz < z.get()) == (r < 0) && (pz <= z.get()) == (r <= 0) && (pz > z.get()) == (r > 0) && (pz >= z.get()) == (r >= 0) &&
                     (pz == z.get()) == (r == 0);
            }
        }
        if (g_gen2) {
            // long operands that differ in exactly one unit (or not at all): 16-75 units, the difference anywhere - equality and
            // order are decided by every position, also those a block-wise comparison might skip
            Units la;
            const size_t L = 16 + (step * 7 + a.size() * 5) % 60;
            for (size_t i = 0; i < L; ++i) {
                la.push_back(a.empty() ? uint32_t('k' + i % 7) : (a[i % a.size()] == 0 ? uint32_t('z') : a[i % a.size()]));
            }
            Units        lb  = la;
            const size_t pos = (step * 13 + b.size() * 3 + L / 2) % L;
            const bool   same = (step % 4) == 3;
            if (!same) {
                lb[pos] = (lb[pos] == 'q') ? 'r' : 'q';
            }
            jm::Buf<Char_T>    bla(la), blb(lb);
            StringView<Char_T> vla{bla.cp(), SizeT(bla.n)}, vlb{blb.cp(), SizeT(blb.n)};
            String<Char_T>     sla{bla.cp(), SizeT(bla.n)}, slb{blb.cp(), SizeT(blb.n)};
            const int          r = ref_cmp(la, lb);
            ok = ok && ord_ok(vla, vlb, r) && ord_ok(vlb, vla, -r) && ((vla != vlb) == (r != 0)) && (vla.IsEqual(blb.cp(), SizeT(blb.n)) == (r == 0)) &&
                 ((sla == slb) == (r == 0)) && ((sla != slb) == (r != 0)) && ((sla < slb) == (r < 0)) && ((sla > slb) == (r > 0)) &&
                 ((sla <= slb) == (r <= 0)) && ((sla >= slb) == (r >= 0)) && (StringUtils::IsEqual(bla.cp(), blb.cp(), SizeT(L)) == (r == 0));
            if (!ok) {
                ctx.fail("view-model-mismatch", "long operands " + jm::show(la) + " / " + jm::show(lb) + " (difference at " + std::to_string(pos) + ")");
            }
        }
        size_t n = 0;
        for (Char_T ch : va) {
            ok = ok && n < a.size() && jm::unit_of(ch) == a[n];
            ++n;
        }
        if (!ok || n != a.size()) {
            ctx.fail("view-model-mismatch", "StringView over " + jm::show(a) + " / " + jm::show(b));
        }
        tr.add("view");
    }
    tr.grew_nonempty = true; // views never grow; every multi-step case counts
}

// ------------------------------------------------------------------------------------------------ copy / zero grid
// Source and destination end exactly at the end of their heap blocks (ASan redzone behind), `mis` bytes into the block.
void copy_one(size_t len, size_t smis, size_t dmis, pbt::Ctx &ctx) {
    unsigned char *sblk = static_cast<unsigned char *>(malloc(smis + len + 1));
    unsigned char *dblk = static_cast<unsigned char *>(malloc(dmis + len + 1));
    unsigned char *rblk = static_cast<unsigned char *>(malloc(dmis + len + 1));
    // shift so that the used region ends at the block end: region = [1 + mis', ...) - keep it simple: region starts at `mis`, block has 1 spare byte in front
    unsigned char *src = sblk + smis + 1 - 1;
    unsigned char *dst = dblk + dmis + 1 - 1;
    for (size_t i = 0; i < smis + len + 1; ++i) {
        sblk[i] = (unsigned char)(i * 131 + len * 7 + 3);
    }
    memset(dblk, 0xA5, dmis + len + 1);
    memset(rblk, 0xA5, dmis + len + 1);
    // the spare byte sits at the END for the canary check of the destination
    Memory::Copy(dst, src, SizeT(len));
    memcpy(rblk + dmis, src, len);
    if (memcmp(dblk, rblk, dmis + len + 1) != 0) {
        free(sblk);
        free(dblk);
        free(rblk);
        ctx.fail("copy-differs-from-memcpy", "Memory::Copy len=" + std::to_string(len) + " src misalign " + std::to_string(smis) + " dst misalign " + std::to_string(dmis));
    }
    // exact-end variants: no spare byte, ASan guards the end
    unsigned char *s2 = static_cast<unsigned char *>(malloc(smis + len + (smis + len == 0)));
    unsigned char *d2 = static_cast<unsigned char *>(malloc(dmis + len + (dmis + len == 0)));
    for (size_t i = 0; i < smis + len; ++i) {
        s2[i] = (unsigned char)(i * 17 + 5);
    }
    memset(d2, 0x5A, dmis + len);
    Memory::Copy(d2 + dmis, s2 + smis, SizeT(len));
    bool ok = memcmp(d2 + dmis, s2 + smis, len) == 0;
    for (size_t i = 0; i < dmis; ++i) {
        ok = ok && d2[i] == 0x5A;
    }
    // zero fill
    memset(d2, 0x5A, dmis + len);
    Memory::SetToZero(d2 + dmis, SizeT(len));
    for (size_t i = 0; i < dmis; ++i) {
        ok = ok && d2[i] == 0x5A;
    }
    for (size_t i = 0; i < len; ++i) {
        ok = ok && d2[dmis + i] == 0;
    }
    free(sblk);
    free(dblk);
    free(rblk);
    free(s2);
    free(d2);
    if (!ok) {
        ctx.fail("copy-or-zero-differs", "Memory::Copy/SetToZero (exact-end buffers) len=" + std::to_string(len) + " src misalign " + std::to_string(smis) +
                                             " dst misalign " + std::to_string(dmis));
    }
}

struct H {
    using Case = ::Case;
    static const char *name() { return "C14 sequences"; }
    static rc::Gen<Case> gen() {
        using namespace rc;
        return gen::map(gen::tuple(gen::resize(300, gen::container<std::vector<uint8_t>>(gen::arbitrary<uint8_t>())), pbt::pick<int>({0, 0, 1, 1, 2, 2, 3, 3, 3, 4}),
                                   pbt::pick<int>({1, 1, 2, 4, 3}), pbt::pick<int>({0, 1, 2, 2})),
                        [](std::tuple<std::vector<uint8_t>, int, int, int> t) {
                            Case c;
                            c.bytes  = std::get<0>(t);
                            c.target = std::get<1>(t);
                            c.width  = std::get<2>(t);
                            c.gen2   = std::get<3>(t);
                            return c;
                        });
    }
    // coverage-guided mode: selector bytes, then entropy
    static bool from_fuzz(const uint8_t *d, size_t n, Case &c) {
        pbt::FuzzBytes f(d, n);
        static const int w[] = {1, 2, 4, 3};
        uint8_t          s   = f.sel();
        c.width  = w[s & 3];
        c.target = (s >> 2) % 5;
        c.gen2   = ((s >> 6) & 1) + ((s >> 6) & (s >> 7) & 1);
        c.bytes  = f.rest();
        return true;
    }
    static std::string to_text(const Case &c) {
        pbt::KV     kv;
        std::string hex;
        char        b[4];
        for (uint8_t x : c.bytes) {
            snprintf(b, sizeof b, "%02x", x);
            hex += b;
        }
        kv.put("target", c.target);
        kv.put("gen2", c.gen2);
        kv.put("width", c.width);
        kv.put("bytes", hex);
        return kv.text();
    }
    static Case from_text(const std::string &t) {
        pbt::KV     kv = pbt::KV::parse(t);
        Case        c;
        std::string hex = kv.get("bytes");
        for (size_t i = 0; i + 1 < hex.size(); i += 2) {
            c.bytes.push_back(uint8_t(strtoul(hex.substr(i, 2).c_str(), nullptr, 16)));
        }
        c.target = int(kv.geti("target"));
        c.gen2   = int(kv.geti("gen2", 0));
        c.width  = int(kv.geti("width", 1));
        return c;
    }
    template <typename Char_T>
    static void run_str(const Case &c, pbt::Ctx &ctx, Trace &tr) {
        if (c.target == 2) {
            run_string<Char_T>(c, ctx, tr);
        } else if (c.target == 3) {
            run_stream<Char_T>(c, ctx, tr);
        } else {
            run_view<Char_T>(c, ctx, tr);
        }
    }
    static void run(const Case &c, pbt::Ctx &ctx) {
        g_gen2 = (c.gen2 != 0);
        g_gen2_level = c.gen2;
        Trace tr;
        ctx.label(c.target == 0 ? "target:Array<int>" : c.target == 1 ? "target:Array<String>" : c.target == 2 ? "target:String" : c.target == 3 ? "target:StringStream" : "target:StringView");
        try {
            if (c.target == 0) {
                run_array<int>(c, ctx, tr);
            } else if (c.target == 1) {
                run_array<String<char>>(c, ctx, tr);
            } else if (c.width == 1) {
                run_str<char>(c, ctx, tr);
            } else if (c.width == 2) {
                run_str<char16_t>(c, ctx, tr);
            } else {
                run_str<char32_t>(c, ctx, tr);
            }
        } catch (pbt::Failure &f) {
            f.msg += " | ops: " + tr.ops;
            throw;
        }
        if (tr.grew_nonempty) {
            ctx.nontrivial();
        }
    }

    // "grid-quick": lengths 0..300 + {511..513,1023..1025,4095,4096} x misalignments 0..31 ; "grid-full": 0..4096 x 0..63 x 0..63
    static void enumerate(pbt::Ctx &ctx, unsigned shard, unsigned nshards, const std::string &what) {
        Qentem::MemoryRecord::data().enabled = false;
        ctx.distinct_by_construction         = true;
        std::vector<size_t> lens;
        size_t              mis = 32;
        if (what == "grid-full") {
            for (size_t l = 0; l <= 4096; ++l) {
                lens.push_back(l);
            }
            mis = 64;
        } else {
            for (size_t l = 0; l <= 300; ++l) {
                lens.push_back(l);
            }
            for (size_t l : {511, 512, 513, 1023, 1024, 1025, 4095, 4096}) {
                lens.push_back(l);
            }
        }
        for (size_t li = 0; li < lens.size() && !ctx.failed; ++li) {
            if ((li % nshards) != shard) {
                continue;
            }
            for (size_t s = 0; s < mis; ++s) {
                for (size_t d = 0; d < mis; ++d) {
                    ++ctx.evaluations;
                    ++ctx.nontrivial_counted;
                    try {
                        copy_one(lens[li], s, d, ctx);
                    } catch (const pbt::Failure &f) {
                        ctx.failed    = true;
                        ctx.fail_cls  = f.cls;
                        ctx.fail_msg  = f.msg;
                        ctx.fail_text = "target=9\nlen=" + std::to_string(lens[li]) + "\nsmis=" + std::to_string(s) + "\ndmis=" + std::to_string(d) + "\n";
                        return;
                    }
                }
            }
        }
        ctx.exhaustive      = true;
        ctx.exhaustive_what = (what == "grid-full") ? "Memory::Copy and SetToZero for every length 0..4096 x source misalignment 0..63 x destination misalignment 0..63"
                                                    : "Memory::Copy and SetToZero for lengths 0..300 and 8 boundary lengths x misalignments 0..31 x 0..31";
        ctx.samples.push_back("len=513\nsmis=3\ndmis=17\n");
    }
};

} // namespace

PBT_MAIN(H)
