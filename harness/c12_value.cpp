// C12 — a Value behaves as an abstract JSON document under every operation sequence.
// Model-based: a generated program of public Value operations runs against the library and against a document
// model; every read (kind predicates, size, by key / index / iteration, typed getters, coercions, Stringify) is
// compared after every step. Transition table: DESIGN.md Appendix A.
#include "common/pbt.hpp"
#include "common/jmodel.hpp"

#include <cmath>
#include <memory>

using namespace Qentem;

namespace {

using jm::Entropy;
using VC  = Value<char>;
using Str = std::string;

struct Case {
    std::vector<uint8_t> bytes;
    int                  gen2{0}; // 2: as 1, and operation 38 also builds reserved arrays with nested holes; 1: operations 38 / 39 are "merge a sized-but-empty temporary" / "assign from an own descendant" (absent in older replay files: 0)
};

// ------------------------------------------------------------------------------------------------ model
enum class MK { Undef, Null, True, False, UInt, Int, Real, Str, Arr, Obj, Ptr };

struct MV {
    MK                              k{MK::Undef};
    uint64_t                        u{0};
    int64_t                         i{0};
    double                          d{0};
    Str                             s;
    std::vector<MV>                 arr;
    std::vector<std::pair<Str, MV>> obj;  // live entries in first-insertion order (a member's value may be Undef)
    bool                            tombstone_free{true};
    int                             target{-1}; // Ptr: index of the pool root it refers to
};

constexpr int kPool    = 5; // 0..2 ordinary roots, 3..4 pointer targets (never hold pointer-bearing content)
constexpr int kTargets = 3;

struct World {
    VC pool[kPool];
};

struct Model {
    MV root[kPool];
    const MV &deref(const MV &m) const { return m.k == MK::Ptr ? deref(root[m.target]) : m; }
};

// a pointer whose target is currently Undefined: what Stringify prints for it is unspecified, the text is not compared then
bool has_dangling_ptr(const Model &md, const MV &m) {
    if (m.k == MK::Ptr) {
        return md.deref(m).k == MK::Undef || has_dangling_ptr(md, md.root[m.target]);
    }
    for (auto &c : m.arr) {
        if (has_dangling_ptr(md, c)) {
            return true;
        }
    }
    for (auto &kv : m.obj) {
        if (has_dangling_ptr(md, kv.second)) {
            return true;
        }
    }
    return false;
}

bool has_ptr(const MV &m) {
    if (m.k == MK::Ptr) {
        return true;
    }
    for (auto &c : m.arr) {
        if (has_ptr(c)) {
            return true;
        }
    }
    for (auto &kv : m.obj) {
        if (has_ptr(kv.second)) {
            return true;
        }
    }
    return false;
}

MV deep_copy(const MV &m) { // what copying a Value yields: tombstones are not copied
    MV r = m;
    r.tombstone_free = true;
    for (auto &c : r.arr) {
        c = deep_copy(c);
    }
    for (auto &kv : r.obj) {
        kv.second = deep_copy(kv.second);
    }
    return r;
}

MV *obj_find(MV &o, const Str &key) {
    for (auto &kv : o.obj) {
        if (kv.first == key) {
            return &kv.second;
        }
    }
    return nullptr;
}
MV &obj_get_or_create(MV &o, const Str &key) {
    MV *f = obj_find(o, key);
    if (f != nullptr) {
        return *f;
    }
    o.obj.emplace_back(key, MV{});
    return o.obj.back().second;
}
void make_obj(MV &m) {
    if (m.k != MK::Obj) {
        m   = MV{};
        m.k = MK::Obj;
    }
}
void make_arr(MV &m) {
    if (m.k != MK::Arr) {
        m   = MV{};
        m.k = MK::Arr;
    }
}
void obj_merge(MV &dst, const MV &src, bool move = false) { // moved values keep their removed-entry state, copies drop it
    for (auto &kv : src.obj) {
        MV *f = obj_find(dst, kv.first);
        if (f != nullptr) {
            *f = move ? kv.second : deep_copy(kv.second);
        } else {
            dst.obj.emplace_back(kv.first, move ? kv.second : deep_copy(kv.second));
        }
    }
}

// expected Stringify text (top level: containers only, like the library)
Str json_escape(const Str &s) {
    Str o;
    for (char c : s) {
        switch (c) {
            case '"': o += "\\\""; break;
            case '\\': o += "\\\\"; break;
            case '/': o += "\\/"; break;
            case '\b': o += "\\b"; break;
            case '\t': o += "\\t"; break;
            case '\n': o += "\\n"; break;
            case '\f': o += "\\f"; break;
            case '\r': o += "\\r"; break;
            default: o.push_back(c);
        }
    }
    return o;
}
void text_of(const Model &md, const MV &m0, Str &o) {
    const MV &m = md.deref(m0);
    char      b[64];
    switch (m.k) {
        case MK::Null: o += "null"; break;
        case MK::True: o += "true"; break;
        case MK::False: o += "false"; break;
        case MK::UInt: o += std::to_string(m.u); break;
        case MK::Int: o += std::to_string(m.i); break;
        case MK::Real:
            snprintf(b, sizeof b, "%.17g", m.d);
            o += b;
            break;
        case MK::Str: o += "\"" + json_escape(m.s) + "\""; break;
        case MK::Arr: {
            o += "[";
            bool first = true;
            for (auto &c : m.arr) {
                if (c.k == MK::Undef) {
                    continue;
                }
                if (!first) {
                    o += ",";
                }
                first = false;
                text_of(md, c, o);
            }
            o += "]";
            break;
        }
        case MK::Obj: {
            o += "{";
            bool first = true;
            for (auto &kv : m.obj) {
                if (kv.second.k == MK::Undef) { // a pointer member is written through stringifyValue even when its target is Undefined (prints nothing)
                    continue;
                }
                if (!first) {
                    o += ",";
                }
                first = false;
                o += "\"" + json_escape(kv.first) + "\":";
                text_of(md, kv.second, o);
            }
            o += "}";
            break;
        }
        default: break;
    }
}

// ------------------------------------------------------------------------------------------------ comparison of all reads
struct Checker {
    const Model &md;
    pbt::Ctx    &ctx;
    const char  *after;
    [[noreturn]] void bad(const Str &path, const Str &why) { ctx.fail("value-model-mismatch", Str("after ") + after + " at " + path + ": " + why); }

    void check(const VC &v, const MV &m0, const Str &path) {
        const MV &m      = md.deref(m0);
        const bool is_ptr = (m0.k == MK::Ptr);
        // kind predicates (read through pointers)
        struct P {
            bool        got;
            MK          k;
            const char *n;
        } ps[] = {{v.IsUndefined(), MK::Undef, "IsUndefined"}, {v.IsNull(), MK::Null, "IsNull"},     {v.IsTrue(), MK::True, "IsTrue"},
                  {v.IsFalse(), MK::False, "IsFalse"},         {v.IsUInt64(), MK::UInt, "IsUInt64"}, {v.IsInt64(), MK::Int, "IsInt64"},
                  {v.IsDouble(), MK::Real, "IsDouble"},        {v.IsString(), MK::Str, "IsString"},  {v.IsArray(), MK::Arr, "IsArray"},
                  {v.IsObject(), MK::Obj, "IsObject"}};
        for (auto &p : ps) {
            if (p.got != (m.k == p.k)) {
                bad(path, Str(p.n) + "() is " + (p.got ? "true" : "false") + " but the model kind is " + std::to_string(int(m.k)));
            }
        }
        if (v.IsNumber() != (m.k == MK::UInt || m.k == MK::Int || m.k == MK::Real)) {
            bad(path, "IsNumber");
        }
        if (!is_ptr) {
            static const ValueType map[] = {ValueType::Undefined, ValueType::Null,   ValueType::True,  ValueType::False, ValueType::UIntLong, ValueType::IntLong,
                                            ValueType::Double,    ValueType::String, ValueType::Array, ValueType::Object};
            if (v.Type() != map[int(m.k)]) {
                bad(path, "Type() is " + std::to_string(int(v.Type())));
            }
        } else if (v.Type() != ValueType::ValuePtr) {
            bad(path, "Type() should be ValuePtr");
        }
        QNumberType nt = v.GetNumberType();
        QNumberType en = m.k == MK::UInt ? QNumberType::Natural : m.k == MK::Int ? QNumberType::Integer : m.k == MK::Real ? QNumberType::Real : QNumberType::NotANumber;
        if (nt != en) {
            bad(path, "GetNumberType");
        }
        check_coercions(v, m, path);
        switch (m.k) {
            case MK::Str: {
                const String<char> *s = v.GetString();
                if (s == nullptr || Str(s->First() ? s->First() : "", s->Length()) != m.s || v.Length() != m.s.size() ||
                    Str(v.StringStorage() ? v.StringStorage() : "", v.Length()) != m.s) {
                    bad(path, "string content, expected '" + m.s + "'");
                }
                StringView<char> sv = v.GetStringView();
                if (Str(sv.First() ? sv.First() : "", sv.Length()) != m.s) {
                    bad(path, "GetStringView");
                }
                if (v.Size() != 0) {
                    bad(path, "Size() of a string");
                }
                break;
            }
            case MK::Arr: {
                if (v.Size() != m.arr.size()) {
                    bad(path, "array Size() " + std::to_string(v.Size()) + " model " + std::to_string(m.arr.size()));
                }
                if (v.GetArray() == nullptr || v.GetObject() != nullptr) {
                    bad(path, "GetArray/GetObject");
                }
                for (size_t i = 0; i < m.arr.size(); ++i) {
                    const VC *c  = v.GetValue(SizeT(i));
                    Str       p2 = path + "[" + std::to_string(i) + "]";
                    bool      undef = (md.deref(m.arr[i]).k == MK::Undef) && m.arr[i].k != MK::Ptr;
                    // GetValue hides Undefined elements (a pointer element is defined even if its target is not)
                    if (undef) {
                        if (c != nullptr) {
                            bad(p2, "GetValue returns an element the model holds as Undefined");
                        }
                        continue;
                    }
                    if (c == nullptr) {
                        bad(p2, "GetValue(index) is null for a defined element");
                    }
                    // by numeric-string key too
                    Str       ks = std::to_string(i);
                    const VC *ck = v.GetValue(ks.c_str(), SizeT(ks.size()));
                    if (ck != c) {
                        bad(p2, "GetValue(\"index\") differs from GetValue(index)");
                    }
                    check(*c, m.arr[i], p2);
                }
                if (v.GetValue(SizeT(m.arr.size())) != nullptr || v.GetKey(0) != nullptr) {
                    bad(path, "GetValue past the end / GetKey on an array");
                }
                break;
            }
            case MK::Obj: {
                const SizeT sz = v.Size();
                if (m.tombstone_free ? (sz != m.obj.size()) : (sz < m.obj.size())) {
                    bad(path, "object Size() " + std::to_string(sz) + " model live members " + std::to_string(m.obj.size()));
                }
                if (v.GetObject() == nullptr || v.GetArray() != nullptr) {
                    bad(path, "GetObject/GetArray");
                }
                // iteration: the live members in order
                size_t next = 0;
                for (SizeT i = 0; i < sz; ++i) {
                    const String<char> *key = v.GetKey(i);
                    if (key == nullptr) {
                        if (m.tombstone_free) {
                            bad(path, "slot " + std::to_string(i) + " has no key although nothing was removed");
                        }
                        if (v.GetValue(i) != nullptr) {
                            bad(path, "slot without key has a value");
                        }
                        continue;
                    }
                    if (next >= m.obj.size()) {
                        bad(path, "iteration yields more members than the model holds");
                    }
                    Str ks(key->First() ? key->First() : "", key->Length());
                    if (ks != m.obj[next].first) {
                        bad(path, "iteration order: slot " + std::to_string(i) + " has key '" + ks + "', model expects '" + m.obj[next].first + "'");
                    }
                    const MV &cm    = m.obj[next].second;
                    const VC *c     = v.GetValue(i);
                    bool      undef = (cm.k == MK::Undef);
                    Str       p2    = path + "." + ks;
                    if (undef ? (c != nullptr) : (c == nullptr)) {
                        bad(p2, "GetValue(index) presence");
                    }
                    const VC *ck = v.GetValue(ks.c_str(), SizeT(ks.size()));
                    if (ck != c) {
                        bad(p2, "GetValue(key) differs from GetValue(index)");
                    }
                    if (c != nullptr) {
                        check(*c, cm, p2);
                    }
                    ++next;
                }
                if (next != m.obj.size()) {
                    bad(path, "iteration visited " + std::to_string(next) + " members, model holds " + std::to_string(m.obj.size()));
                }
                for (const char *absent : {"zz-absent", "", "a\x01"}) {
                    bool in_model = false;
                    for (auto &kv : m.obj) {
                        in_model = in_model || kv.first == absent;
                    }
                    if (!in_model && v.GetValue(absent, SizeT(strlen(absent))) != nullptr) {
                        bad(path, Str("lookup of absent key '") + absent + "' succeeds");
                    }
                }
                break;
            }
            default: {
                if (v.Size() != 0 || v.GetValue(SizeT{0}) != nullptr || v.GetString() != nullptr || v.Length() != 0) {
                    bad(path, "container/string accessors on a scalar");
                }
            }
        }
    }

    void check_coercions(const VC &v, const MV &m, const Str &path) {
        QNumber64   n;
        QNumberType t = v.SetNumber(n);
        // expected
        QNumberType et = QNumberType::NotANumber;
        uint64_t    eu = 0;
        int64_t     ei = 0;
        double      ed = 0;
        switch (m.k) {
            case MK::UInt: et = QNumberType::Natural; eu = m.u; break;
            case MK::Int: et = QNumberType::Integer; ei = m.i; break;
            case MK::Real: et = QNumberType::Real; ed = m.d; break;
            case MK::True: et = QNumberType::Natural; eu = 1; break;
            case MK::False:
            case MK::Null: et = QNumberType::Natural; eu = 0; break;
            case MK::Str: {
                // numeric strings: decided by an independent reading of the text
                const Str &s = m.s;
                if (s == "12") { et = QNumberType::Natural; eu = 12; }
                else if (s == "-3") { et = QNumberType::Integer; ei = -3; }
                else if (s == "1.5") { et = QNumberType::Real; ed = 1.5; }
                else if (s == "1e2") { et = QNumberType::Real; ed = 100.0; }
                else if (s == "0") { et = QNumberType::Natural; eu = 0; }
                else if (s == "18446744073709551615") { et = QNumberType::Natural; eu = UINT64_MAX; }
                else { et = QNumberType::NotANumber; } // non-numeric payloads of the generator
                break;
            }
            default: break;
        }
        if (t != et) {
            bad(path, "SetNumber kind " + std::to_string(int(t)) + " expected " + std::to_string(int(et)));
        }
        double   gd = v.GetDouble(), gn = v.GetNumber();
        uint64_t gu = v.GetUInt64();
        int64_t  gi = v.GetInt64();
        switch (et) {
            case QNumberType::Natural:
                if (n.Natural != eu || gu != eu || gi != int64_t(eu) || gd != double(eu) || gn != double(eu)) {
                    bad(path, "unsigned coercions");
                }
                break;
            case QNumberType::Integer:
                if (n.Integer != ei || gi != ei || gu != uint64_t(ei) || gd != double(ei)) {
                    bad(path, "signed coercions");
                }
                break;
            case QNumberType::Real: {
                bool same = (std::memcmp(&n.Real, &ed, 8) == 0) || (n.Real == ed);
                if (!same || gd != ed) {
                    bad(path, "real coercions");
                }
                if (ed >= 9223372036854775808.0 && ed < 18446744073709551616.0) {
                    // fits an unsigned 64-bit integer but not a signed one: the unsigned reading is the integer part
                    if (gu != uint64_t(ed)) {
                        bad(path, "real coercions: GetUInt64 of " + std::to_string(ed) + " gave " + std::to_string(gu));
                    }
                } else if (std::fabs(ed) < 9223372036854775808.0) {
                    if (gi != int64_t(ed) || gu != uint64_t(int64_t(ed))) {
                        bad(path, "real coercions");
                    }
                }
                break;
            }
            default:
                if (gd != 0.0 || gu != 0 || gi != 0) {
                    bad(path, "non-numeric value must coerce to 0");
                }
        }
        bool bv = false;
        bool bs = v.SetBool(bv);
        bool es = true, eb = false;
        switch (m.k) {
            case MK::True: eb = true; break;
            case MK::False:
            case MK::Null: eb = false; break;
            case MK::UInt: eb = m.u > 0; break;
            case MK::Int: eb = m.i > 0; break;
            case MK::Real: eb = m.d > 0; break;
            case MK::Str:
                if (m.s == "true") {
                    eb = true;
                } else if (m.s == "false") {
                    eb = false;
                } else {
                    es = false;
                }
                break;
            default: es = false;
        }
        if (bs != es || (es && bv != eb)) {
            bad(path, "SetBool");
        }
    }
};

// ------------------------------------------------------------------------------------------------ program
static const char *kKeys[] = {"a", "b", "k", "key", "", "a b"};
static const char *kStrs[] = {"12", "-3", "1.5", "1e2", "abc", "", "true", "false", "x/y", "q\"uote", "tab\there", "0", "18446744073709551615"};

struct Runner {
    Entropy     &e;
    World       &w;
    Model       &md;
    pbt::Ctx    &ctx;
    Str          trace;
    bool         interesting{false};
    int          gen2{0};

    // a target: library node + model node + root index
    struct Tgt {
        VC  *v;
        MV  *m;
        int  root;
        bool through_tombstones; // path crosses an object that holds tombstones (positional access unavailable)
    };

    Tgt pick_target(bool allow_targets_roots = true) {
        int r = int(e.below(allow_targets_roots ? kPool : kTargets));
        Tgt t{&w.pool[r], &md.root[r], r, false};
        unsigned steps = e.below(4);
        trace += "@root" + std::to_string(r);
        for (unsigned s = 0; s < steps; ++s) {
            MV &m = *t.m;
            if (m.k == MK::Arr && !m.arr.empty()) {
                size_t i = e.below(uint32_t(m.arr.size()));
                if (m.arr[i].k == MK::Ptr) {
                    break; // never write through a pointer
                }
                VC *c = t.v->GetValue(SizeT(i));
                if (c == nullptr) { // Undefined element: reachable through operator[] only
                    c = &((*t.v)[SizeT(i)]);
                }
                t.v = c;
                t.m = &m.arr[i];
                trace += "[" + std::to_string(i) + "]";
            } else if (m.k == MK::Obj && !m.obj.empty()) {
                size_t i = e.below(uint32_t(m.obj.size()));
                if (m.obj[i].second.k == MK::Ptr) {
                    break;
                }
                VC &c = (*t.v)[m.obj[i].first.c_str()]; // existing key: get
                t.v   = &c;
                t.m   = &m.obj[i].second;
                trace += "." + m.obj[i].first;
            } else {
                break;
            }
        }
        trace += ":";
        return t;
    }

    // scalar / string payload assigned through a generated overload; fills the model node
    void assign_scalar(VC &v, MV &m) {
        m = MV{};
        switch (e.below(14)) {
            case 0: v = nullptr; m.k = MK::Null; trace += "=null;"; break;
            case 1: v = true; m.k = MK::True; trace += "=true;"; break;
            case 2: v = false; m.k = MK::False; trace += "=false;"; break;
            case 3: {
                uint64_t x = e.chance(50) ? e.below(100) : (e.chance(50) ? UINT64_MAX : e.u64());
                v          = SizeT64(x);
                m.k        = MK::UInt;
                m.u        = x;
                trace += "=u64;";
                break;
            }
            case 4: {
                unsigned x = unsigned(e.below(1000));
                v          = x;
                m.k        = MK::UInt;
                m.u        = x;
                trace += "=unsigned;";
                break;
            }
            case 5: {
                int64_t x = e.chance(50) ? int64_t(e.below(200)) - 100 : (e.chance(50) ? INT64_MIN : int64_t(e.u64()));
                v         = SizeT64I(x);
                m.k       = MK::Int;
                m.i       = x;
                trace += "=i64;";
                break;
            }
            case 6: {
                int x = int(e.below(2000)) - 1000;
                v     = x;
                m.k   = MK::Int;
                m.i   = x;
                trace += "=int;";
                break;
            }
            case 7: {
                static const double ds[] = {0.0, -0.0, 1.5, -2.25, 0.1, 1e15, -1e-7, 4611686018427387904.0 / 4, 3.0, -7.0, 100.0};
                const unsigned      di  = e.below(11);
                double              d   = ds[di];
                if (gen2 != 0 && di == 10) {
                    d = 1e19; // a real between 2^63 and 2^64: exactly representable as an unsigned 64-bit integer
                } else if (gen2 != 0 && di == 8) {
                    d = 9223372036854775808.0; // 2^63
                }
                if (e.chance(30)) {
                    v = float(d);
                    d = double(float(d));
                } else {
                    v = d;
                }
                m.k = MK::Real;
                m.d = d;
                trace += "=double;";
                break;
            }
            default: {
                Str s = kStrs[e.below(13)];
                m.k   = MK::Str;
                m.s   = s;
                switch (e.below(6)) {
                    case 0: v = s.c_str(); trace += "=cstr;"; break;
                    case 1: v = String<char>{s.c_str(), SizeT(s.size())}; trace += "=String&&;"; break;
                    case 2: {
                        String<char> t{s.c_str(), SizeT(s.size())};
                        v = static_cast<const String<char> &>(t);
                        trace += "=const String&;";
                        break;
                    }
                    case 3: {
                        String<char>        t{s.c_str(), SizeT(s.size())};
                        const String<char> *p = &t;
                        v                     = p;
                        trace += "=const String*;";
                        break;
                    }
                    case 4: v = StringView<char>{s.c_str(), SizeT(s.size())}; trace += "=StringView;"; break;
                    default: v = VC{s.c_str(), SizeT(s.size())}; trace += "=Value{ptr,len};"; break;
                }
            }
        }
    }

    // further operations of the second generation (reached through operation 38)
    void gen2_more(Tgt &t, unsigned how, unsigned size) {
        MV &m = *t.m;
        switch (how) {
            case 4: { // v = ValueType: the value becomes an empty value of that kind, whatever it held
                static const ValueType kinds[] = {ValueType::Object, ValueType::Array, ValueType::Null, ValueType::True, ValueType::False, ValueType::Undefined};
                const unsigned         k       = size % 6;
                *t.v = kinds[k];
                m    = MV{};
                m.k  = (MK[]){MK::Obj, MK::Arr, MK::Null, MK::True, MK::False, MK::Undef}[k];
                trace += "=ValueType;";
                interesting = true;
                break;
            }
            case 5: // a container appended / merged to itself: an object stays as it is, an array is doubled by Merge and gets itself as a new element by +=
            case 6: {
                if (has_ptr(m) || (m.k != MK::Obj && m.k != MK::Arr)) {
                    break;
                }
                const MV before = deep_copy(m);
                if (how == 5) {
                    *t.v += static_cast<const VC &>(*t.v);
                    if (m.k == MK::Arr) {
                        m.arr.push_back(before);
                    }
                    trace += "+=copy(self);";
                } else {
                    t.v->Merge(static_cast<const VC &>(*t.v));
                    if (m.k == MK::Arr) {
                        for (auto &x : before.arr) {
                            if (!(x.k == MK::Undef)) {
                                m.arr.push_back(x);
                            }
                        }
                    }
                    trace += "Merge(copy self);";
                }
                interesting = true;
                break;
            }
            case 9:
                if (gen2 >= 2) { // a reserved array: room it does not use, elements written into the room - some of them arrays that lose an
                                 // element -, then (mostly) Compress(): removed elements go at every level, whatever the capacities are
                    const unsigned room = 2 + size;
                    *t.v                = VC{ValueType::Array, SizeT(room)};
                    m                   = MV{};
                    m.k                 = MK::Arr;
                    const unsigned n    = 1 + e.below(room - 1);
                    for (unsigned i = 0; i < n; ++i) {
                        MV x;
                        if (e.chance(50)) {
                            VC             nested;
                            const unsigned cnt = 1 + e.below(4);
                            x.k                = MK::Arr;
                            for (unsigned j = 0; j < cnt; ++j) {
                                nested += SizeT64(j + 1);
                                MV y;
                                y.k = MK::UInt;
                                y.u = j + 1;
                                x.arr.push_back(y);
                            }
                            if (e.chance(70)) {
                                const unsigned idx = e.below(cnt);
                                nested.RemoveIndex(SizeT(idx));
                                x.arr[idx] = MV{};
                            }
                            (*t.v)[SizeT(i)] = Memory::Move(nested);
                        } else {
                            (*t.v)[SizeT(i)] = SizeT64(i);
                            x.k              = MK::UInt;
                            x.u              = i;
                        }
                        m.arr.push_back(x);
                    }
                    trace += "=reserved-array(" + std::to_string(room) + "," + std::to_string(n) + ");";
                    if (e.chance(60)) {
                        t.v->Compress();
                        compress_model(m);
                        trace += "Compress;";
                    }
                    interesting = true;
                    ctx.label("reserved-array-with-nested-holes");
                    break;
                }
                // fall through
            case 8:
                if (gen2 >= 2 && m.k == MK::Obj && !m.obj.empty() && !has_ptr(m)) {
                    // an object gets one of its own members appended (v += v[key], copy or move) and the member is no object: the value
                    // becomes an array holding (a copy of) that member - what it held before goes only after the operand has been taken
                    const size_t i = (size >> 1) % m.obj.size();
                    VC          *c = t.v->GetValue(SizeT(i));
                    if (c == nullptr || m.obj[i].second.k == MK::Obj || m.obj[i].second.k == MK::Arr || m.obj[i].second.k == MK::Undef || !m.tombstone_free) {
                        break;
                    }
                    const MV taken = m.obj[i].second;
                    if ((size & 1) != 0) {
                        *t.v += Memory::Move(*c);
                        trace += "+=move(own member);";
                    } else {
                        *t.v += static_cast<const VC &>(*c);
                        trace += "+=copy(own member);";
                    }
                    m   = MV{};
                    m.k = MK::Arr;
                    m.arr.push_back(taken);
                    interesting = true;
                    ctx.label("object+=own-member");
                    break;
                }
                // fall through
            default: { // an own element / member moved to the end of its own array (a += move(a[i])): rotates it to the back, leaves Undefined behind
                if (m.k != MK::Arr || m.arr.empty() || has_ptr(m)) {
                    break;
                }
                const size_t i = size % m.arr.size();
                VC          *c = t.v->GetValue(SizeT(i));
                if (c == nullptr || m.arr[i].k == MK::Arr) { // (an array operand would be concatenated, not appended: kept out)
                    break;
                }
                MV moved = m.arr[i];
                *t.v += Memory::Move(*c);
                m.arr[i] = MV{};
                if (moved.k == MK::Obj && false) {
                    break;
                }
                m.arr.push_back(moved);
                trace += "+=move(own element);";
                interesting = true;
                break;
            }
        }
    }

    void append_model(MV &m, const MV &x) {
        make_arr(m);
        m.arr.push_back(x);
    }

    void step() {
        const unsigned op = e.below(40);
        switch (op) {
            case 0:
            case 1:
            case 2:
            case 3: { // scalar assignment
                Tgt t = pick_target();
                trace += "assign:";
                assign_scalar(*t.v, *t.m);
                break;
            }
            case 4: { // null String pointer: no-op
                Tgt                 t = pick_target();
                const String<char> *p = nullptr;
                *t.v                  = p;
                trace += "=nullptr String*;";
                break;
            }
            case 5: { // container assignment from ObjectT / ArrayT (copy or move)
                Tgt t = pick_target();
                if (e.chance(50)) {
                    HArray<String<char>, VC> o;
                    MV                       mo;
                    mo.k       = MK::Obj;
                    unsigned n = e.below(3);
                    for (unsigned i = 0; i < n; ++i) {
                        Str k = kKeys[e.below(6)];
                        o[k.c_str()] = int(i);
                        MV x;
                        x.k                      = MK::Int;
                        x.i                      = int(i);
                        obj_get_or_create(mo, k) = x;
                    }
                    if (e.chance(50)) {
                        *t.v = Memory::Move(o);
                    } else {
                        *t.v = static_cast<const HArray<String<char>, VC> &>(o);
                    }
                    *t.m = mo;
                    trace += "=ObjectT;";
                } else {
                    Array<VC> a;
                    MV        ma;
                    ma.k       = MK::Arr;
                    unsigned n = e.below(3);
                    for (unsigned i = 0; i < n; ++i) {
                        a += VC{unsigned(i)};
                        MV x;
                        x.k = MK::UInt;
                        x.u = i;
                        ma.arr.push_back(x);
                    }
                    if (e.chance(50)) {
                        *t.v = Memory::Move(a);
                    } else {
                        *t.v = static_cast<const Array<VC> &>(a);
                    }
                    *t.m = ma;
                    trace += "=ArrayT;";
                }
                break;
            }
            case 6:
            case 7: { // v = w / v = move(w) / through a temporary constructed from w, w a different root
                Tgt t = pick_target();
                int r = int(e.below(kPool));
                if (r == t.root) {
                    break;
                }
                if (t.root >= kTargets && has_ptr(md.root[r])) {
                    break; // targets stay pointer-free
                }
                if (has_ptr(md.root[r]) && t.root != r && false) {
                    break;
                }
                switch (e.below(4)) {
                    case 0: *t.v = static_cast<const VC &>(w.pool[r]); *t.m = deep_copy(md.root[r]); trace += "=copy(root);"; break;
                    case 1: {
                        VC tmp{static_cast<const VC &>(w.pool[r])};
                        *t.v = Memory::Move(tmp);
                        *t.m = deep_copy(md.root[r]);
                        trace += "=Value{copy};";
                        break;
                    }
                    case 2: {
                        if (r >= kTargets) {
                            break; // moving a pointer target away would leave readers looking at Undefined: allowed, but keep targets stable enough to be useful
                        }
                        *t.v       = Memory::Move(w.pool[r]);
                        *t.m       = md.root[r];
                        md.root[r] = MV{};
                        trace += "=move(root);";
                        interesting = true;
                        break;
                    }
                    default: {
                        if (r >= kTargets) {
                            break;
                        }
                        VC tmp{Memory::Move(w.pool[r])};
                        *t.m       = md.root[r];
                        md.root[r] = MV{};
                        *t.v       = Memory::Move(tmp);
                        trace += "=Value{move};";
                        break;
                    }
                }
                break;
            }
            case 8:
            case 9:
            case 10: { // += scalar / string
                Tgt t = pick_target();
                VC  tmp;
                MV  x;
                bool changes_kind = (t.m->k != MK::Arr && t.m->k != MK::Undef);
                switch (e.below(9)) {
                    case 0: *t.v += nullptr; x.k = MK::Null; break;
                    case 1: *t.v += true; x.k = MK::True; break;
                    case 2: *t.v += false; x.k = MK::False; break;
                    case 3: {
                        unsigned n = unsigned(e.below(50));
                        *t.v += n;
                        x.k = MK::UInt;
                        x.u = n;
                        break;
                    }
                    case 4: {
                        int n = int(e.below(50)) - 25;
                        *t.v += n;
                        x.k = MK::Int;
                        x.i = n;
                        break;
                    }
                    case 5: *t.v += 2.5; x.k = MK::Real; x.d = 2.5; break;
                    case 6: {
                        Str s = kStrs[e.below(13)];
                        *t.v += s.c_str();
                        x.k = MK::Str;
                        x.s = s;
                        break;
                    }
                    case 7: {
                        Str s = kStrs[e.below(13)];
                        if (e.chance(50)) {
                            *t.v += String<char>{s.c_str(), SizeT(s.size())};
                        } else {
                            String<char> st{s.c_str(), SizeT(s.size())};
                            *t.v += static_cast<const String<char> &>(st);
                        }
                        x.k = MK::Str;
                        x.s = s;
                        break;
                    }
                    default: {
                        Str s = kStrs[e.below(13)];
                        *t.v += StringView<char>{s.c_str(), SizeT(s.size())};
                        x.k = MK::Str;
                        x.s = s;
                        break;
                    }
                }
                append_model(*t.m, x);
                trace += "+=scalar;";
                if (changes_kind) {
                    interesting = true;
                }
                break;
            }
            case 11:
            case 12: { // += Value (copy / move) of another root
                Tgt t = pick_target();
                int r = int(e.below(kTargets));
                if (r == t.root || (t.root >= kTargets && has_ptr(md.root[r]))) {
                    break;
                }
                bool move = e.chance(50);
                MV   src  = md.root[r];
                if (t.m->k == MK::Obj && src.k == MK::Obj) {
                    obj_merge(*t.m, src, move);
                } else {
                    append_model(*t.m, move ? src : deep_copy(src));
                }
                if (move) {
                    *t.v += Memory::Move(w.pool[r]);
                    md.root[r] = MV{};
                } else {
                    *t.v += static_cast<const VC &>(w.pool[r]);
                }
                trace += move ? "+=move(root);" : "+=copy(root);";
                break;
            }
            case 13: { // += ObjectT
                Tgt                      t = pick_target();
                HArray<String<char>, VC> o;
                MV                       mo;
                mo.k       = MK::Obj;
                unsigned n = e.below(3);
                for (unsigned i = 0; i < n; ++i) {
                    Str k        = kKeys[e.below(6)];
                    o[k.c_str()] = true;
                    MV x;
                    x.k                      = MK::True;
                    obj_get_or_create(mo, k) = x;
                }
                if (t.m->k == MK::Obj) {
                    obj_merge(*t.m, mo);
                } else {
                    append_model(*t.m, mo);
                }
                if (e.chance(50)) {
                    *t.v += Memory::Move(o);
                } else {
                    *t.v += static_cast<const HArray<String<char>, VC> &>(o);
                }
                trace += "+=ObjectT;";
                break;
            }
            case 14: { // += ArrayT (non-empty concatenates, empty appends one empty array)
                Tgt       t = pick_target();
                Array<VC> a;
                MV        ma;
                ma.k       = MK::Arr;
                unsigned n = e.below(3);
                for (unsigned i = 0; i < n; ++i) {
                    a += VC{int(i)};
                    MV x;
                    x.k = MK::Int;
                    x.i = int(i);
                    ma.arr.push_back(x);
                }
                make_arr(*t.m);
                if (n != 0) {
                    t.m->arr.insert(t.m->arr.end(), ma.arr.begin(), ma.arr.end());
                } else {
                    t.m->arr.push_back(ma);
                }
                if (e.chance(50)) {
                    *t.v += Memory::Move(a);
                } else {
                    *t.v += static_cast<const Array<VC> &>(a);
                }
                trace += "+=ArrayT;";
                break;
            }
            case 15:
            case 16:
            case 17:
            case 18: { // keyed get-or-create, then optionally assign
                Tgt  t = pick_target();
                Str  k = kKeys[e.below(6)];
                bool changes_kind = (t.m->k != MK::Obj && t.m->k != MK::Undef);
                VC  *c;
                switch (e.below(6)) {
                    case 0: c = &((*t.v)[k.c_str()]); break;
                    case 1: c = &((*t.v)[String<char>{k.c_str(), SizeT(k.size())}]); break;
                    case 2: {
                        String<char> ks{k.c_str(), SizeT(k.size())};
                        c = &((*t.v)[static_cast<const String<char> &>(ks)]);
                        break;
                    }
                    case 3: c = &((*t.v)[StringView<char>{k.c_str(), SizeT(k.size())}]); break;
                    case 4: c = &(t.v->Get(k.c_str(), SizeT(k.size()))); break;
                    default: c = &(t.v->Get(StringView<char>{k.c_str(), SizeT(k.size())})); break;
                }
                make_obj(*t.m);
                MV &cm = obj_get_or_create(*t.m, k);
                trace += "[" + k + "]";
                if (e.chance(75)) {
                    assign_scalar(*c, cm);
                } else {
                    trace += "(created);";
                }
                if (changes_kind) {
                    interesting = true;
                }
                break;
            }
            case 19: { // Insert(key, value)
                Tgt t = pick_target();
                Str k = kKeys[e.below(6)];
                VC  tmp;
                MV  x;
                assign_scalar(tmp, x);
                t.v->Insert(StringView<char>{k.c_str(), SizeT(k.size())}, Memory::Move(tmp));
                make_obj(*t.m);
                obj_get_or_create(*t.m, k) = x;
                trace += "Insert(" + k + ");";
                break;
            }
            case 20:
            case 21:
            case 22: { // indexed access
                Tgt   t = pick_target();
                MV   &m = *t.m;
                SizeT idx;
                if (m.k == MK::Obj) {
                    if (!m.tombstone_free) {
                        break; // slot numbers of an object with removed entries are not part of the contract
                    }
                    idx = SizeT(e.below(uint32_t(m.obj.size()) + 2));
                } else if (m.k == MK::Arr) {
                    idx = SizeT(e.below(uint32_t(m.arr.size()) + 3));
                } else {
                    idx = SizeT(e.below(3));
                }
                VC &c  = (*t.v)[idx];
                MV *cm = nullptr;
                if (m.k == MK::Obj && idx < m.obj.size()) {
                    cm = &m.obj[idx].second;
                } else {
                    if (m.k != MK::Arr) {
                        interesting = interesting || (m.k != MK::Undef);
                        make_arr(m);
                    }
                    if (idx >= m.arr.size()) {
                        m.arr.resize(idx + 1);
                    }
                    cm = &m.arr[idx];
                }
                trace += "[" + std::to_string(idx) + "]";
                if (cm->k == MK::Ptr) {
                    trace += "(ptr, left alone);";
                } else if (e.chance(70)) {
                    assign_scalar(c, *cm);
                } else {
                    trace += "(touched);";
                }
                break;
            }
            case 23:
            case 24: { // Merge
                Tgt t = pick_target();
                int r = int(e.below(kTargets));
                if (r == t.root || (t.root >= kTargets && has_ptr(md.root[r]))) {
                    break;
                }
                bool move = e.chance(50);
                MV  &m    = *t.m;
                MV   src  = md.root[r];
                if (m.k == MK::Undef) {
                    m.k = MK::Arr;
                }
                if (m.k == MK::Arr && src.k == MK::Arr) {
                    for (auto &x : src.arr) {
                        // Merge skips Undefined elements (a pointer element counts as defined)
                        if (!(x.k == MK::Undef)) {
                            m.arr.push_back(move ? x : deep_copy(x));
                        }
                    }
                } else if (m.k == MK::Obj && src.k == MK::Obj) {
                    obj_merge(m, src, move);
                }
                if (move) {
                    t.v->Merge(Memory::Move(w.pool[r]));
                    md.root[r] = MV{};
                } else {
                    t.v->Merge(static_cast<const VC &>(w.pool[r]));
                }
                trace += move ? "Merge(move);" : "Merge(copy);";
                break;
            }
            case 25:
            case 26:
            case 27: { // Remove by key
                Tgt t = pick_target();
                Str k = (t.m->k == MK::Obj && !t.m->obj.empty() && e.chance(70)) ? t.m->obj[e.below(uint32_t(t.m->obj.size()))].first : Str(kKeys[e.below(6)]);
                switch (e.below(3)) {
                    case 0: t.v->Remove(k.c_str(), SizeT(k.size())); break;
                    case 1: t.v->Remove(k.c_str()); break;
                    default: {
                        String<char> ks{k.c_str(), SizeT(k.size())};
                        t.v->Remove(static_cast<const String<char> &>(ks));
                        ctx.label("Remove(const String&)");
                        break;
                    }
                }
                if (t.m->k == MK::Obj) {
                    for (size_t i = 0; i < t.m->obj.size(); ++i) {
                        if (t.m->obj[i].first == k) {
                            t.m->obj.erase(t.m->obj.begin() + long(i));
                            t.m->tombstone_free = false;
                            interesting         = true;
                            break;
                        }
                    }
                }
                trace += "Remove(" + k + ");";
                break;
            }
            case 28:
            case 29: { // RemoveIndex
                Tgt t = pick_target();
                MV &m = *t.m;
                if (m.k == MK::Obj && !m.tombstone_free) {
                    break;
                }
                SizeT idx = SizeT(e.below(uint32_t(std::max(m.arr.size(), m.obj.size())) + 2));
                t.v->RemoveIndex(idx);
                if (m.k == MK::Arr && idx < m.arr.size()) {
                    m.arr[idx]  = MV{};
                    interesting = true;
                } else if (m.k == MK::Obj && idx < m.obj.size()) {
                    m.obj.erase(m.obj.begin() + long(idx));
                    m.tombstone_free = false;
                    interesting      = true;
                }
                trace += "RemoveIndex(" + std::to_string(idx) + ");";
                break;
            }
            case 30: { // Reset
                Tgt t = pick_target();
                t.v->Reset();
                *t.m = MV{};
                trace += "Reset;";
                break;
            }
            case 31:
            case 32: { // Compress
                Tgt t = pick_target();
                t.v->Compress();
                compress_model(*t.m);
                trace += "Compress;";
                break;
            }
            case 33:
            case 34: { // pointer to a target root
                Tgt t   = pick_target(false);
                int tgt = kTargets + int(e.below(kPool - kTargets));
                if (e.chance(50)) {
                    t.v->SetPointerToValue(&w.pool[tgt]);
                    *t.m        = MV{};
                    t.m->k      = MK::Ptr;
                    t.m->target = tgt;
                    trace += "SetPointerToValue;";
                } else {
                    t.v->AddPointerToValue(&w.pool[tgt]);
                    MV p;
                    p.k      = MK::Ptr;
                    p.target = tgt;
                    append_model(*t.m, p);
                    trace += "AddPointerToValue;";
                }
                interesting = true;
                break;
            }
            case 35: { // (SetPointerToValue(nullptr) is not generated: what it leaves behind is not documented)
                Tgt t = pick_target();
                t.v->Reset();
                *t.m = MV{};
                trace += "Reset;";
                break;
            }
            case 36: { // copies are deep and independent: copy a root, mutate the copy, the original must not change (checked by the global compare)
                int r = int(e.below(kPool));
                VC  cp{static_cast<const VC &>(w.pool[r])};
                cp["mutated"] = 1;
                cp += 2;
                cp.Reset();
                trace += "copy-then-mutate-copy;";
                break;
            }
            case 37: { // self copy / self move assignment are no-ops
                int r = int(e.below(kPool));
                VC &x = w.pool[r];
                x     = static_cast<const VC &>(x);
                trace += "self-assign;";
                break;
            }
            case 38:
                if (gen2 != 0) { // += / Merge of a temporary container that was constructed with a size and never filled (it owns storage, holds nothing)
                    Tgt            t    = pick_target();
                    const bool     obj  = e.chance(60);
                    const unsigned size = 1 + e.below(9);
                    const unsigned how  = e.below(10);
                    if (how >= 4) {
                        gen2_more(t, how, size);
                        break;
                    }
                    VC             tmp{obj ? ValueType::Object : ValueType::Array, SizeT(size)};
                    MV             src;
                    src.k = obj ? MK::Obj : MK::Arr;
                    if (how < 2) { // operator+=
                        if (!(t.m->k == MK::Obj && src.k == MK::Obj)) {
                            append_model(*t.m, src);
                        }
                        if (how == 0) {
                            *t.v += Memory::Move(tmp);
                        } else {
                            *t.v += static_cast<const VC &>(tmp);
                        }
                        trace += how == 0 ? "+=move(sized-empty);" : "+=copy(sized-empty);";
                    } else { // Merge: arrays concatenate, objects merge, an Undefined receiver becomes an array
                        MV &m = *t.m;
                        if (m.k == MK::Undef) {
                            m.k = MK::Arr;
                        }
                        if (how == 2) {
                            t.v->Merge(Memory::Move(tmp));
                        } else {
                            t.v->Merge(static_cast<const VC &>(tmp));
                        }
                        trace += how == 2 ? "Merge(move sized-empty);" : "Merge(copy sized-empty);";
                    }
                    break;
                }
                // fall through
            case 39:
                if (gen2 != 0 && op == 39) { // v = v[i] / v = move(v[k]): a container replaced by (a copy of) one of its own descendants
                    Tgt t = pick_target();
                    if (has_ptr(*t.m)) {
                        break;
                    }
                    VC      *dv = t.v;
                    MV      *dm = t.m;
                    unsigned depth = 1 + e.below(2);
                    bool     moved_down = false;
                    for (unsigned s = 0; s < depth; ++s) {
                        if (dm->k == MK::Arr && !dm->arr.empty()) {
                            size_t i = e.below(uint32_t(dm->arr.size()));
                            VC    *c = dv->GetValue(SizeT(i));
                            if (c == nullptr) {
                                break; // Undefined element: nothing to take
                            }
                            dv = c;
                            dm = &dm->arr[i];
                            moved_down = true;
                        } else if (dm->k == MK::Obj && !dm->obj.empty()) {
                            size_t i = e.below(uint32_t(dm->obj.size()));
                            VC    *c = dv->GetValue(dm->obj[i].first.data(), SizeT(dm->obj[i].first.size()));
                            if (c == nullptr) {
                                break; // member without a value
                            }
                            dv = c;
                            dm = &dm->obj[i].second;
                            moved_down = true;
                        } else {
                            break;
                        }
                    }
                    if (!moved_down) {
                        break;
                    }
                    const bool move = e.chance(40);
                    MV         taken = move ? *dm : deep_copy(*dm);
                    // through the Value overloads, or through the overloads that take the payload itself (ObjectT / ArrayT / String by const
                    // reference or rvalue, C string, view) - the payload sits inside the value being assigned to (chosen without entropy)
                    const unsigned how = unsigned(trace.size() + dm->obj.size() + dm->arr.size() + dm->s.size()) % 3;
                    using ObjT = HArray<String<char>, VC>;
                    using ArrT = Array<VC>;
                    if (how != 0 && dm->k == MK::Obj && dv->IsObject() && !has_ptr(*dm)) {
                        if (move) {
                            *t.v = Memory::Move(*const_cast<ObjT *>(dv->GetObject()));
                        } else {
                            *t.v = *dv->GetObject();
                        }
                        taken.tombstone_free = move ? dm->tombstone_free : true;
                        trace += move ? "=ObjectT&&(own descendant);" : "=const ObjectT&(own descendant);";
                    } else if (how != 0 && dm->k == MK::Arr && dv->IsArray() && !has_ptr(*dm)) {
                        if (move) {
                            *t.v = Memory::Move(*const_cast<ArrT *>(dv->GetArray()));
                        } else {
                            *t.v = *dv->GetArray();
                        }
                        trace += move ? "=ArrayT&&(own descendant);" : "=const ArrayT&(own descendant);";
                    } else if (how != 0 && dm->k == MK::Str && dv->IsString()) {
                        if (move) {
                            *t.v = Memory::Move(*const_cast<String<char> *>(dv->GetString()));
                            trace += "=String&&(own descendant);";
                        } else if (how == 1 && dm->s.find('\0') == Str::npos && dv->StringStorage() != nullptr) {
                            *t.v = dv->StringStorage();
                            trace += "=C-string(own descendant);";
                        } else if (how == 1) {
                            *t.v = dv->GetStringView();
                            trace += "=StringView(own descendant);";
                        } else {
                            *t.v = *dv->GetString();
                            trace += "=const String&(own descendant);";
                        }
                    } else if (move) {
                        *t.v = Memory::Move(*dv);
                        trace += "=move(own descendant);";
                    } else {
                        *t.v = static_cast<const VC &>(*dv);
                        trace += "=copy(own descendant);";
                    }
                    *t.m = taken;
                    interesting = true;
                    break;
                }
                // fall through
            default: { // directly constructed value then converted in place
                Tgt t = pick_target();
                Str s = kStrs[e.below(13)];
                // the temporaries live in a buffer pre-filled with 0xBE so that bytes a constructor leaves
                // uninitialised have a fixed, non-zero value (deterministic replay of uninitialised-read defects)
                alignas(VC) unsigned char buf[sizeof(VC)];
                memset(buf, 0xBE, sizeof buf);
                if (e.chance(50)) {
                    VC &d = *(new (buf) VC{s.c_str(), SizeT(s.size())});
                    d += 1;
                    *t.v = Memory::Move(d);
                    d.~VC();
                    MV m;
                    MV one;
                    one.k = MK::Int;
                    one.i = 1;
                    append_model(m, one);
                    *t.m = m;
                    trace += "Value{str}+=1;";
                } else {
                    VC &d  = *(new (buf) VC{5});
                    d["k"] = 2;
                    *t.v   = Memory::Move(d);
                    d.~VC();
                    MV m;
                    make_obj(m);
                    MV two;
                    two.k                     = MK::Int;
                    two.i                     = 2;
                    obj_get_or_create(m, "k") = two;
                    *t.m                      = m;
                    trace += "Value{5}[k]=2;";
                }
                interesting = true;
                ctx.label("direct-construction-then-conversion");
                break;
            }
        }
    }

    void compress_model(MV &m) {
        if (m.k == MK::Arr) {
            std::vector<MV> keep;
            for (auto &x : m.arr) {
                if (x.k != MK::Undef) {
                    keep.push_back(x);
                }
            }
            m.arr = keep;
            for (auto &x : m.arr) {
                if (x.k == MK::Arr || x.k == MK::Obj) {
                    compress_model(x);
                }
            }
        } else if (m.k == MK::Obj) {
            m.tombstone_free = true;
            for (auto &kv : m.obj) {
                if (kv.second.k == MK::Arr || kv.second.k == MK::Obj) {
                    compress_model(kv.second);
                }
            }
        }
    }
};

struct H {
    using Case = ::Case;
    static const char *name() { return "C12 Value as a JSON document"; }
    static rc::Gen<Case> gen() {
        using namespace rc;
        return gen::map(gen::tuple(gen::resize(400, gen::container<std::vector<uint8_t>>(gen::arbitrary<uint8_t>())), pbt::pick<int>({0, 1, 2, 2})),
                        [](std::tuple<std::vector<uint8_t>, int> t) {
                            Case c;
                            c.bytes = std::get<0>(t);
                            c.gen2  = std::get<1>(t);
                            return c;
                        });
    }
    // coverage-guided mode: the bytes are the entropy
    static bool from_fuzz(const uint8_t *d, size_t n, Case &c) {
        c.bytes.assign(d, d + n);
        c.gen2 = 2;
        return true;
    }
    static std::string to_text(const Case &c) {
        pbt::KV     kv;
        std::string hex;
        char        b[4];
        for (uint8_t x : c.bytes) {
            snprintf(b, sizeof b, "%02x", x);
            hex += b;
        }
        kv.put("bytes", hex);
        kv.put("gen2", c.gen2);
        return kv.text();
    }
    static Case from_text(const std::string &t) {
        pbt::KV     kv = pbt::KV::parse(t);
        Case        c;
        std::string hex = kv.get("bytes");
        for (size_t i = 0; i + 1 < hex.size(); i += 2) {
            c.bytes.push_back(uint8_t(strtoul(hex.substr(i, 2).c_str(), nullptr, 16)));
        }
        c.gen2 = int(kv.geti("gen2", 0));
        return c;
    }
    static void run(const Case &c, pbt::Ctx &ctx) {
        Entropy            e(c.bytes);
        pbt::Leaky<World>  world;
        Model              md;
        Runner             r{e, *world.w, md, ctx, "", false, c.gen2};
        unsigned           nops = 1 + e.below(60);
        for (unsigned s = 0; s < nops; ++s) {
            size_t mark = r.trace.size();
            r.step();
            Str     last = r.trace.substr(mark);
            {   // distribution of operations (evidence): the operation name is what follows the target path
                size_t c = last.find(':');
                Str    opn = (c == Str::npos) ? last : last.substr(c + 1);
                size_t e2 = opn.find_first_of(";([");
                if (e2 == 0 && !opn.empty() && opn[0] == '[') {
                    opn = (opn.find("](created)") != Str::npos || opn.find("](touched)") != Str::npos) ? "[]-get-or-create" : "[]-then-assign";
                } else if (e2 != Str::npos) {
                    opn = opn.substr(0, e2);
                }
                if (!opn.empty()) {
                    ctx.label("op:" + opn);
                }
            }
            Checker ck{md, ctx, last.c_str()};
            try {
                for (int i = 0; i < kPool; ++i) {
                    ck.check(world->pool[i], md.root[i], "root" + std::to_string(i));
                    // Stringify against the model's canonical text
                    Str expect;
                    if (md.deref(md.root[i]).k == MK::Arr || md.deref(md.root[i]).k == MK::Obj) {
                        text_of(md, md.root[i], expect);
                    }
                    StringStream<char> ss;
                    world->pool[i].Stringify(ss, 17U);
                    Str got(ss.First() ? ss.First() : "", ss.Length());
                    if (got != expect && !has_dangling_ptr(md, md.root[i])) {
                        ctx.fail("stringify-differs-from-model", "after " + last + " root" + std::to_string(i) + ": got " + got + " expected " + expect);
                    }
                }
            } catch (pbt::Failure &f) {
                f.msg += " | program: " + r.trace;
                throw;
            }
        }
        if (r.interesting) {
            ctx.nontrivial();
        }
        ctx.label("ops", true);
    }
};

} // namespace

PBT_MAIN(H)
