// C08 — Stringify(17) then Parse returns an equal tree; stringify-parse-stringify is a fixed point; when all strings
// are well-formed Unicode the text is RFC 8259-conformant and denotes the same tree.
// Trees are built through the public Value API by a generated construction program; the model is kept alongside.
#include "common/pbt.hpp"
#include "common/jmodel.hpp"

#include <deque>
#include <memory>

using namespace Qentem;

namespace {

struct Case {
    std::vector<uint8_t> bytes;
    int                  width{1};
    int                  alias{0}; // 2: as 1, and two of the pointer targets are an Undefined value and a pointer to it; 1: strings also hold look-alike code points (jm::look_alike_cps); absent in older replay files
    std::vector<uint64_t> nums;    // enumeration cases: the document is the array of these doubles (bit patterns)
    unsigned              huge_a{0}, huge_b{0}, huge_esc{0}; // "huge-strings" cases: ["<huge_a units>", "<huge_b units>"], the second with an escape in it or not
};

// Two strings of a million units and more in one array, in both orders: the stream that Stringify() writes to is already large when a
// single run several times its capacity arrives (and the same in the parser's scratch stream when the run follows an escape). The text
// is compared unit for unit with the one spelled here, parsed back and compared with the strings.
template <typename Char_T>
std::string huge_case(unsigned a, unsigned b, unsigned esc) {
    auto fill = [](String<Char_T> &str, unsigned n, unsigned salt, unsigned esc_at) {
        Char_T *p = str.Storage();
        for (unsigned i = 0; i < n; ++i) {
            p[i] = Char_T('a' + ((i * 7 + salt) % 26));
        }
        if (esc_at != 0 && esc_at < n) {
            p[esc_at] = Char_T('"');
        }
    };
    Value<Char_T> v;
    {
        String<Char_T> sa{SizeT(a)}, sb{SizeT(b)};
        fill(sa, a, 1, 0);
        fill(sb, b, 2, esc != 0 ? 5 : 0);
        v += Memory::Move(sa);
        v += Memory::Move(sb);
    }
    StringStream<Char_T> out;
    v.Stringify(out, 17U);
    const size_t want_len = 2 + a + 3 + b + (esc != 0 ? 1 : 0) + 2;
    if (size_t(out.Length()) != want_len) {
        return "text has " + std::to_string(out.Length()) + " units, expected " + std::to_string(want_len);
    }
    {
        const Char_T *t = out.First();
        size_t        k = 0;
        auto          expect_unit = [&](uint32_t u) { return jm::unit_of(t[k++]) == u; };
        bool          ok = expect_unit('[') && expect_unit('"');
        for (unsigned i = 0; ok && i < a; ++i) {
            ok = expect_unit('a' + ((i * 7 + 1) % 26));
        }
        ok = ok && expect_unit('"') && expect_unit(',') && expect_unit('"');
        for (unsigned i = 0; ok && i < b; ++i) {
            if (esc != 0 && i == 5) {
                ok = expect_unit('\\') && expect_unit('"');
            } else {
                ok = expect_unit('a' + ((i * 7 + 2) % 26));
            }
        }
        ok = ok && expect_unit('"') && expect_unit(']');
        if (!ok) {
            return "text differs from the spelled document at unit " + std::to_string(k - 1);
        }
    }
    Value<Char_T> back = JSON::Parse(out.First(), out.Length());
    if (!back.IsArray() || back.Size() != 2 || back.GetValue(0) == nullptr || back.GetValue(1) == nullptr || !back.GetValue(0)->IsString() || !back.GetValue(1)->IsString()) {
        return "the text does not parse back to an array of two strings";
    }
    for (int w = 0; w < 2; ++w) {
        const Value<Char_T> *x = back.GetValue(SizeT(w)), *y = v.GetValue(SizeT(w));
        if (x->Length() != y->Length() || memcmp(x->StringStorage(), y->StringStorage(), size_t(x->Length()) * sizeof(Char_T)) != 0) {
            return "string " + std::to_string(w) + " differs after the round trip";
        }
    }
    return "";
}

struct Flags {
    bool needs_escape{false}, removed{false}, real{false}, pointer{false}, illformed{false}, control{false};
    int  nodes{0};
};

template <typename Char_T>
struct Builder {
    jm::Entropy &e;
    Flags       &fl;
    // pointer targets: owned here, outlive every value that points at them
    std::deque<std::unique_ptr<Value<Char_T>>> targets;
    std::deque<jm::Node>                       target_models;
    static constexpr int                       W = int(sizeof(Char_T));
    int                                        alias{0};

    Builder(jm::Entropy &en, Flags &f) : e(en), fl(f) {}

    jm::Units gen_units(bool allow_nul) {
        jm::Units cps;
        unsigned  n = e.below(10);
        for (unsigned i = 0; i < n; ++i) {
            uint32_t c = jm::gen_cp(e);
            if (c == 0 && !allow_nul) {
                c = 'z';
            }
            if (c < 0x20 || c == '"' || c == '\\' || c == '/') {
                fl.needs_escape = true;
            }
            if (c < 0x20 && c != '\b' && c != '\t' && c != '\n' && c != '\f' && c != '\r') {
                fl.control = true;
            }
            cps.push_back(c);
        }
        jm::Units u = jm::encode(cps, W);
        if (e.chance(4) && !u.empty()) { // labelled class: ill-formed text (lone surrogate unit / stray continuation byte)
            fl.illformed = true;
            u.insert(u.begin() + long(e.below(uint32_t(u.size()))), W == 1 ? 0x80 + e.below(0x40) : W == 2 ? 0xD800 + e.below(0x800) : 0xD800 + e.below(0x800));
        }
        return u;
    }
    String<Char_T> to_string(const jm::Units &u) {
        jm::Buf<Char_T> b(u);
        return String<Char_T>{b.cp(), SizeT(b.n)};
    }

    void make_number(Value<Char_T> &out, jm::Node &m) {
        switch (e.below(9)) {
            case 0: {
                static const uint64_t us[] = {0, 1, 9007199254740992ULL, 9007199254740993ULL, 18446744073709551615ULL, 9223372036854775808ULL, 1000000, 4294967296ULL};
                uint64_t               v    = e.chance(50) ? us[e.below(8)] : e.u64() >> e.below(64);
                out                         = SizeT64(v);
                m.k                         = jm::K::UInt;
                m.u                         = v;
                break;
            }
            case 1: {
                unsigned v = unsigned(e.u64());
                out        = v;
                m.k        = jm::K::UInt;
                m.u        = v;
                break;
            }
            case 2: {
                static const int64_t is[] = {-1, INT64_MIN, INT64_MAX, -9007199254740993LL, 0, -1000000};
                int64_t               v    = e.chance(50) ? is[e.below(6)] : int64_t(e.u64()) >> e.below(64);
                out                        = SizeT64I(v);
                m.k                        = jm::K::Int;
                m.i                        = v;
                break;
            }
            case 3: {
                int v = int(e.u64());
                out   = v;
                m.k   = jm::K::Int;
                m.i   = v;
                break;
            }
            case 4: {
                float f = float(int(e.below(2000)) - 1000) / float(1u << e.below(8));
                out     = f;
                m.k     = jm::K::Real;
                m.d     = double(f);
                fl.real = true;
                break;
            }
            default: {
                static const double ds[] = {0.0, -0.0, 1.5, -2.25, 1e300, -1e-300, 4.9406564584124654e-324, 2.2250738585072014e-308, 1.7976931348623157e308,
                                            9007199254740993.0, 0.1, 1e21, 1e-7, 123456789012345678.0, 5.0, -7.0, 0.30000000000000004};
                double               d;
                if (e.chance(40)) {
                    const uint32_t di = e.below(17);
                    d                 = ds[di];
                    if (alias == 2 && (di & 1) != 0) {
                        // short decimals from 1e17 up (k x 10^e whose k x 5^e needs 53 bits or about that: the parser's exact / rounded switch)
                        static const double big[] = {2e22, 3e22, 1.7e22, 1.2345678901234e17, 2.500000000001e17, 2.9515e20, 9e22, 1e23};
                        d                         = big[(di >> 1) % 8];
                    }
                } else {
                    uint64_t b = (uint64_t(e.below(0x7FF)) << 52) | (e.u64() & 0xFFFFFFFFFFFFFULL) | (e.chance(30) ? 0x8000000000000000ULL : 0);
                    memcpy(&d, &b, 8);
                }
                out     = d;
                m.k     = jm::K::Real;
                m.d     = d;
                fl.real = true;
                break;
            }
        }
    }

    void make_string(Value<Char_T> &out, jm::Node &m) {
        uint32_t  how = e.below(5);
        jm::Units u   = gen_units(how != 0);
        m.k           = jm::K::Str;
        m.s           = u;
        switch (how) {
            case 0: { // C-string overload (no NUL inside)
                jm::Units z = u;
                z.push_back(0);
                jm::Buf<Char_T> b(z);
                out = static_cast<const Char_T *>(b.p);
                break;
            }
            case 1: out = to_string(u); break;                                  // String&&
            case 2: {
                String<Char_T> s = to_string(u);
                out              = s;                                           // const String&
                break;
            }
            case 3: {
                jm::Buf<Char_T> b(u);
                out = StringView<Char_T>{b.p, SizeT(b.n)};
                break;
            }
            default: {
                jm::Buf<Char_T> b(u);
                out = Value<Char_T>{b.cp(), SizeT(b.n)};
                break;
            }
        }
    }

    void make(Value<Char_T> &out, jm::Node &m, int depth) {
        ++fl.nodes;
        uint32_t pick = e.below(depth > 0 && fl.nodes < 60 ? 12 : 8);
        switch (pick) {
            case 0: out = nullptr; m.k = jm::K::Null; break;
            case 1: out = true; m.k = jm::K::True; break;
            case 2: out = false; m.k = jm::K::False; break;
            case 3:
            case 4: make_number(out, m); break;
            case 5:
            case 6: make_string(out, m); break;
            case 7: {
                if (depth > 0 && !targets.empty() && e.chance(60)) {
                    size_t t = e.below(uint32_t(targets.size()));
                    out.SetPointerToValue(targets[t].get());
                    m          = target_models[t];
                    fl.pointer = true;
                } else {
                    out = nullptr;
                    m.k = jm::K::Null;
                }
                break;
            }
            case 8:
            case 9: make_array(out, m, depth); break;
            default: make_object(out, m, depth); break;
        }
    }

    void make_array(Value<Char_T> &out, jm::Node &m, int depth) {
        m.k = jm::K::Arr;
        if (e.chance(50)) {
            out = Value<Char_T>{ValueType::Array};
        } else {
            out = Array<Value<Char_T>>{};
        }
        unsigned n = e.below(6);
        for (unsigned i = 0; i < n; ++i) {
            Value<Char_T> c;
            jm::Node      cm;
            make(c, cm, depth - 1);
            switch (e.below(4)) {
                case 0: out += c; break;                       // copy
                case 1: out[SizeT(m.arr.size())] = Memory::Move(c); break; // indexed write at the end
                case 2: {
                    if (cm.k == jm::K::Arr || cm.k == jm::K::Obj) {
                        out += Memory::Move(c);
                    } else {
                        out += Value<Char_T>{c};
                    }
                    break;
                }
                default: out += Memory::Move(c); break;
            }
            m.arr.push_back(cm);
        }
        // removals (elements become Undefined and are omitted from the text), possibly the last one or all of them
        if (!m.arr.empty() && e.chance(30)) {
            unsigned r = 1 + e.below(unsigned(m.arr.size()));
            for (unsigned k = 0; k < r; ++k) {
                size_t idx = e.chance(40) ? m.arr.size() - 1 : e.below(uint32_t(m.arr.size()));
                out.RemoveIndex(SizeT(idx));
                m.arr[idx]   = jm::Node{};
                m.arr[idx].k = jm::K::Undef;
                fl.removed   = true;
            }
        }
    }

    void make_object(Value<Char_T> &out, jm::Node &m, int depth) {
        m.k        = jm::K::Obj;
        out        = Value<Char_T>{ValueType::Object};
        unsigned n = e.below(6);
        for (unsigned i = 0; i < n; ++i) {
            Value<Char_T> c;
            jm::Node      cm;
            make(c, cm, depth - 1);
            bool      cstr = e.chance(30);
            jm::Units key  = e.chance(60) ? jm::encode(jm::gen_key(e), W) : gen_units(!cstr);
            if (cstr) {
                for (auto &x : key) {
                    if (x == 0) {
                        x = 'q';
                    }
                }
            }
            for (uint32_t x : key) {
                if (x < 0x20 || x == '"' || x == '\\' || x == '/') {
                    fl.needs_escape = true;
                }
            }
            if (cstr) {
                jm::Units z = key;
                z.push_back(0);
                jm::Buf<Char_T> b(z);
                out[static_cast<const Char_T *>(b.p)] = Memory::Move(c);
            } else {
                jm::Buf<Char_T> b(key);
                switch (e.below(4)) {
                    case 0: out.Get(b.p, SizeT(b.n)) = Memory::Move(c); break;
                    case 1: out.Insert(StringView<Char_T>{b.p, SizeT(b.n)}, Memory::Move(c)); break;
                    case 2: out[to_string(key)] = Memory::Move(c); break;
                    default: out[StringView<Char_T>{b.p, SizeT(b.n)}] = c; break;
                }
            }
            bool found = false;
            for (auto &kv : m.obj) {
                if (kv.first == key) {
                    kv.second = cm;
                    found     = true;
                }
            }
            if (!found) {
                m.obj.emplace_back(key, cm);
            }
        }
        if (!m.obj.empty() && e.chance(30)) {
            unsigned r = 1 + e.below(unsigned(m.obj.size()));
            for (unsigned k = 0; k < r && !m.obj.empty(); ++k) {
                size_t          idx = e.chance(40) ? m.obj.size() - 1 : e.below(uint32_t(m.obj.size()));
                jm::Buf<Char_T> b(m.obj[idx].first);
                out.Remove(b.p, SizeT(b.n));
                m.obj.erase(m.obj.begin() + long(idx));
                fl.removed = true;
            }
        }
    }
};

jm::Node prune(const jm::Node &n) { // what the text can carry: Undefined members are omitted
    jm::Node r = n;
    if (n.k == jm::K::Arr) {
        r.arr.clear();
        for (auto &c : n.arr) {
            if (c.k != jm::K::Undef) {
                r.arr.push_back(prune(c));
            }
        }
    } else if (n.k == jm::K::Obj) {
        r.obj.clear();
        for (auto &kv : n.obj) {
            if (kv.second.k != jm::K::Undef) {
                r.obj.emplace_back(kv.first, prune(kv.second));
            }
        }
    }
    return r;
}

jm::Node cps_to_units(const jm::Node &n, int width) {
    jm::Node r = n;
    if (n.k == jm::K::Str) {
        r.s = jm::encode(n.s, width);
    }
    for (auto &c : r.arr) {
        c = cps_to_units(c, width);
    }
    for (auto &kv : r.obj) {
        kv.first  = jm::encode(kv.first, width);
        kv.second = cps_to_units(kv.second, width);
    }
    return r;
}

template <typename Char_T>
void run_width(const Case &c, pbt::Ctx &ctx) {
    jm::look_alike_cps() = (c.alias != 0);
    jm::hash_twin_keys() = (c.alias == 2);
    jm::Entropy      e(c.bytes);
    Flags            fl;
    Builder<Char_T>  b(e, fl);
    b.alias = c.alias;
    // a few pointer targets first (simple, pointer-free)
    unsigned nt = e.below(3);
    for (unsigned i = 0; i < nt; ++i) {
        std::unique_ptr<Value<Char_T>> tv(new Value<Char_T>{});
        jm::Node                       tm;
        b.make(*tv, tm, 1); // may point at earlier targets only: no cycles
        b.targets.push_back(std::move(tv));
        b.target_models.push_back(tm);
    }
    if (c.alias == 2) {
        // one more target that is Undefined, and a pointer to it: a member that points there is left out like an Undefined member
        std::unique_ptr<Value<Char_T>> und(new Value<Char_T>{});
        jm::Node undef_model;
        undef_model.k = jm::K::Undef;
        b.targets.push_back(std::move(und));
        b.target_models.push_back(undef_model);
        std::unique_ptr<Value<Char_T>> hop(new Value<Char_T>{});
        hop->SetPointerToValue(b.targets.back().get());
        b.targets.push_back(std::move(hop));
        b.target_models.push_back(undef_model);
    }
    Value<Char_T> v;
    jm::Node      model;
    if (e.chance(50)) {
        b.make_array(v, model, 5);
    } else {
        b.make_object(v, model, 5);
    }
    if (fl.needs_escape || fl.removed || fl.real) {
        ctx.nontrivial();
    }
    ctx.label("has-escape-needing-string", fl.needs_escape);
    ctx.label("has-removed-member", fl.removed);
    ctx.label("has-real", fl.real);
    ctx.label("has-pointer-member", fl.pointer);
    ctx.label("has-ill-formed-string", fl.illformed);
    ctx.label("has-control-character", fl.control);

    const jm::Node expect = prune(model);
    StringStream<Char_T> ss;
    // the value that is stringified may itself be a pointer-to-value (one or two hops) to the tree
    Value<Char_T> hop1, hop2;
    hop1.SetPointerToValue(&v);
    hop2.SetPointerToValue(&hop1);
    const unsigned via = e.below(5);
    ctx.label(via == 3 ? "root-is-pointer" : via == 4 ? "root-is-pointer-to-pointer" : "root-is-container");
    (via == 3 ? hop1 : via == 4 ? hop2 : v).Stringify(ss, 17U);
    jm::Units text = jm::units_of(ss.First(), ss.Length());

    // (1) parse back: equal tree
    jm::CmpOpts op;
    op.exact_number_kind = false;
    op.ulp               = 0;
    op.strings_are_units = true;
    {
        jm::Buf<Char_T> tb(text);
        Value<Char_T>   back = JSON::Parse(tb.p, SizeT(tb.n));
        if (back.IsUndefined()) {
            ctx.fail("own-text-rejected", "Stringify output is rejected by Parse: " + jm::show(text));
        }
        std::string df = jm::compare(back, expect, op);
        if (!df.empty()) {
            ctx.fail("roundtrip-differs", df + " text=" + jm::show(text));
        }
        // (2) fixed point
        StringStream<Char_T> ss2;
        back.Stringify(ss2, 17U);
        if (jm::units_of(ss2.First(), ss2.Length()) != text) {
            ctx.fail("not-a-fixed-point", "stringify(parse(t)) != t: " + jm::show(text) + " vs " + jm::show(jm::units_of(ss2.First(), ss2.Length())));
        }
    }
    // (3) validity per RFC 8259 and same denotation, judged by the independent strict parser
    if (!fl.illformed) {
        jm::RefParser rp(text, int(sizeof(Char_T)));
        jm::Node      parsed;
        if (!rp.parse_document(parsed)) {
            std::string cls = "invalid-json-text";
            if (rp.err.find("unescaped control character") != std::string::npos) {
                cls = "control-character-not-escaped";
            }
            ctx.deviation(cls, "emitted text is not RFC 8259: " + rp.err + " text=" + jm::show(text));
        }
        std::string df = jm::node_diff(cps_to_units(parsed, int(sizeof(Char_T))), expect);
        if (!df.empty()) {
            ctx.fail("text-denotes-other-tree", df + " text=" + jm::show(text));
        }
    }
}

// an array of doubles: stringified with 17 digits, parsed back, every element equal in value; the text is a fixed point
template <typename Char_T>
void run_numbers(const Case &c, pbt::Ctx &ctx) {
    Value<Char_T> v;
    for (uint64_t b : c.nums) {
        double d;
        memcpy(&d, &b, 8);
        v += d;
    }
    StringStream<Char_T> ss;
    v.Stringify(ss, 17U);
    jm::Units       text = jm::units_of(ss.First(), ss.Length());
    jm::Buf<Char_T> tb(text);
    Value<Char_T>   back = JSON::Parse(tb.p, SizeT(tb.n));
    if (!back.IsArray() || back.Size() != SizeT(c.nums.size())) {
        ctx.fail("own-text-rejected", "array of doubles does not parse back to an array of the same length: " + jm::show(text));
    }
    for (SizeT i = 0; i < back.Size(); ++i) {
        double       d;
        const double got = back.GetValue(i) != nullptr ? back.GetValue(i)->GetNumber() : 0.0;
        memcpy(&d, &c.nums[i], 8);
        if (!(got == d)) {
            char m[160];
            snprintf(m, sizeof m, "element %u: %.17g came back as %.17g", unsigned(i), d, got);
            ctx.fail("roundtrip-differs", std::string(m) + " text=" + jm::show(text));
        }
    }
    StringStream<Char_T> ss2;
    back.Stringify(ss2, 17U);
    if (jm::units_of(ss2.First(), ss2.Length()) != text) {
        ctx.fail("not-a-fixed-point", "stringify(parse(t)) != t: " + jm::show(text));
    }
    ctx.nontrivial();
}

struct H {
    using Case = ::Case;
    static const char *name() { return "C08 stringify/parse round trip and validity"; }
    // "least-slack-<M>": arrays of 8 doubles walked with an even stride through the 12 binades whose top lies closest above a power of
    // ten (see C11), M million doubles per shard
    static std::string huge_run(const Case &c) {
        return c.width == 1 ? huge_case<char>(c.huge_a, c.huge_b, c.huge_esc) : c.width == 2 ? huge_case<char16_t>(c.huge_a, c.huge_b, c.huge_esc)
                                                                                               : huge_case<char32_t>(c.huge_a, c.huge_b, c.huge_esc);
    }
    static void enumerate(pbt::Ctx &ctx, unsigned shard, unsigned nshards, const std::string &what) {
        if (what == "huge-strings") {
            Qentem::MemoryRecord::data().enabled = false;
            ctx.check_ledger                     = false;
            static const unsigned pairs[][2] = {{1258291, 16777216 + 5}, {16777216 + 5, 1258291}, {4404019, 13000000}, {700000, 9000000}, {1048577, 5242881}, {2097153, 2097153}};
            unsigned              idx        = 0;
            for (auto &pr : pairs) {
                for (unsigned esc = 0; esc < 2; ++esc) {
                    for (int w : {1, 2, 4}) {
                        if ((idx++ % nshards) != shard) {
                            continue;
                        }
                        Case c;
                        c.width = w, c.huge_a = pr[0], c.huge_b = pr[1], c.huge_esc = esc;
                        ctx.set_cur(to_text(c));
                        ++ctx.evaluations;
                        ++ctx.nontrivial_counted;
                        ++ctx.nontrivial_total;
                        const std::string why = huge_run(c);
                        if (!why.empty()) {
                            ctx.failed    = true;
                            ctx.fail_cls  = "huge-strings";
                            ctx.fail_msg  = "[\"" + std::to_string(c.huge_a) + " units\",\"" + std::to_string(c.huge_b) + " units\"] in " + std::to_string(w) + "-byte units: " + why;
                            ctx.fail_text = to_text(c);
                            ctx.write_stats();
                            return;
                        }
                    }
                }
            }
            ctx.distinct_by_construction = true;
            ctx.exhaustive               = true;
            ctx.exhaustive_what          = "huge strings: 6 pairs of lengths (0.7 Mi .. 16 Mi units) x escape or none x 3 unit widths, sharded";
            return;
        }
        if (what.compare(0, 12, "least-slack-") != 0) {
            fprintf(stderr, "unknown enumeration %s\n", what.c_str());
            exit(3);
        }
        Qentem::MemoryRecord::data().enabled = false;
        ctx.check_ledger                     = false;
        struct Sliver {
            double   ratio;
            uint64_t lo, hi;
        };
        std::vector<Sliver> sl;
        for (int k = -1021; k <= 1023; ++k) {
            const double p = std::ldexp(1.0, k);
            char         b[32];
            snprintf(b, sizeof b, "1e%d", int(std::floor(std::log10(p))));
            const double t = strtod(b, nullptr);
            if (t > 0 && t <= p && p / t < 1.04) {
                Sliver x;
                x.ratio = p / t;
                memcpy(&x.lo, &t, 8);
                memcpy(&x.hi, &p, 8);
                if (x.hi > x.lo) {
                    sl.push_back(x);
                }
            }
        }
        std::sort(sl.begin(), sl.end(), [](const Sliver &a, const Sliver &b) { return a.ratio < b.ratio; });
        if (sl.size() > 12) {
            sl.resize(12);
        }
        const uint64_t total = strtoull(what.c_str() + 12, nullptr, 10) * 1000000ULL;
        const uint64_t per   = total / (sl.empty() ? 1 : sl.size());
        unsigned       wsel  = 0;
        for (const Sliver &x : sl) {
            const uint64_t span   = x.hi - x.lo;
            const uint64_t stride = span / (per * nshards) + 1;
            Case           c;
            for (uint64_t bts = x.lo + stride * shard % span, n = 0; n < per && bts < x.hi; bts += stride * nshards, ++n) {
                c.nums.push_back((n & 7) == 3 ? (bts | 0x8000000000000000ULL) : bts);
                if (c.nums.size() == 8) {
                    static const int w[] = {1, 2, 1, 4};
                    c.width              = w[wsel++ & 3];
                    if (pbt::exec_case_fast<H>(ctx, c) == pbt::Status::Fail) {
                        return;
                    }
                    ctx.evaluations += 7; // eight numbers per document
                    c.nums.clear();
                }
            }
        }
    }
    static rc::Gen<Case> gen() {
        using namespace rc;
        return gen::map(gen::tuple(gen::resize(300, gen::container<std::vector<uint8_t>>(gen::arbitrary<uint8_t>())), pbt::pick<int>({1, 1, 2, 4, 3}), pbt::pick<int>({0, 1, 2})),
                        [](std::tuple<std::vector<uint8_t>, int, int> t) {
                            Case c;
                            c.bytes = std::get<0>(t);
                            c.width = std::get<1>(t);
                            c.alias = std::get<2>(t);
                            return c;
                        });
    }
    // coverage-guided mode: selector byte, then entropy
    static bool from_fuzz(const uint8_t *d, size_t n, Case &c) {
        pbt::FuzzBytes f(d, n);
        static const int w[] = {1, 2, 4, 3};
        const uint8_t sel = f.sel();
        c.width = w[sel & 3];
        c.alias = ((sel >> 2) & 1) + ((sel >> 2) & (sel >> 3) & 1);
        c.bytes = f.rest();
        return true;
    }
    static std::string to_text(const Case &c) {
        pbt::KV     kv;
        std::string hex;
        char        b[4];
        for (uint8_t x : c.bytes) {
            snprintf(b, sizeof b, "%02x", x);
            hex += b;
        }
        kv.put("bytes", hex);
        kv.put("width", c.width);
        kv.put("alias", c.alias);
        if (c.huge_a != 0) {
            kv.put("huge", std::to_string(c.huge_a) + "," + std::to_string(c.huge_b) + "," + std::to_string(c.huge_esc));
            return kv.text();
        }
        if (!c.nums.empty()) {
            std::string t;
            char        b[24];
            for (uint64_t x : c.nums) {
                snprintf(b, sizeof b, "%016llx,", (unsigned long long)x);
                t += b;
            }
            kv.put("nums", t);
            return kv.text();
        }
        return kv.text();
    }
    static Case from_text(const std::string &t) {
        pbt::KV     kv = pbt::KV::parse(t);
        Case        c;
        std::string hex = kv.get("bytes");
        for (size_t i = 0; i + 1 < hex.size(); i += 2) {
            c.bytes.push_back(uint8_t(strtoul(hex.substr(i, 2).c_str(), nullptr, 16)));
        }
        c.width = int(kv.geti("width", 1));
        c.alias = int(kv.geti("alias", 0));
        if (kv.has("huge")) {
            sscanf(kv.get("huge").c_str(), "%u,%u,%u", &c.huge_a, &c.huge_b, &c.huge_esc);
        }
        if (kv.has("nums")) {
            std::string t = kv.get("nums");
            for (size_t i = 0; i + 16 <= t.size(); i += 17) {
                c.nums.push_back(strtoull(t.substr(i, 16).c_str(), nullptr, 16));
            }
        }
        return c;
    }
    static void run(const Case &c, pbt::Ctx &ctx) {
        if (c.huge_a != 0) {
            ctx.nontrivial();
            const std::string why = huge_run(c);
            if (!why.empty()) {
                ctx.fail("huge-strings", why);
            }
            return;
        }
        if (!c.nums.empty()) {
            switch (c.width) {
                case 1: run_numbers<char>(c, ctx); break;
                case 2: run_numbers<char16_t>(c, ctx); break;
                case 3: run_numbers<wchar_t>(c, ctx); break;
                default: run_numbers<char32_t>(c, ctx); break;
            }
            return;
        }
        switch (c.width) {
            case 1: run_width<char>(c, ctx); break;
            case 2: run_width<char16_t>(c, ctx); break;
            case 3: run_width<wchar_t>(c, ctx); break;
            default: run_width<char32_t>(c, ctx); break;
        }
    }
};

} // namespace

PBT_MAIN(H)
