// C03 — {var:} output is HTML-safe for every string; {raw:} is verbatim; auto-escape off => {var:} == {raw:}.
// Oracle: safety predicate + decode-equivalence + idempotence (metamorphic), raw identity.
#include "common/pbt.hpp"
#include "common/jmodel.hpp"

using namespace Qentem;
using jm::Entropy;
using jm::Units;

namespace {

struct Case {
    int   position{0}; // 0 direct, 1 {var:}, 2 {raw:}, 3 loop key, 4 svar phrase + sub tags, 5 echoed source of an unresolved tag
    int   width{1};
    Units str;         // the string (code units of the width)
    int   delivery{0}; // positions 1/2: 0 plain string member, 1 pointer to a value, 2 pointer to a pointer, 3 loop over an array of pointers
};

const Units &entity(int i) {
    static const Units e[5] = {Units{'&', 'a', 'm', 'p', ';'}, Units{'&', 'l', 't', ';'}, Units{'&', 'g', 't', ';'}, Units{'&', 'q', 'u', 'o', 't', ';'},
                               Units{'&', 'a', 'p', 'o', 's', ';'}};
    return e[i];
}
const uint32_t kPlain[5] = {'&', '<', '>', '"', '\''};

int entity_at(const Units &s, size_t i) {
    for (int k = 0; k < 5; ++k) {
        const Units &e = entity(k);
        if (i + e.size() <= s.size() && std::equal(e.begin(), e.end(), s.begin() + long(i))) {
            return k;
        }
    }
    return -1;
}
Units decode(const Units &s) { // single left-to-right pass replacing the five entities
    Units o;
    for (size_t i = 0; i < s.size();) {
        int k = (s[i] == '&') ? entity_at(s, i) : -1;
        if (k >= 0) {
            o.push_back(kPlain[k]);
            i += entity(k).size();
        } else {
            o.push_back(s[i]);
            ++i;
        }
    }
    return o;
}

template <typename Char_T>
Units escape_direct(const Units &in) {
    jm::Buf<Char_T>      b(in);
    StringStream<Char_T> ss;
    StringUtils::EscapeHTMLSpecialChars(ss, b.cp(), SizeT(b.n));
    return jm::units_of(ss.First(), ss.Length());
}

void check_escaped(const Units &in, const Units &out, const char *where, pbt::Ctx &ctx, bool auto_escape) {
    if (!auto_escape) {
        if (out != in) {
            ctx.fail("escape-off-not-verbatim", std::string(where) + ": with auto-escape off the text must be copied verbatim: in=" + jm::show(in) + " out=" + jm::show(out));
        }
        return;
    }
    for (size_t i = 0; i < out.size(); ++i) {
        uint32_t c = out[i];
        if (c == '<' || c == '>' || c == '"' || c == '\'') {
            ctx.fail("unsafe-character-emitted", std::string(where) + ": output contains a raw special character: in=" + jm::show(in) + " out=" + jm::show(out));
        }
        if (c == '&' && entity_at(out, i) < 0) {
            ctx.fail("bare-ampersand-emitted", std::string(where) + ": '&' does not start one of the five entities: in=" + jm::show(in) + " out=" + jm::show(out));
        }
    }
    if (decode(out) != decode(in)) {
        ctx.fail("decode-mismatch", std::string(where) + ": decoding the output differs from decoding the input: in=" + jm::show(in) + " out=" + jm::show(out));
    }
}

template <typename Char_T>
Units render(const Units &tpl, const Value<Char_T> &v) {
    jm::Buf<Char_T>      b(tpl);
    StringStream<Char_T> ss;
    // The parsed form reaches the renderer in one of four ways (chosen by the template text, so a case always takes the same one):
    // parsed and rendered in one call, through a caller-owned tag cache, through a copy-constructed cache, through a cache that was
    // copy-assigned over another template's tags. What {var:} and {raw:} emit must not depend on it.
    uint64_t h = 1469598103934665603ULL;
    for (uint32_t u : tpl) {
        h = (h ^ u) * 1099511628211ULL;
    }
    using TC = TemplateCore<Char_T, Value<Char_T>, StringStream<Char_T>>;
    switch ((h >> 7) % 4) {
        case 0: Template::Render(b.cp(), SizeT(b.n), v, ss); break;
        case 1: {
            Array<Tags::TagBit> cache;
            Template::Render(b.cp(), SizeT(b.n), v, ss, cache);
            break;
        }
        case 2: {
            Array<Tags::TagBit> cache;
            TC::Parse(b.cp(), SizeT(b.n), cache);
            Array<Tags::TagBit> copy{cache};
            TC                  tc{b.cp(), SizeT(b.n)};
            tc.Render(copy, v, ss);
            break;
        }
        default: {
            Array<Tags::TagBit> cache, other;
            const Char_T        o[] = {Char_T('{'), Char_T('v'), Char_T('a'), Char_T('r'), Char_T(':'), Char_T('q'), Char_T('}'), Char_T('x')};
            TC::Parse(o, SizeT(8), other);
            TC::Parse(b.cp(), SizeT(b.n), cache);
            other = cache;
            TC tc{b.cp(), SizeT(b.n)};
            tc.Render(other, v, ss);
            break;
        }
    }
    return jm::units_of(ss.First(), ss.Length());
}
Units ascii(const char *s) {
    Units u;
    for (; *s; ++s) {
        u.push_back((unsigned char)*s);
    }
    return u;
}
Units cat(std::initializer_list<Units> parts) {
    Units o;
    for (auto &p : parts) {
        o.insert(o.end(), p.begin(), p.end());
    }
    return o;
}
// cut the segment between a known prefix and suffix
bool cut(const Units &out, const Units &pre, const Units &suf, Units &seg) {
    if (out.size() < pre.size() + suf.size() || !std::equal(pre.begin(), pre.end(), out.begin()) ||
        !std::equal(suf.begin(), suf.end(), out.end() - long(suf.size()))) {
        return false;
    }
    seg.assign(out.begin() + long(pre.size()), out.end() - long(suf.size()));
    return true;
}

template <typename Char_T>
String<Char_T> mk(const Units &u) {
    jm::Buf<Char_T> b(u);
    return String<Char_T>{b.cp(), SizeT(b.n)};
}

template <typename Char_T>
void run_width(const Case &c, pbt::Ctx &ctx) {
    const bool   on = Config::AutoEscapeHTML;
    const Units &s  = c.str;
    switch (c.position) {
        case 0: {
            Units out = escape_direct<Char_T>(s);
            check_escaped(s, out, "EscapeHTMLSpecialChars", ctx, on);
            if (on && escape_direct<Char_T>(out) != out) {
                ctx.fail("not-idempotent", "escaping an escaped string changed it: in=" + jm::show(s) + " out=" + jm::show(out));
            }
            break;
        }
        case 1:
        case 2: {
            Value<Char_T> v;
            jm::Buf<Char_T> kb(ascii("k\0"));
            // the string may reach the tag through pointer-to-value members (they outlive the render)
            Value<Char_T> target{mk<Char_T>(s)};
            Value<Char_T> hop;
            hop.SetPointerToValue(&target);
            const char *tag = (c.position == 1) ? "{var:k}" : "{raw:k}";
            switch (c.delivery) {
                case 1: v[StringView<Char_T>{kb.cp(), 1}].SetPointerToValue(&target); break;
                case 2: v[StringView<Char_T>{kb.cp(), 1}].SetPointerToValue(&hop); break;
                case 3:
                    v[StringView<Char_T>{kb.cp(), 1}].AddPointerToValue(&hop);
                    tag = (c.position == 1) ? "<loop set=\"k\" value=\"it\">{var:it}</loop>" : "<loop set=\"k\" value=\"it\">{raw:it}</loop>";
                    break;
                default: v[StringView<Char_T>{kb.cp(), 1}] = mk<Char_T>(s); break;
            }
            Units out = render<Char_T>(cat({ascii("A<"), ascii(tag), ascii(">B")}), v);
            Units seg;
            if (!cut(out, ascii("A<"), ascii(">B"), seg)) {
                ctx.fail("surrounding-text-changed", "text around the tag was not copied unchanged: " + jm::show(out));
            }
            if (c.position == 2) {
                if (seg != s) {
                    ctx.fail("raw-not-verbatim", "{raw:} changed the string: in=" + jm::show(s) + " out=" + jm::show(seg));
                }
            } else {
                check_escaped(s, seg, "{var:}", ctx, on);
            }
            break;
        }
        case 3: { // object loop: the key of a member that cannot be printed is printed through {var:v}
            if (s.empty()) {
                break; // an empty key prints the tag source instead (undocumented edge)
            }
            Value<Char_T>   v;
            jm::Buf<Char_T> ob(ascii("o"));
            jm::Buf<Char_T> sb(s);
            Value<Char_T>  &o = v[StringView<Char_T>{ob.cp(), 1}];
            o[StringView<Char_T>{sb.cp(), SizeT(sb.n)}] += 1; // member value is an array: not printable
            Units out = render<Char_T>(ascii("[<loop set=\"o\" value=\"v\">{var:v}</loop>]"), v);
            Units seg;
            if (!cut(out, ascii("["), ascii("]"), seg)) {
                ctx.fail("surrounding-text-changed", "loop output lost its surroundings: " + jm::show(out));
            }
            check_escaped(s, seg, "loop key through {var:}", ctx, on);
            // the same {var:v} as the sub tag of a super variable (phrase "{0}")
            {
                jm::Buf<Char_T> qb(ascii("pq"));
                v[StringView<Char_T>{qb.cp(), 2}] = mk<Char_T>(ascii("{0}"));
                Units out2 = render<Char_T>(ascii("[<loop set=\"o\" value=\"v\">{svar:pq, {var:v}}</loop>]"), v);
                Units seg2;
                if (!cut(out2, ascii("["), ascii("]"), seg2)) {
                    ctx.fail("surrounding-text-changed", "loop output lost its surroundings: " + jm::show(out2));
                }
                check_escaped(s, seg2, "loop key through a {var:} sub tag of {svar:}", ctx, on);
            }
            break;
        }
        case 4: { // super variable: the phrase text is escaped, {var:} sub-tags are escaped, {raw:} sub-tags verbatim
            // phrase = s with "{0}" and "{1}" appended; s itself must not contain '{' (it would start a placeholder)
            Units phrase = s;
            for (auto &x : phrase) {
                if (x == '{') {
                    x = '(';
                }
            }
            // (in the 2- and 4-byte builds the phrase ends with braces around units whose low byte is a digit: U+0130, U+4E31, U+1F630 - text,
            // not placeholders)
            Units extra;
            if (sizeof(Char_T) > 1) {
                extra = {'{', 0x0130, '}', '{', 0x4E31, '}'};
                if (sizeof(Char_T) == 4) {
                    extra.insert(extra.end(), {'{', 0x1F630, '}'});
                }
            }
            Units p2 = cat({phrase, ascii("|{0}|{1}|"), extra});
            Value<Char_T>   v;
            jm::Buf<Char_T> pb(ascii("p")), kb(ascii("k"));
            v[StringView<Char_T>{pb.cp(), 1}] = mk<Char_T>(p2);
            v[StringView<Char_T>{kb.cp(), 1}] = mk<Char_T>(s);
            Units out = render<Char_T>(ascii("{svar:p, {var:k}, {raw:k}}"), v);
            // expected shape: esc(phrase) | esc(s) | s |
            // find the last three bars from the right, knowing s (raw) sits between the last two
            Units tail = cat({ascii("|"), s, ascii("|"), extra});
            if (out.size() < tail.size() || !std::equal(tail.begin(), tail.end(), out.end() - long(tail.size()))) {
                ctx.fail("svar-raw-subtag", "{raw:} sub-tag of {svar:} is not verbatim at the end: " + jm::show(out));
            }
            Units head(out.begin(), out.end() - long(tail.size()));
            // head = esc(phrase) '|' esc(s); an escaped text contains no '|' unless the source did: split at the bar that
            // leaves decode(left) == decode(phrase)
            bool matched = false;
            for (size_t i = 0; i <= head.size(); ++i) {
                if (i < head.size() && head[i] != '|') {
                    continue;
                }
                if (i == head.size()) {
                    break;
                }
                Units left(head.begin(), head.begin() + long(i)), right(head.begin() + long(i) + 1, head.end());
                if (!on ? (left == phrase && right == s) : (decode(left) == decode(phrase) && decode(right) == decode(s))) {
                    check_escaped(phrase, left, "{svar:} phrase text", ctx, on);
                    check_escaped(s, right, "{var:} sub-tag of {svar:}", ctx, on);
                    matched = true;
                    break;
                }
            }
            if (!matched) {
                ctx.fail("svar-shape", "{svar:} output does not decompose into phrase|var|raw: " + jm::show(out) + " for " + jm::show(s));
            }
            // a super variable whose list of sub tags is empty (a comma, then nothing that is a tag): the phrase is still printed, escaped,
            // and its placeholders stay as they are
            {
                static const char *shapes[] = {"[{svar:p,}]", "[{svar:p, }]", "[{svar:p, text}]", "[{svar:p, {var:}}]"};
                Units              o2       = render<Char_T>(ascii(shapes[(s.size() + c.delivery) % 4]), v);
                Units              seg2;
                if (!cut(o2, ascii("["), ascii("]"), seg2)) {
                    ctx.fail("surrounding-text-changed", "{svar:} without sub tags lost its surroundings: " + jm::show(o2));
                }
                if (!on ? (seg2 != p2) : (decode(seg2) != decode(p2))) {
                    // (when the tag is not taken as a super variable at all its source is echoed: that is the other documented outcome)
                    Units echoed = ascii(shapes[(s.size() + c.delivery) % 4]);
                    echoed.erase(echoed.begin());
                    echoed.pop_back();
                    if (decode(seg2) != decode(echoed)) {
                        ctx.fail("svar-phrase-lost", "{svar:} with an empty sub-tag list printed " + jm::show(seg2) + " for the phrase " + jm::show(p2));
                    }
                } else {
                    check_escaped(p2, seg2, "{svar:} phrase without sub tags", ctx, on);
                }
            }
            break;
        }
        default: { // unresolved {var:NAME}: the tag source is echoed, escaped; NAME contains specials but no braces
            Units name = s;
            for (auto &x : name) {
                if (x == '{' || x == '}' || x == 0) {
                    x = '_';
                }
            }
            if (name.empty() || name.size() > 200) {
                break;
            }
            Value<Char_T>   v;
            jm::Buf<Char_T> nb(ascii("never-a-generated-name"));
            v[StringView<Char_T>{nb.cp(), SizeT(nb.n)}] = 1; // an object without such a member
            Units tag = cat({ascii("{var:"), name, ascii("}")});
            Units out = render<Char_T>(cat({ascii("A"), tag, ascii("B")}), v);
            Units seg;
            if (!cut(out, ascii("A"), ascii("B"), seg)) {
                ctx.fail("surrounding-text-changed", "text around the unresolved tag changed: " + jm::show(out));
            }
            check_escaped(tag, seg, "echoed source of an unresolved {var:}", ctx, on);
            // the same unresolved tag as the sub tag of a super variable (phrase "({0})")
            if (name != ascii("pq")) { // (the phrase's own name would resolve)
                jm::Buf<Char_T> qb(ascii("pq"));
                v[StringView<Char_T>{qb.cp(), 2}] = mk<Char_T>(ascii("({0})"));
                Units whole = cat({ascii("{svar:pq, "), tag, ascii("}")});
                Units out2  = render<Char_T>(cat({ascii("A"), whole, ascii("B")}), v);
                Units seg2;
                if (!cut(out2, ascii("A"), ascii("B"), seg2)) {
                    ctx.fail("surrounding-text-changed", "text around the super variable changed: " + jm::show(out2));
                }
                if (seg2.size() >= 2 && seg2.front() == '(' && seg2.back() == ')') {
                    check_escaped(tag, Units(seg2.begin() + 1, seg2.end() - 1), "echoed source of an unresolved {var:} sub tag of {svar:}", ctx, on);
                    ctx.label("unresolved-subtag-of-svar");
                } else if (decode(seg2) != decode(whole)) { // (a name the sub-tag scan does not take: the whole tag is echoed)
                    ctx.fail("svar-shape", "{svar:} with an unresolved sub tag printed " + jm::show(seg2) + " for " + jm::show(whole));
                }
            }
            // the value of an array loop with a subscript that does not resolve ({var:v[NAME]} over ["s"]): no key to print, the tag's
            // source is echoed, escaped
            {
                Units sub = name;
                for (auto &x : sub) {
                    if (x == '[' || x == ']') {
                        x = '_';
                    }
                }
                jm::Buf<Char_T> ab(ascii("arr"));
                Value<Char_T>   v3;
                v3[StringView<Char_T>{ab.cp(), 3}] += mk<Char_T>(ascii("s"));
                Units ltag = cat({ascii("{var:v["), sub, ascii("]}")});
                Units out3 = render<Char_T>(cat({ascii("A<loop set=\"arr\" value=\"v\">"), ltag, ascii("</loop>B")}), v3);
                Units seg3;
                if (!cut(out3, ascii("A"), ascii("B"), seg3)) {
                    ctx.fail("surrounding-text-changed", "text around the loop changed: " + jm::show(out3));
                }
                check_escaped(ltag, seg3, "echoed source of an unresolved subscript of an array loop's value", ctx, on);
            }
            Units rtag = cat({ascii("{raw:"), name, ascii("}")});
            Units rout = render<Char_T>(cat({ascii("A"), rtag, ascii("B")}), v);
            if (rout != cat({ascii("A"), rtag, ascii("B")})) {
                ctx.fail("raw-echo-not-verbatim", "an unresolved {raw:} tag is not reproduced verbatim: " + jm::show(rout));
            }
        }
    }
}

Units gen_string(Entropy &e, int width) {
    Units    s;
    unsigned n = e.below(14);
    if (e.chance(15)) {
        n = 14 + e.below(90); // long enough to cross whatever block size a scanner may work in (8, 16, 32, 64 units), specials anywhere
    }
    for (unsigned i = 0; i < n; ++i) {
        switch (e.below(10)) {
            case 0:
            case 1:
            case 2: s.push_back((uint32_t[]){'&', '<', '>', '"', '\'', ';', '&', '&'}[e.below(8)]); break;
            case 3:
            case 4: { // an entity, possibly damaged
                Units en = entity(int(e.below(5)));
                switch (e.below(6)) {
                    case 0: en.erase(en.begin() + long(e.below(uint32_t(en.size())))); break;          // one unit deleted
                    case 1: en[e.below(uint32_t(en.size()))] = 'a' + e.below(26); break;               // replaced
                    case 2: en.insert(en.begin() + long(e.below(uint32_t(en.size()))), en[1]); break;  // duplicated
                    case 3: en.resize(e.below(uint32_t(en.size()))); break;                            // truncated
                    default: break;                                                                    // intact
                }
                s.insert(s.end(), en.begin(), en.end());
                break;
            }
            case 5: s.push_back((uint32_t[]){'a', 'm', 'p', 'l', 't', 'g', 'q', 'u', 'o', 's'}[e.below(10)]); break;
            case 6: s.push_back(width == 1 ? 0x80 + e.below(0x80) : width == 2 ? 0x80 + e.below(0xFF00) : 0x80 + e.below(0x10FF00)); break;
            case 7: s.push_back(e.below(0x20)); break;
            default: s.push_back(0x20 + e.below(0x5F)); break;
        }
    }
    return s;
}

struct H {
    using Case = ::Case;
    static const char *name() { return "C03 HTML escaping"; }
    static rc::Gen<Case> gen() {
        using namespace rc;
        return gen::map(gen::tuple(gen::resize(250, gen::container<std::vector<uint8_t>>(gen::arbitrary<uint8_t>())), pbt::range<int>(0, 5), pbt::pick<int>({1, 1, 2, 4, 3})),
                        [](std::tuple<std::vector<uint8_t>, int, int> t) { return make_case(std::get<0>(t), std::get<1>(t), std::get<2>(t)); });
    }
    static Case make_case(const std::vector<uint8_t> &bytes, int position, int width) {
        Case    c;
        Entropy e(bytes);
        c.position = position;
        c.width    = width;
        c.delivery = int(e.below(4));
        c.str      = gen_string(e, c.width == 3 ? 4 : c.width);
        if (c.position != 0) { // strings travel through NUL-safe APIs, but keep template positions NUL-free
            for (auto &x : c.str) {
                if (x == 0) {
                    x = ' ';
                }
            }
        }
        return c;
    }
    // coverage-guided mode: selector byte, then entropy
    static bool from_fuzz(const uint8_t *d, size_t n, Case &c) {
        pbt::FuzzBytes f(d, n);
        static const int w[] = {1, 2, 4, 3};
        uint8_t          s   = f.sel();
        c = make_case(f.rest(), (s >> 2) % 6, w[s & 3]);
        return true;
    }
    static std::string to_text(const Case &c) {
        pbt::KV kv;
        kv.put("position", c.position);
        kv.put("width", c.width);
        kv.put("str", pbt::enc_units(c.str));
        kv.put("delivery", c.delivery);
        return kv.text();
    }
    static Case from_text(const std::string &t) {
        pbt::KV kv = pbt::KV::parse(t);
        Case    c;
        c.position = int(kv.geti("position"));
        c.width    = int(kv.geti("width", 1));
        c.str      = pbt::dec_units(kv.get("str"));
        c.delivery = int(kv.geti("delivery"));
        return c;
    }
    static void run(const Case &c, pbt::Ctx &ctx) {
        static const char *pn[] = {"direct", "var-tag", "raw-tag", "loop-key", "svar", "unresolved-echo"};
        ctx.label(std::string("position:") + pn[c.position]);
        if (c.position == 1 || c.position == 2) {
            static const char *dn[] = {"plain", "pointer", "pointer-to-pointer", "loop-over-array-of-pointers"};
            ctx.label(std::string("delivery:") + dn[c.delivery & 3]);
        }
        bool special = false;
        for (uint32_t x : c.str) {
            special = special || x == '&' || x == '<' || x == '>' || x == '"' || x == '\'';
        }
        if (special) {
            ctx.nontrivial();
        }
        switch (c.width) {
            case 1: run_width<char>(c, ctx); break;
            case 2: run_width<char16_t>(c, ctx); break;
            case 3: run_width<wchar_t>(c, ctx); break;
            default: run_width<char32_t>(c, ctx); break;
        }
    }
    // "short7": every string of length <= 7 over {& a m p ; l t}, directly and through {var:}
    static void enumerate(pbt::Ctx &ctx, unsigned shard, unsigned nshards, const std::string &what) {
        Qentem::MemoryRecord::data().enabled = false;
        const uint32_t alpha[7] = {'&', 'a', 'm', 'p', ';', 'l', 't'};
        const unsigned maxlen   = (what == "short7") ? 7 : 6;
        uint64_t       idx      = 0;
        for (unsigned len = 0; len <= maxlen; ++len) {
            uint64_t total = 1;
            for (unsigned i = 0; i < len; ++i) {
                total *= 7;
            }
            for (uint64_t n = 0; n < total; ++n) {
                if ((idx++ % nshards) != shard) {
                    continue;
                }
                Case c;
                c.position = 0;
                c.width    = 1;
                uint64_t v = n;
                for (unsigned i = 0; i < len; ++i) {
                    c.str.push_back(alpha[v % 7]);
                    v /= 7;
                }
                if (pbt::exec_case_fast<H>(ctx, c) == pbt::Status::Fail) {
                    return;
                }
            }
        }
        ctx.exhaustive      = true;
        ctx.exhaustive_what = "every string of length 0.." + std::to_string(maxlen) + " over {& a m p ; l t} through EscapeHTMLSpecialChars";
    }
};

} // namespace

PBT_MAIN(H)
