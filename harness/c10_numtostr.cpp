// C10 — number to text equals the reference formatting (printf) for every value and precision.
// C11 mode (kind "roundtrip") lives in c11_roundtrip.cpp; this file only formats.
#include "common/pbt.hpp"
#include "common/numgen.hpp"

#include <cmath>

using namespace Qentem;

namespace {

// kind: 0 double, 1 float, 2 i8, 3 u8, 4 i16, 5 u16, 6 i32, 7 u32, 8 i64, 9 u64
struct Case {
    int         kind{0};
    uint64_t    bits{0};
    unsigned    precision{6};
    int         format{0}; // 0 Default, 1 Fixed, 2 SemiFixed
    int         width{1};
    std::string prefix; // what the stream holds before the call
    std::string cls;    // generator class
};

std::string reference_real(double d, unsigned precision, int format) {
    if (std::isnan(d)) {
        return "nan";
    }
    if (std::isinf(d)) {
        return d < 0 ? "-inf" : "inf";
    }
    std::vector<char> buf(512 + 400);
    if (format == 0) {
        snprintf(buf.data(), buf.size(), "%.*g", int(precision), d);
        return buf.data();
    }
    snprintf(buf.data(), buf.size(), "%.*f", int(precision), d);
    std::string s = buf.data();
    if (format == 2 && s.find('.') != std::string::npos) {
        while (s.back() == '0') {
            s.pop_back();
        }
        if (s.back() == '.') {
            s.pop_back();
        }
    }
    return s;
}

template <typename Char_T>
std::string stream_text(const StringStream<Char_T> &ss) {
    std::string o;
    for (SizeT i = 0; i < ss.Length(); ++i) {
        uint32_t u = uint32_t(ss.First()[i]) & (sizeof(Char_T) == 1 ? 0xFFu : sizeof(Char_T) == 2 ? 0xFFFFu : 0xFFFFFFFFu);
        o.push_back(u < 0x80 ? char(u) : '?');
    }
    return o;
}

static bool g_enumerating = false;
// stale: 0 a fresh stream; otherwise the stream has held a run of that digit before (written, then Clear()ed: the storage keeps it behind
// the new content) - the text depends on the number and the format only, not on what lies beyond the stream's length
template <typename Char_T>
void run_width(const Case &c, pbt::Ctx &ctx, char stale = 0) {
    StringStream<Char_T> ss;
    if (stale != 0) {
        for (int i = 0; i < 420; ++i) {
            ss += Char_T((unsigned char)stale);
        }
        ss.Clear();
    }
    for (char ch : c.prefix) {
        ss += Char_T((unsigned char)ch);
    }
    std::string                expect;
    const Digit::RealFormatInfo fmt{c.precision, c.format == 0   ? Digit::RealFormatType::Default
                                                  : c.format == 1 ? Digit::RealFormatType::Fixed
                                                                  : Digit::RealFormatType::SemiFixed};
    double dv = 0;
    switch (c.kind) {
        case 0: {
            memcpy(&dv, &c.bits, 8);
            Digit::NumberToString(ss, dv, fmt);
            expect = reference_real(dv, c.precision, c.format);
            break;
        }
        case 1: {
            float    f;
            uint32_t b = uint32_t(c.bits);
            memcpy(&f, &b, 4);
            dv = double(f);
            Digit::NumberToString(ss, f, fmt);
            expect = reference_real(dv, c.precision, c.format);
            break;
        }
        case 2: Digit::NumberToString(ss, (signed char)(c.bits)); expect = std::to_string((long long)(signed char)(c.bits)); break;
        case 3: Digit::NumberToString(ss, (unsigned char)(c.bits)); expect = std::to_string((unsigned long long)(unsigned char)(c.bits)); break;
        case 4: Digit::NumberToString(ss, (short)(c.bits)); expect = std::to_string((long long)(short)(c.bits)); break;
        case 5: Digit::NumberToString(ss, (unsigned short)(c.bits)); expect = std::to_string((unsigned long long)(unsigned short)(c.bits)); break;
        case 6: Digit::NumberToString(ss, (int)(c.bits)); expect = std::to_string((long long)(int)(c.bits)); break;
        case 7: Digit::NumberToString(ss, (unsigned int)(c.bits)); expect = std::to_string((unsigned long long)(unsigned int)(c.bits)); break;
        case 8: Digit::NumberToString(ss, (long long)(c.bits)); expect = std::to_string((long long)(c.bits)); break;
        default: Digit::NumberToString(ss, (unsigned long long)(c.bits)); expect = std::to_string((unsigned long long)(c.bits)); break;
    }
    std::string got = stream_text(ss);
    if (got.size() < c.prefix.size() || got.compare(0, c.prefix.size(), c.prefix) != 0) {
        ctx.fail("prefix-disturbed", "stream content before the number changed: '" + got + "' prefix '" + c.prefix + "'");
    }
    got = got.substr(c.prefix.size());
    if (got != expect) {
        char b[128];
        snprintf(b, sizeof b, " value=%.17g kind=%d precision=%u format=%d", dv, c.kind, c.precision, c.format);
        std::string cls = "format-mismatch";
        if (c.kind <= 1) {
            cls = numgen::classify_format_deviation(dv, c.precision, c.format, got, expect);
        } else {
            cls = "integer-text";
        }
        if (stale != 0) {
            cls = "stale-storage-" + cls;
        }
        ctx.deviation(cls, "got '" + got + "' expected '" + expect + "'" + b + (stale != 0 ? std::string(" (the stream had held a run of '") + stale + "' and was cleared)" : std::string()));
    }
    if (stale == 0 && c.kind <= 1) {
        // (in the enumerations - millions of patterns per second - one pattern in 32 gets the two extra runs)
        const uint64_t h = (c.bits * 0x9E3779B97F4A7C15ULL) >> 40;
        if (g_enumerating ? (h & 31) == 0 : (c.precision <= 2 || (h & 3) == 0)) {
            run_width<Char_T>(c, ctx, '9');
        }
        if (g_enumerating ? (h & 31) == 0 : (c.precision <= 2 || (h & 3) == 1)) {
            run_width<Char_T>(c, ctx, char('0' + (h >> 4) % 10));
        }
    }
}

struct H {
    using Case = ::Case;
    static const char *name() { return "C10 number to string"; }

    static rc::Gen<Case> gen() {
        using namespace rc;
        auto prefix = pbt::pick<std::string>({"", "", "x", "abc=", "0123456789abcdef", "[1,2,", "................................",
                                               // what a formatter might take for part of its own number when it looks in front of it
                                               "-", "3-", "1e", "0.", "9", "e+", "-0", "1.9"});
        auto reals  = gen::map(gen::tuple(numgen::double_gen(), pbt::range<unsigned>(0, 40), pbt::range<int>(0, 2), pbt::pick<int>({1, 1, 2, 4, 3}), prefix,
                                          pbt::range<int>(0, 9)),
                               [](std::tuple<numgen::Real, unsigned, int, int, std::string, int> t) {
                                  Case c;
                                  c.kind      = 0;
                                  c.bits      = std::get<0>(t).bits;
                                  c.cls       = std::get<0>(t).cls;
                                  c.precision = std::get<1>(t);
                                  // low precisions are where most formatting decisions happen
                                  if (std::get<5>(t) < 5) {
                                      c.precision = c.precision % 18;
                                  }
                                  c.format = std::get<2>(t);
                                  c.width  = std::get<3>(t);
                                  c.prefix = std::get<4>(t);
                                  return c;
                              });
        auto floats = gen::map(gen::tuple(numgen::float_gen(), pbt::range<unsigned>(0, 40), pbt::range<int>(0, 2), pbt::pick<int>({1, 2, 4, 3}), prefix),
                               [](std::tuple<numgen::Real, unsigned, int, int, std::string> t) {
                                   Case c;
                                   c.kind      = 1;
                                   c.bits      = std::get<0>(t).bits;
                                   c.cls       = std::get<0>(t).cls;
                                   c.precision = std::get<1>(t);
                                   c.format    = std::get<2>(t);
                                   c.width     = std::get<3>(t);
                                   c.prefix    = std::get<4>(t);
                                   return c;
                               });
        auto ints   = gen::map(gen::tuple(pbt::range<int>(2, 9), numgen::int_bits_gen(), pbt::pick<int>({1, 2, 4, 3}), prefix),
                               [](std::tuple<int, uint64_t, int, std::string> t) {
                                 Case c;
                                 c.kind   = std::get<0>(t);
                                 c.bits   = std::get<1>(t);
                                 c.cls    = "integer";
                                 c.width  = std::get<2>(t);
                                 c.prefix = std::get<3>(t);
                                 return c;
                             });
        return gen::oneOf(reals, reals, reals, reals, floats, ints);
    }

    // coverage-guided mode: byte 0: format (2 bits) | width (2 bits) | kind; byte 1: precision; 8 bytes: bit pattern
    static bool from_fuzz(const uint8_t *d, size_t n, Case &c) {
        pbt::FuzzBytes f(d, n);
        uint8_t        b0 = f.sel();
        static const int w[] = {1, 2, 4, 3};
        c.format    = (b0 & 3) % 3;
        c.width     = w[(b0 >> 2) & 3];
        c.kind      = (b0 & 16) ? 1 : 0;
        c.precision = f.sel() % 41;
        c.bits      = 0;
        for (int i = 0; i < (c.kind == 0 ? 8 : 4); ++i) {
            c.bits = (c.bits << 8) | f.sel();
        }
        c.prefix = (b0 & 32) ? ((b0 & 64) ? "3-" : "abc=") : ((b0 & 64) ? "0." : "");
        c.cls    = "coverage-guided";
        return true;
    }
    static std::string to_text(const Case &c) {
        pbt::KV kv;
        kv.put("kind", c.kind);
        char b[32];
        snprintf(b, sizeof b, "%016llx", (unsigned long long)c.bits);
        kv.put("bits", b);
        if (c.kind == 0) {
            double d;
            memcpy(&d, &c.bits, 8);
            snprintf(b, sizeof b, "%.17g", d);
            kv.put("value", b);
        }
        kv.putu("precision", c.precision);
        kv.put("format", c.format);
        kv.put("width", c.width);
        kv.put("prefix", pbt::enc_bytes(c.prefix));
        kv.put("class", c.cls);
        return kv.text();
    }
    static Case from_text(const std::string &t) {
        pbt::KV kv = pbt::KV::parse(t);
        Case    c;
        c.kind      = int(kv.geti("kind"));
        c.bits      = strtoull(kv.get("bits").c_str(), nullptr, 16);
        c.precision = unsigned(kv.getu("precision", 6));
        c.format    = int(kv.geti("format"));
        c.width     = int(kv.geti("width", 1));
        c.prefix    = pbt::dec_bytes(kv.get("prefix"));
        c.cls       = kv.get("class");
        return c;
    }

    static void run(const Case &c, pbt::Ctx &ctx) {
        ctx.label("class:" + c.cls);
        ctx.label(c.kind == 0 ? "double" : c.kind == 1 ? "float" : "integer");
        if (c.kind <= 1) {
            ctx.label(c.format == 0 ? "Default" : c.format == 1 ? "Fixed" : "SemiFixed");
            double d;
            if (c.kind == 0) {
                memcpy(&d, &c.bits, 8);
            } else {
                float    f;
                uint32_t b = uint32_t(c.bits);
                memcpy(&f, &b, 4);
                d = f;
            }
            // non-trivial: finite non-integer, or an integer with more digits than the precision
            if (std::isfinite(d) && (d != std::floor(d) || std::fabs(d) >= std::pow(10.0, double(c.precision)))) {
                ctx.nontrivial();
            }
        } else {
            ctx.nontrivial();
        }
        switch (c.width) {
            case 1: run_width<char>(c, ctx); break;
            case 2: run_width<char16_t>(c, ctx); break;
            case 3: run_width<wchar_t>(c, ctx); break;
            default: run_width<char32_t>(c, ctx); break;
        }
    }

    // "floats P F": every float bit pattern at one (precision, format), sharded
    static void enumerate(pbt::Ctx &ctx, unsigned shard, unsigned nshards, const std::string &what) {
        g_enumerating = true;
        if (what.compare(0, 9, "big-ties-") == 0) {
            // Integers from 2^53 up (doubles there are whole numbers) written as 16-23 decimal digits that end in 5 and 0 .. 21 zeros: the value
            // itself - a decimal tie at one digit less - and its neighbours one and two ulps up and down, printed with that many digits
            // in the Default format (and one digit more / less). The digits above the tie come from a fixed pseudo-random sequence.
            const uint64_t total = strtoull(what.c_str() + 9, nullptr, 10) * 1000000ULL;
            uint64_t       x     = 0x9E3779B97F4A7C15ULL * (shard + 1);
            auto           next  = [&x]() {
                x ^= x << 13;
                x ^= x >> 7;
                x ^= x << 17;
                return x;
            };
            for (uint64_t n = 0; n < total; ++n) {
                const unsigned D     = 16 + unsigned(next() % 8); // digits in all
                const unsigned zeros = unsigned(next() % (D - 1)); // trailing zeros (the digits dropped behind the tie digit)
                const unsigned L     = D - zeros;                  // digits up to and including the 5
                char           t[40];
                uint64_t       r = next();
                t[0]             = char('1' + r % 9);
                for (unsigned i = 1; i + 1 < L; ++i) {
                    r    = next();
                    t[i] = char('0' + r % 10);
                }
                t[L - 1] = '5';
                for (unsigned i = 0; i < zeros; ++i) {
                    t[L + i] = '0';
                }
                t[L + zeros]    = 0;
                const double d0 = strtod(t, nullptr);
                double       d  = d0;
                switch (next() % 5) {
                    case 1: d = std::nextafter(d0, INFINITY); break;
                    case 2: d = std::nextafter(d0, 0.0); break;
                    case 3: d = std::nextafter(std::nextafter(d0, INFINITY), INFINITY); break;
                    case 4: d = std::nextafter(std::nextafter(d0, 0.0), 0.0); break;
                    default: break;
                }
                Case c;
                c.kind = 0;
                memcpy(&c.bits, &d, 8);
                if ((next() & 7) == 0) {
                    c.bits |= 0x8000000000000000ULL;
                }
                const unsigned pk = unsigned(next() % 8);
                c.precision       = (pk == 0) ? L : (pk == 1 && L > 2) ? L - 2 : L - 1;
                c.format          = 0;
                c.width           = 1;
                c.cls             = "big-tie";
                if (pbt::exec_case_fast<H>(ctx, c) == pbt::Status::Fail) {
                    return;
                }
            }
            return;
        }
        if (what.compare(0, 7, "sparse-") == 0) {
            // every double whose significand has an odd part of at most N bits, in the binades below 1e-200 and above 1e200
            // (where the digit generation keeps only a few guard words), at every precision 0..40 in the Default format
            Qentem::MemoryRecord::data().enabled = false;
            ctx.max_samples                      = 4;
            const unsigned nbits                 = unsigned(atoi(what.c_str() + 7));
            uint64_t       idx                   = 0;
            for (uint64_t odd = 1; odd < (1ULL << nbits); odd += 2) {
                if ((idx++ % nshards) != shard) {
                    continue;
                }
                // place the odd part so that its top bit is the implicit leading bit
                unsigned top = 63 - unsigned(__builtin_clzll(odd));
                uint64_t frac = (top == 0) ? 0 : ((odd & ((1ULL << top) - 1)) << (52 - top));
                for (unsigned be = 1; be < 2047; ++be) {
                    if (be > 358 && be < 1688) {
                        continue;
                    }
                    Case c;
                    c.kind   = 0;
                    c.bits   = (uint64_t(be) << 52) | frac;
                    c.format = 0;
                    c.width  = 1;
                    c.cls    = "sparse-enumeration";
                    for (unsigned prec = 0; prec <= 40; ++prec) {
                        c.precision = prec;
                        if (pbt::exec_case_fast<H>(ctx, c) == pbt::Status::Fail) {
                            return;
                        }
                    }
                }
            }
            ctx.exhaustive      = true;
            ctx.exhaustive_what = "every double with an odd significand part of at most " + std::to_string(nbits) +
                                  " bits in the binades below 1e-200 and above 1e200, precision 0..40, Default format";
            return;
        }
        if (what == "tiny-floats") {
            // every float with a bit pattern below 2^17 (the smallest subnormals: their exact values have up to 105 significant digits,
            // far more than the precision asks for) and the 2^16 patterns around the smallest normal, at precision 24..40, three formats
            Qentem::MemoryRecord::data().enabled = false;
            ctx.max_samples                      = 4;
            uint64_t idx = 0;
            for (uint32_t b = 1; b < (1u << 17) + (1u << 16); ++b) {
                if ((idx++ % nshards) != shard) {
                    continue;
                }
                Case c;
                c.kind  = 1;
                c.bits  = (b < (1u << 17)) ? b : (0x00800000u - (1u << 15) + (b - (1u << 17)));
                c.width = 1;
                c.cls   = "tiny-floats";
                for (unsigned prec = 24; prec <= 40; ++prec) {
                    for (int f = 0; f < 3; ++f) {
                        c.precision = prec;
                        c.format    = f;
                        if (pbt::exec_case_fast<H>(ctx, c) == pbt::Status::Fail) {
                            return;
                        }
                    }
                }
            }
            ctx.exhaustive      = true;
            ctx.exhaustive_what = "floats with bit patterns 1 .. 2^17 and the 2^16 patterns around the smallest normal, precision 24..40, three formats";
            return;
        }
        if (what.compare(0, 5, "wide-") == 0) {
            // "wide-<M>": M million doubles per shard from a fixed pseudo-random stream (a function of the shard number), each
            // with hundreds of integer or fraction digits (|binary exponent| >= 200), printed in the Fixed and SemiFixed formats
            // at precision 0..3 and Default at 17..40: the conversions in which the multi-word division runs longest, so that
            // a digit estimate that is wrong once in 10^8 conversions has somewhere to show
            Qentem::MemoryRecord::data().enabled = false;
            ctx.max_samples                      = 4;
            const uint64_t n = strtoull(what.c_str() + 5, nullptr, 10) * 1000000ULL;
            uint64_t       x = 0x9E3779B97F4A7C15ULL * (uint64_t(shard) + 1) + 10;
            for (uint64_t i = 0; i < n; ++i) {
                x ^= x << 13;
                x ^= x >> 7;
                x ^= x << 17;
                unsigned be = unsigned((x >> 52) & 0x7FF);
                if (be == 0x7FF) {
                    be = 0x7FE;
                }
                if (be > 823 && be < 1223) { // keep |exponent| >= 200
                    be = (be & 1) ? be - 400 : be + 400;
                }
                Case c;
                c.kind      = 0;
                c.bits      = (x & 0x800FFFFFFFFFFFFFULL) | (uint64_t(be) << 52);
                c.width     = 1;
                c.cls       = "wide-enumeration";
                const unsigned sel = unsigned(x >> 20) & 7;
                if (sel < 3) {
                    c.format    = 1;
                    c.precision = sel;
                } else if (sel < 6) {
                    c.format    = 2;
                    c.precision = sel - 3;
                } else {
                    c.format    = 0;
                    c.precision = 17 + unsigned(x >> 30) % 24;
                }
                if (pbt::exec_case_fast<H>(ctx, c) == pbt::Status::Fail) {
                    return;
                }
            }
            return; // a sample
        }
        unsigned p = 9;
        int      f = 0;
        sscanf(what.c_str(), "floats-%u-%d", &p, &f);
        ctx.max_samples = 4;
        Qentem::MemoryRecord::data().enabled = false;
        for (uint64_t b = shard; b <= 0xFFFFFFFFULL; b += nshards) {
            Case c;
            c.kind      = 1;
            c.bits      = b;
            c.precision = p;
            c.format    = f;
            c.width     = 1;
            c.cls       = "all-floats";
            if (pbt::exec_case_fast<H>(ctx, c) == pbt::Status::Fail) {
                return;
            }
        }
        ctx.exhaustive      = true;
        ctx.exhaustive_what = "all 2^32 float bit patterns at " + what;
    }
};

} // namespace

PBT_MAIN(H)
