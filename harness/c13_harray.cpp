// C13 — The hash array is an insertion-ordered map under every operation sequence.
//
// A generated program (1..80 operations, decoded deterministically from entropy bytes) is executed on a pool of three
// tables of one type (HArray<String<char>, SizeT>, HArray<String<char>, String<char>>, HArray<String<char>, Value<char>>
// or HList<String<char>>) and, in lock-step, on an ordered-list model. After every step the affected tables are compared
// with the model through the public observers only (Has/GetValue/GetKey/GetItem/GetKeyIndex/Size/ActualSize/iteration).
// The oracle is relational: it never predicts Size(), Capacity(), slot numbers or tombstone positions, it only reads
// them (index-addressed operations read GetKey(i) first and apply the operation to that key in the model).
//
// Generator restrictions (each one justified from the code, the tests or the comments in HashTable.hpp):
//  * Sort is executed only while no live key is a proper prefix of another live key: the library's string comparison
//    (StringUtils::IsLess/IsGreater) mis-orders a key that is a proper prefix of another key; that defect belongs to
//    property C15 and is kept out of this check. Where the precondition does not hold the operation is skipped
//    (label "skipped:sort-prefix"). The model orders keys by comparing code units as `char` (the library's Char_T),
//    i.e. exactly the comparison the key type declares; signedness of `char` is not judged here.
//  * Resize(n) with 0 < n < live count (a truncating shrink, HArrayTest.hpp TestHArray4 "Resize(1)") is executed only
//    while the model knows the table is tombstone-free (no removal since the last compaction) and Size() == live count;
//    then "the first n entries survive" is well defined. Otherwise skipped (label "skipped:resize-shrink").
//    Resize(n) with n >= live count is always executed and must not lose anything (there is room for every live entry).
//  * A table is never merged into itself and never move-assigned to itself.
//  * Rename onto an existing key (including from == to): HashTable.hpp documents "renames a key to a nonexisting one
//    ... and returns true if successful"; the code returns false and changes nothing, and that is what the model does.
//  * GetValue/GetItem with a caller-supplied hash are only called with the key's real StringUtils::Hash.
//  * The (const Char_T*) overloads (operator[], Remove) take NUL-terminated text: the model key is the part of the
//    generated key before its first NUL.
#include "common/pbt.hpp"
#include "common/jmodel.hpp"

#include <array>
#include <type_traits>

using namespace Qentem;

namespace {

using QStr = String<char>;

struct Case {
    std::vector<uint8_t> bytes;
    int                  vtype{0}; // 0 SizeT, 1 String<char>, 2 Value<char>, 3 HList
    int                  gen2{0};               // 2: as 1, and the full-hash theme has long one-unit-apart keys of one hash; 1: Insert(key, const Value&) may take its value from an entry of the same table (absent in older files: 0)
    bool                 has_marker_key{false}; // a key found by the marker hunt (replay of such a finding)
    std::string          marker_key;
};

// ---------------------------------------------------------------------------------------------------------------
// Key pools. Collision sets are brute-forced once, deterministically, from three-symbol keys.
inline SizeT qhash(const std::string &s) { return StringUtils::Hash(s.data(), SizeT(s.size())); }

struct KeyPool {
    std::vector<std::string> small, nul, low8a, low8zero, low3, low4, full; // full: consecutive entries pair up
    std::vector<std::string> everything;

    KeyPool() {
        small = {"a", "b", "c", "d", "ab", "key1", "key2", "k-10", "", "x", "abc", "2017", "ABCDEF0123456789ABCDEF0123456789",
                 "ABCDEF0123456789ABCDEF0123456780"};
        nul   = {std::string(), std::string(1, '\0'), std::string(2, '\0'), std::string("a\0", 2), std::string("a\0b", 3), "a",
                 std::string("\0a", 2), std::string("a\0c", 3), std::string("b\0", 2), "b"};
        static const char sym[] = "ABCDEFGHIJKLMNOPQRSTUVWXYZabcdefghijklmnopqrstuvwxyz0123456789-_";
        std::vector<std::pair<uint32_t, uint32_t>> hv;
        hv.reserve(64 * 64 * 64);
        auto key_of = [](uint32_t code) {
            std::string k(3, ' ');
            k[0] = sym[code >> 12];
            k[1] = sym[(code >> 6) & 63];
            k[2] = sym[code & 63];
            return k;
        };
        for (uint32_t code = 0; code < 64 * 64 * 64; ++code) {
            hv.emplace_back(uint32_t(qhash(key_of(code))), code);
        }
        const uint32_t target = uint32_t(qhash("key")) & 0xFFu;
        uint32_t       seen3 = 0, seen4 = 0; // which higher-bit patterns are already taken
        for (auto &p : hv) {
            uint32_t h = p.first;
            if ((h & 0xFFu) == target && low8a.size() < 10) {
                low8a.push_back(key_of(p.second));
            } else if ((h & 0xFFu) == 0 && low8zero.size() < 10) {
                low8zero.push_back(key_of(p.second));
            } else if ((h & 7u) == 5u && low3.size() < 8 && (seen3 & (1u << ((h >> 3) & 31u))) == 0) {
                seen3 |= 1u << ((h >> 3) & 31u); // same bucket up to capacity 8, all different at capacity 256
                low3.push_back(key_of(p.second));
            } else if ((h & 15u) == 9u && low4.size() < 8 && (seen4 & (1u << ((h >> 4) & 15u))) == 0) {
                seen4 |= 1u << ((h >> 4) & 15u);
                low4.push_back(key_of(p.second));
            }
        }
        std::sort(hv.begin(), hv.end());
        for (size_t i = 0; i + 1 < hv.size() && full.size() < 8; ++i) {
            if (hv[i].first == hv[i + 1].first) {
                full.push_back(key_of(hv[i].second));
                full.push_back(key_of(hv[i + 1].second));
                ++i;
            }
        }
        if (low8a.size() < 10 || low8zero.size() < 10 || low3.size() < 8 || low4.size() < 8 || full.size() < 4) {
            fprintf(stderr, "c13: collision-set search came up short (%zu %zu %zu %zu %zu)\n", low8a.size(), low8zero.size(), low3.size(),
                    low4.size(), full.size());
            abort();
        }
        for (size_t i = 0; i + 1 < full.size(); i += 2) {
            if (qhash(full[i]) != qhash(full[i + 1]) || full[i] == full[i + 1]) {
                fprintf(stderr, "c13: bad full-hash collision pair\n");
                abort();
            }
        }
        for (auto *l : {&small, &nul, &low8a, &low8zero, &low3, &low4, &full}) {
            for (auto &k : *l) {
                if (std::find(everything.begin(), everything.end(), k) == everything.end()) {
                    everything.push_back(k);
                }
            }
        }
    }
};

const KeyPool &key_pool() {
    static const KeyPool kp;
    return kp;
}

struct Prng { // splitmix64, seeded from the case header
    uint64_t s;
    uint64_t next() {
        uint64_t z = (s += 0x9E3779B97F4A7C15ULL);
        z          = (z ^ (z >> 30)) * 0xBF58476D1CE4E5B9ULL;
        z          = (z ^ (z >> 27)) * 0x94D049BB133111EBULL;
        return z ^ (z >> 31);
    }
    uint32_t below(uint32_t n) { return uint32_t(next() % n); }
};

// ---------------------------------------------------------------------------------------------------------------
// Program decoding: a pure function of the bytes (no library state), so the same decoding renders `ops=`.
enum Kind : uint8_t { INSERT, GET, REMOVE, REMOVE_INDEX, RENAME, MERGE, RESERVE, RESIZE, EXPECT, COMPRESS, CLEAR, RESET, SORT, ASSIGN, NKINDS };
const char *const kind_name[NKINDS] = {"Insert", "Get", "Remove", "RemoveIndex", "Rename", "Merge", "Reserve", "Resize", "Expect",
                                        "Compress", "Clear", "Reset", "Sort", "Assign"};

struct Op {
    uint8_t  kind{0}, variant{0}, a{0}, b{0}, k1{0}, k2{0};
    uint32_t n{0};
    uint32_t seed{0};
};

struct Program {
    int                      theme{0};
    std::vector<std::string> keys;
    unsigned                 cap[3]{0, 0, 0};
    std::vector<Op>          ops;
    bool                     collisions{false}, full_collisions{false};
};

const char *const theme_name[8] = {"small", "low8", "bucket0", "low3+low4", "fullhash", "nul", "random", "mix"};

Program decode(const Case &c) {
    const KeyPool &kp = key_pool();
    jm::Entropy    e(c.bytes);
    Program        p;
    p.theme         = int(e.below(8));
    unsigned nk     = e.byte();
    unsigned nkeys  = nk >= 236 ? 12 + (nk - 236) * 3 : 2 + nk % 11; // usually 2..12 keys (duplicates), sometimes up to 69
    uint64_t seed   = e.byte();
    seed            = (seed << 8) | e.byte();
    Prng     rng{seed * 0x100000001B3ULL + uint64_t(p.theme)};
    std::vector<std::string> base;
    switch (p.theme) {
        case 0:
            base = kp.small;
            if (c.gen2 >= 2) { // a key and the key plus one unit with the same hash (t / ti ...), and names that differ in the first unit only
                for (const char *k : {"t", "ti", "l", "la", "m", "mb", "year", "pear"}) {
                    base.push_back(k);
                }
            }
            break;
        case 1: base = kp.low8a; p.collisions = true; break;
        case 2: base = kp.low8zero; p.collisions = true; break;
        case 3:
            base = kp.low3;
            base.insert(base.end(), kp.low4.begin(), kp.low4.end());
            p.collisions = true;
            break;
        case 4:
            base = kp.low8a;
            base.resize(4);
            p.collisions = p.full_collisions = true;
            if (c.gen2 >= 2) {
                // long keys of one hash that differ in a single unit: every round of StringUtils::Hash multiplies by (length ^ offset), even in
                // every round of an even length, so the outer units of a long key are shifted out of the 32 bits. A stem of 64 / 96 / 128 units
                // and its one-unit variants at the outer positions (the first, the 8th, the 16th ..., the last ...) whose hash is confirmed equal.
                const size_t L = (size_t[]){64, 96, 128}[rng.below(3)];
                std::string  stem;
                for (size_t i = 0; i < L; ++i) {
                    stem.push_back("abcdefgh01"[rng.below(10)]);
                }
                base.push_back(stem);
                static const size_t at[] = {0, 7, 15, 23, 8, 1, 6, 16, 3, 31};
                for (size_t k = 0; k < 10 && base.size() < 10; ++k) {
                    for (int side = 0; side < 2; ++side) {
                        std::string v = stem;
                        const size_t q = side == 0 ? at[k] : L - 1 - at[k];
                        v[q]           = char(v[q] ^ 0x10);
                        if (qhash(v) == qhash(stem) && rng.below(3) != 0) {
                            base.push_back(v);
                        }
                    }
                }
            }
            break;
        case 5:
            base = kp.nul;
            if (c.gen2 != 0) {
                // keys that share one full 32-bit hash although their lengths differ: StringUtils::Hash multiplies by the
                // position, so long even-length keys made of NULs (after the first unit) all collapse to 0x80000000
                for (size_t len : {32u, 34u, 36u, 64u}) {
                    base.push_back(std::string(len, '\0'));
                }
                base.push_back("x" + std::string(31, '\0'));
                base.push_back("x" + std::string(33, '\0'));
                base.push_back("y" + std::string(31, '\0'));
                p.collisions = p.full_collisions = true;
            }
            break;
        case 6: {
            unsigned n = 3 + rng.below(10);
            for (unsigned i = 0; i < n; ++i) {
                std::string k;
                unsigned    len = rng.below(7);
                for (unsigned j = 0; j < len; ++j) {
                    k.push_back(char(rng.below(256)));
                }
                if (std::find(base.begin(), base.end(), k) == base.end()) {
                    base.push_back(k);
                }
            }
            break;
        }
        default: base = kp.everything; break;
    }
    // deterministic shuffle, then the first nkeys (a small alphabet forces duplicates)
    for (size_t i = base.size(); i > 1; --i) {
        std::swap(base[i - 1], base[rng.below(uint32_t(i))]);
    }
    if (base.size() > nkeys) {
        base.resize(nkeys);
    }
    if (p.theme == 4) { // full-hash collision pairs always present, in front
        base.insert(base.begin(), kp.full.begin(), kp.full.begin() + 4);
    }
    p.keys = base;
    for (int i = 0; i < 3; ++i) {
        unsigned v = e.byte();
        p.cap[i]   = (v & 1u) ? 0 : ((v >> 1) % 20); // half of the tables start without storage
    }
    static const uint8_t weights[64] = {INSERT, INSERT, INSERT, INSERT, INSERT, INSERT, INSERT, INSERT, INSERT, INSERT, INSERT, INSERT, INSERT, INSERT,
                                        GET,    GET,    GET,    GET,    GET,    GET,    GET,    GET,    GET,    GET,    REMOVE, REMOVE, REMOVE, REMOVE,
                                        REMOVE, REMOVE, REMOVE, REMOVE, REMOVE_INDEX, REMOVE_INDEX, REMOVE_INDEX, REMOVE_INDEX, RENAME, RENAME, RENAME,
                                        RENAME, RENAME, RENAME, MERGE,  MERGE,  MERGE,  MERGE,  RESERVE, RESIZE, RESIZE, RESIZE, EXPECT, EXPECT, COMPRESS,
                                        COMPRESS, CLEAR, RESET, SORT,  SORT,   SORT,   ASSIGN, ASSIGN, ASSIGN, ASSIGN, INSERT};
    static const uint8_t table_of[8]  = {0, 0, 0, 0, 1, 1, 2, 2};
    const unsigned       nops         = 80;
    while (p.ops.size() < nops && !e.exhausted()) {
        Op o;
        o.kind = weights[e.byte() & 63u];
        if (c.vtype == 3 && o.kind == GET) {
            o.kind = INSERT; // HList has no get-or-create
        }
        unsigned tb = e.byte();
        o.a         = table_of[tb & 7u];
        o.b         = table_of[(tb >> 3) & 7u];
        o.variant   = uint8_t(tb >> 6) | uint8_t((e.byte() & 0x3Fu) << 2);
        o.k1        = uint8_t(e.byte() % p.keys.size());
        unsigned x  = e.byte();
        o.k2        = uint8_t(x % p.keys.size());
        static const uint16_t big_n[8] = {63, 64, 65, 127, 128, 129, 256, 300};
        o.n                            = x >= 224 ? big_n[x & 7u] : x % 40; // mostly small, sometimes around the larger capacities
        o.seed      = uint32_t(p.ops.size() + 1) * 256u + (x ^ 0x55u); // distinct per step: "last value stored" is decidable
        if (o.kind == MERGE && o.a == o.b) {
            o.b = uint8_t((o.a + 1) % 3);
        }
        p.ops.push_back(o);
    }
    return p;
}

std::string c_prefix(const std::string &k) { return std::string(k.c_str()); }

// Rendering is on the per-case path (the frame stores the text of every case before running it): plain appends only.
void put_num(std::string &o, unsigned v) {
    char b[12];
    int  n = 0;
    do {
        b[n++] = char('0' + v % 10);
        v /= 10;
    } while (v != 0);
    while (n > 0) {
        o.push_back(b[--n]);
    }
}
void put_key(std::string &o, const std::string &k) { // same spelling as pbt::enc_bytes
    static const char hx[] = "0123456789ABCDEF";
    o.push_back('\'');
    for (unsigned char c : k) {
        if (c >= 0x21 && c < 0x7F && c != '%') {
            o.push_back(char(c));
        } else {
            o.push_back('%');
            o.push_back(hx[c >> 4]);
            o.push_back(hx[c & 15]);
        }
    }
    o.push_back('\'');
}
void put_table(std::string &o, unsigned t) {
    o.push_back('T');
    o.push_back(char('0' + t));
}

void describe_to(std::string &out, const Program &p, const Op &o, int vtype) {
    put_table(out, o.a);
    auto call = [&](const char *name, int variant) {
        out.push_back('.');
        out += name;
        if (variant >= 0) {
            out.push_back('#');
            put_num(out, unsigned(variant));
        }
        out.push_back('(');
    };
    switch (o.kind) {
        case INSERT:
            call("Insert", int(o.variant % (vtype == 3 ? 3u : 5u)));
            put_key(out, p.keys[o.k1]);
            out += ",v";
            put_num(out, o.seed);
            break;
        case GET:
            call("Get", int(o.variant % 4u));
            put_key(out, p.keys[o.k1]);
            if (o.variant & 4u) {
                out += ")=v";
                put_num(out, o.seed);
            } else {
                out += ") read";
            }
            return;
        case REMOVE:
            call("Remove", int(o.variant % 3u));
            put_key(out, p.keys[o.k1]);
            break;
        case REMOVE_INDEX:
            call("RemoveIndex", -1);
            put_num(out, o.n);
            out += " mod Size+1";
            break;
        case RENAME:
            call("Rename", int(o.variant % 2u));
            put_key(out, p.keys[o.k1]);
            out += "->";
            put_key(out, p.keys[o.k2]);
            break;
        case MERGE:
            out += (o.variant & 1u) ? "+=move " : "+=";
            put_table(out, o.b);
            return;
        case RESERVE:
        case RESIZE:
        case EXPECT:
            call(kind_name[o.kind], -1);
            put_num(out, o.n);
            break;
        case COMPRESS:
        case CLEAR:
        case RESET: call(kind_name[o.kind], -1); break;
        case SORT:
            call("Sort", -1);
            out += (o.variant & 1u) ? "asc" : "desc";
            break;
        default: {
            static const char *const how[4] = {"=copy-assign(", "=move-assign(", "=copy-construct(", "=move-construct("};
            out += how[(o.variant % 4u == 1 && o.a == o.b) ? 0 : o.variant % 4u]; // self-move is executed as self-copy
            put_table(out, o.b);
        }
    }
    out.push_back(')');
}
std::string describe(const Program &p, const Op &o, int vtype) {
    std::string s;
    describe_to(s, p, o, vtype);
    return s;
}

// ---------------------------------------------------------------------------------------------------------------
// Values: built from a seed, recognised structurally. Model value: -1 = default-constructed (get-or-create), else seed.
struct SeedText { // "v<seed>" followed by seed % 37 'x' characters (up to 47 characters)
    char   buf[64];
    size_t len;
    explicit SeedText(uint32_t seed) {
        len = size_t(snprintf(buf, sizeof buf, "v%u", seed));
        for (uint32_t i = 0; i < seed % 37u; ++i) {
            buf[len++] = 'x';
        }
    }
};

struct NoValue {};

template <typename V>
struct ValOps;

template <>
struct ValOps<NoValue> {
    static NoValue make(uint32_t) { return {}; }
    static bool    matches(const NoValue &, int64_t) { return true; }
};
template <>
struct ValOps<SizeT> {
    static SizeT make(uint32_t seed) { return SizeT(seed); }
    static bool  matches(const SizeT &v, int64_t m) { return m == -2 ? true : (m < 0 ? v == 0 : v == SizeT(m)); }
};
template <>
struct ValOps<QStr> {
    static QStr make(uint32_t seed) {
        SeedText t(seed);
        return QStr(static_cast<const char *>(t.buf), SizeT(t.len));
    }
    static bool matches(const QStr &v, int64_t m) {
        if (m == -2) {
            return true; // a value the model does not describe (moved-from, or taken over from a nested object)
        }
        if (m < 0) {
            return v.Length() == 0;
        }
        SeedText t{uint32_t(m)};
        return v.IsEqual(t.buf, SizeT(t.len));
    }
};
template <>
struct ValOps<Value<char>> {
    using VT = Value<char>;
    static VT make(uint32_t seed) {
        switch (seed % 5u) {
            case 0: return VT{SizeT64(seed)};
            case 1: return VT{ValOps<QStr>::make(seed)};
            case 2: {
                VT v{ValueType::Array};
                v += VT{SizeT64(seed)};
                v += VT{ValOps<QStr>::make(seed)};
                return v;
            }
            case 3: {
                VT v{ValueType::Object};
                v["n"]      = SizeT64(seed);
                v["s"]      = ValOps<QStr>::make(seed);
                v["o"]["i"] = SizeT64(seed + 1);
                return v;
            }
            default: return VT{double(seed) + 0.5};
        }
    }
    static bool is_num(const VT *v, double d) { return v != nullptr && v->IsNumber() && v->GetNumber() == d; }
    static bool is_str(const VT *v, uint32_t seed) { return v != nullptr && v->IsString() && v->GetString() != nullptr && ValOps<QStr>::matches(*v->GetString(), seed); }
    static bool matches(const VT &v, int64_t m) {
        if (m == -2) {
            return true; // a value the model does not describe (taken over from a nested object)
        }
        if (m < 0) {
            return v.IsUndefined();
        }
        uint32_t seed = uint32_t(m);
        switch (seed % 5u) {
            case 0: return is_num(&v, double(seed));
            case 1: return is_str(&v, seed);
            case 2: return v.IsArray() && v.Size() == 2 && is_num(v.GetValue(SizeT(0)), double(seed)) && is_str(v.GetValue(SizeT(1)), seed);
            case 3: {
                if (!v.IsObject() || v.Size() != 3) {
                    return false;
                }
                const VT *o = v.GetValue("o", SizeT(1));
                return is_num(v.GetValue("n", SizeT(1)), double(seed)) && is_str(v.GetValue("s", SizeT(1)), seed) && o != nullptr && o->IsObject() &&
                       o->Size() == 1 && is_num(o->GetValue("i", SizeT(1)), double(seed + 1));
            }
            default: return is_num(&v, double(seed) + 0.5);
        }
    }
};

// ---------------------------------------------------------------------------------------------------------------
struct Model {
    std::vector<std::pair<std::string, int64_t>> items; // live entries in iteration order
    bool may_tomb{false};                               // a removal happened since the last known compaction
    bool dirty{false};                                  // a removal or successful rename happened (for "non-trivial")

    int find(const std::string &k) const {
        for (size_t i = 0; i < items.size(); ++i) {
            if (items[i].first == k) {
                return int(i);
            }
        }
        return -1;
    }
    void put(const std::string &k, int64_t v, bool overwrite) {
        int i = find(k);
        if (i < 0) {
            items.emplace_back(k, v);
        } else if (overwrite) {
            items[size_t(i)].second = v;
        }
    }
    bool erase(const std::string &k) {
        int i = find(k);
        if (i < 0) {
            return false;
        }
        items.erase(items.begin() + i);
        may_tomb = dirty = true;
        return true;
    }
    void wipe() {
        items.clear();
        may_tomb = false;
    }
    bool prefix_free() const {
        for (auto &x : items) {
            for (auto &y : items) {
                if (x.first.size() < y.first.size() && y.first.compare(0, x.first.size(), x.first) == 0) {
                    return false;
                }
            }
        }
        return true;
    }
};

// key order as the key type declares it: code units compared as Char_T (= char)
bool char_less(const std::string &l, const std::string &r) {
    size_t n = std::min(l.size(), r.size());
    for (size_t i = 0; i < n; ++i) {
        if (l[i] != r[i]) {
            return l[i] < r[i];
        }
    }
    return l.size() < r.size(); // never decisive: Sort runs on prefix-free key sets only
}

std::string show_keys(const std::vector<std::string> &v) {
    std::string o = "[";
    for (size_t i = 0; i < v.size(); ++i) {
        o += (i ? "," : "");
        o += "'" + pbt::enc_bytes(v[i]) + "'";
    }
    return o + "]";
}

template <typename Table, typename V, bool HasV>
struct Runner {
    using HItem = typename Table::HItem;
    using VO    = ValOps<V>;

    struct UKey { // a key of the case's universe, with its library-side spelling built once
        std::string s;
        QStr        q;
        SizeT       hash;
    };

    const Program       &p;
    const Case          &cs;
    pbt::Ctx            &ctx;
    std::array<Table, 3> pool;
    Model                m[3];
    std::vector<UKey>    universe;
    const QStr           null_key{}; // the empty key as a storage-less String
    size_t               step{0};
    const Op            *cur{nullptr};
    const char          *phase{"construction"};
    std::string          note;
    // distribution counters (labels are emitted once per case)
    uint32_t kinds_seen{0};
    bool     f_tombstones{false}, f_removal{false}, f_rename{false}, f_rehash{false}, f_nontrivial{false}, f_skip_resize{false}, f_skip_sort{false},
        f_truncated{false}, f_resize_behind{false}, f_sort{false}, f_sort_tomb{false}, f_alias{false};

    Runner(const Program &pr, const Case &c, pbt::Ctx &cx)
        : p(pr), cs(c), ctx(cx), pool{Table(SizeT(pr.cap[0])), Table(SizeT(pr.cap[1])), Table(SizeT(pr.cap[2]))} {
        universe.reserve(p.keys.size() * 2);
        for (auto &k : p.keys) {
            add_universe(k);
            add_universe(c_prefix(k));
        }
    }

    void add_universe(const std::string &k) {
        for (auto &u : universe) {
            if (u.s == k) {
                return;
            }
        }
        universe.push_back(UKey{k, mk(k), qhash(k)});
    }

    [[noreturn]] void bad(const std::string &cls, int ti, const std::string &msg) {
        std::string what = cur != nullptr ? describe(p, *cur, cs.vtype) + note : std::string(phase);
        ctx.fail(cls, "step " + std::to_string(step) + " (" + what + "), table T" + std::to_string(ti) + ": " + msg);
    }

    static QStr mk(const std::string &k, bool null_if_empty = false) {
        if (null_if_empty && k.empty()) {
            return QStr{}; // the empty key without storage
        }
        return QStr(static_cast<const char *>(k.data()), SizeT(k.size())); // const pointer: copies (a char* would be adopted)
    }
    static std::string str(const QStr &s) { return s.Length() == 0 ? std::string() : std::string(s.First(), s.Length()); }

    std::vector<std::string> model_keys(int ti) const {
        std::vector<std::string> v;
        for (auto &kv : m[ti].items) {
            v.push_back(kv.first);
        }
        return v;
    }

    // ---- the oracle -------------------------------------------------------------------------------------------
    static bool same(const QStr &k, const std::string &s) {
        return k.Length() == s.size() && (s.empty() || memcmp(k.First(), s.data(), s.size()) == 0);
    }

    // slow path: the live key sequence differs from the model; name the kind of difference
    [[noreturn]] void diagnose(int ti) {
        const Table             &t = pool[size_t(ti)];
        std::vector<std::string> seen, want = model_keys(ti);
        for (SizeT i = 0; i < t.Size(); ++i) {
            if (const QStr *k = t.GetKey(i)) {
                seen.push_back(str(*k));
            }
        }
        std::string detail = "library order " + show_keys(seen) + " model " + show_keys(want);
        for (auto &k : want) {
            if (std::find(seen.begin(), seen.end(), k) == seen.end()) {
                bad("key-lost", ti, "'" + pbt::enc_bytes(k) + "' was stored and not removed but no index holds it; " + detail);
            }
        }
        for (auto &k : seen) {
            if (std::find(want.begin(), want.end(), k) == want.end()) {
                bad("key-ghost", ti, "'" + pbt::enc_bytes(k) + "' is visited although it is not stored; " + detail);
            }
        }
        if (seen.size() != want.size()) {
            bad("key-duplicated", ti, detail);
        }
        bad("order", ti, detail);
    }

    void check(int ti) {
        const Table &t  = pool[size_t(ti)];
        const Model &mm = m[ti];
        const SizeT  sz = t.Size(), act = t.ActualSize();
        if (sz < act) {
            bad("size-below-actual-size", ti, "Size()=" + std::to_string(sz) + " < ActualSize()=" + std::to_string(act));
        }
        if (sz > act) {
            f_tombstones = true;
        }
        // live keys by ascending index: the model's order, and index <-> key agreement
        size_t pos = 0;
        for (SizeT i = 0; i < sz; ++i) {
            const QStr  *k  = t.GetKey(i);
            const HItem *it = t.GetItem(i);
            if ((k == nullptr) != (it == nullptr)) {
                bad("getkey-getitem-disagree", ti, "index " + std::to_string(i));
            }
            if (k == nullptr) {
                if constexpr (HasV) {
                    if (t.GetValue(i) != nullptr) {
                        bad("value-at-tombstone", ti, "GetValue(" + std::to_string(i) + ") is non-null although GetKey is null");
                    }
                }
                continue;
            }
            if (k != &it->Key) {
                bad("getkey-getitem-disagree", ti, "GetKey/GetItem address different items at index " + std::to_string(i));
            }
            if (pos >= mm.items.size() || !same(*k, mm.items[pos].first)) {
                diagnose(ti);
            }
            SizeT      x1 = ~SizeT(0), x2 = ~SizeT(0);
            const bool f1 = t.GetKeyIndex(x1, *k);
            const bool f2 = t.GetKeyIndex(x2, k->First(), k->Length());
            if (!f1 || !f2 || x1 != i || x2 != i) {
                bad("index-key-disagree", ti,
                    "GetKey(" + std::to_string(i) + ")='" + pbt::enc_bytes(str(*k)) + "' but GetKeyIndex says " + (f1 ? std::to_string(x1) : "absent") + "/" +
                        (f2 ? std::to_string(x2) : "absent"));
            }
            if constexpr (HasV) {
                V *v = t.GetValue(i);
                if (v == nullptr || v != &it->Value) {
                    bad("getvalue-index", ti, "GetValue(" + std::to_string(i) + ") null or not the item's value");
                }
                if (!VO::matches(*v, mm.items[pos].second)) {
                    bad("wrong-value", ti, "value at index " + std::to_string(i) + " (key '" + pbt::enc_bytes(str(*k)) + "') is not the last one stored (v" +
                                               std::to_string(mm.items[pos].second) + ")");
                }
            }
            ++pos;
        }
        if (pos != mm.items.size()) {
            diagnose(ti);
        }
        if (act != mm.items.size()) {
            bad("actual-size", ti, "ActualSize()=" + std::to_string(act) + " but " + std::to_string(mm.items.size()) + " live keys");
        }
        // out-of-range indices
        for (SizeT i = sz; i < sz + 2; ++i) {
            if (t.GetKey(i) != nullptr || t.GetItem(i) != nullptr) {
                bad("index-out-of-range", ti, "GetKey/GetItem(" + std::to_string(i) + ") non-null with Size()=" + std::to_string(sz));
            }
            if constexpr (HasV) {
                if (t.GetValue(i) != nullptr) {
                    bad("index-out-of-range", ti, "GetValue(" + std::to_string(i) + ") non-null with Size()=" + std::to_string(sz));
                }
            }
        }
        // iteration (begin/end) and First/End/Last
        {
            size_t at  = 0;
            size_t raw = 0;
            for (const HItem &item : t) {
                ++raw;
                if (item.Hash == 0) {
                    continue;
                }
                if (at >= mm.items.size() || !same(item.Key, mm.items[at].first)) {
                    bad("iteration", ti, "range-for visits a different live sequence than GetKey(i)");
                }
                ++at;
            }
            if (at != mm.items.size() || raw != sz || t.End() != t.First() + sz || (sz != 0 && t.Last() != t.First() + (sz - 1)) ||
                (sz == 0 && t.Last() != nullptr) || t.IsEmpty() != (sz == 0) || pool[size_t(ti)].begin() != t.begin() || pool[size_t(ti)].end() != t.end()) {
                bad("iteration", ti, "begin/end/First/Last/End disagree with Size()");
            }
        }
        // every key of the universe, present or absent
        unsigned rot = unsigned(step);
        for (const UKey &u : universe) {
            ++rot;
            const std::string &ks      = u.s;
            const int          at      = mm.find(ks);
            const bool         present = at >= 0;
            const QStr        &key     = (ks.empty() && (rot & 4u) != 0) ? null_key : u.q;
            const char        *ptr     = ks.data();
            const SizeT        len     = SizeT(ks.size());
            const bool         h1 = t.Has(ptr, len), h2 = t.Has(key);
            if (h1 != present || h2 != present) {
                bad(present ? "key-lost" : "key-ghost", ti,
                    std::string("Has('") + pbt::enc_bytes(ks) + "') = " + (h1 ? "true" : "false") + "/" + (h2 ? "true" : "false") + " but the key is " +
                        (present ? "stored" : "not stored") + "; live keys " + show_keys(model_keys(ti)));
            }
            SizeT        idx = ~SizeT(0);
            const bool   fi  = (rot & 1u) ? t.GetKeyIndex(idx, key) : t.GetKeyIndex(idx, ptr, len);
            const HItem *it  = (rot & 2u) ? t.GetItem(key) : t.GetItem(ptr, len, u.hash);
            if (fi != present || (it != nullptr) != present) {
                bad(present ? "key-lost" : "key-ghost", ti, "GetKeyIndex/GetItem('" + pbt::enc_bytes(ks) + "') disagree with the model (present=" +
                                                               std::to_string(present) + ")");
            }
            if (present) {
                const QStr *back = t.GetKey(idx);
                if (back == nullptr || !same(*back, ks) || it != t.GetItem(idx) || !same(it->Key, ks)) {
                    bad("index-key-disagree", ti, "GetKeyIndex('" + pbt::enc_bytes(ks) + "')=" + std::to_string(idx) + " but that index holds another key");
                }
            }
            if constexpr (HasV) {
                V *v;
                switch (rot % 3u) {
                    case 0: v = t.GetValue(key); break;
                    case 1: v = t.GetValue(ptr, len); break;
                    default: v = t.GetValue(ptr, len, u.hash); break;
                }
                if ((v != nullptr) != present) {
                    bad(present ? "key-lost" : "key-ghost", ti, "GetValue('" + pbt::enc_bytes(ks) + "') " + (v ? "non-null" : "null") + ", model present=" +
                                                                   std::to_string(present));
                }
                if (present) {
                    if (v != &it->Value) {
                        bad("index-key-disagree", ti, "GetValue(key) and GetItem(key) address different items for '" + pbt::enc_bytes(ks) + "'");
                    }
                    if (!VO::matches(*v, mm.items[size_t(at)].second)) {
                        bad("wrong-value", ti, "lookup of '" + pbt::enc_bytes(ks) + "' does not return the last value stored (v" +
                                                   std::to_string(mm.items[size_t(at)].second) + ")");
                    }
                }
            }
        }
    }

    // ---- operations -------------------------------------------------------------------------------------------
    void do_insert(const Op &o) {
        Table             &t   = pool[o.a];
        Model             &mm  = m[o.a];
        const std::string &key = p.keys[o.k1];
        const bool         nul = (o.variant & 0x40u) != 0; // empty key as a storage-less String
        if constexpr (HasV) {
            V        val  = VO::make(o.seed);
            const V &cval = val;
            // the value argument of the const-reference overloads may be an entry of the same table (duplicating an entry:
            // h.Insert(k2, *h.GetValue(k1))); the table may have to grow for the new key while it still has to read that entry
            if (cs.gen2 != 0 && (o.variant & 0x80u) != 0 && (o.variant % 5u == 2 || o.variant % 5u == 3) && !mm.items.empty()) {
                const auto       &src  = mm.items[size_t(o.seed) % mm.items.size()];
                const std::string skey = src.first;
                const int64_t     sval = src.second;
                const V          *sp   = t.GetValue(skey.data(), SizeT(skey.size()));
                if (sp != nullptr) {
                    if (o.variant % 5u == 2) {
                        t.Insert(mk(key, nul), *sp);
                    } else {
                        const QStr k = mk(key, nul);
                        t.Insert(k, *sp);
                    }
                    mm.put(key, sval, true);
                    note = "value argument aliases the entry '" + pbt::enc_bytes(skey) + "'";
                    f_alias = true;
                    return;
                }
            }
            // ... and the rvalue overloads may be handed an entry of the same table (h.Insert(k2, move(*h.GetValue(k1)))): what is left
            // in the source entry is a moved-from value, the new entry holds the old content
            if (cs.gen2 != 0 && (o.variant & 0x80u) != 0 && (o.variant % 5u == 0 || o.variant % 5u == 1) && !mm.items.empty()) {
                auto             &src  = mm.items[size_t(o.seed) % mm.items.size()];
                const std::string skey = src.first;
                const int64_t     sval = src.second;
                V                *sp   = t.GetValue(skey.data(), SizeT(skey.size()));
                if (sp != nullptr && skey != key) {
                    if (o.variant % 5u == 0) {
                        t.Insert(mk(key, nul), Memory::Move(*sp));
                    } else {
                        const QStr k = mk(key, nul);
                        t.Insert(k, Memory::Move(*sp));
                    }
                    for (auto &it : mm.items) {
                        if (it.first == skey) {
                            it.second = -2;
                        }
                    }
                    mm.put(key, sval, true);
                    note    = "moved value argument is the entry '" + pbt::enc_bytes(skey) + "' of the same table";
                    f_alias = true;
                    return;
                }
            }
            switch (o.variant % 5u) {
                case 0: t.Insert(mk(key, nul), Memory::Move(val)); break;
                case 1: {
                    const QStr k = mk(key, nul);
                    t.Insert(k, Memory::Move(val));
                    break;
                }
                case 2: t.Insert(mk(key, nul), cval); break;
                case 3: {
                    const QStr k = mk(key, nul);
                    t.Insert(k, cval);
                    break;
                }
                default: t.Insert(static_cast<const char *>(key.data()), SizeT(key.size()), Memory::Move(val)); break;
            }
            mm.put(key, int64_t(o.seed), true);
        } else {
            switch (o.variant % 3u) {
                case 0: t.Insert(mk(key, nul)); break;
                case 1: {
                    const QStr k = mk(key, nul);
                    t.Insert(k);
                    break;
                }
                default: t.Insert(static_cast<const char *>(key.data()), SizeT(key.size())); break;
            }
            mm.put(key, 0, false);
        }
    }

    void do_get(const Op &o) {
        if constexpr (HasV) {
            Table      &t   = pool[o.a];
            Model      &mm  = m[o.a];
            std::string key = p.keys[o.k1];
            const bool  nul = (o.variant & 0x40u) != 0;
            V          *ref;
            switch (o.variant % 4u) {
                case 0: ref = &t.Get(static_cast<const char *>(key.data()), SizeT(key.size())); break;
                case 1:
                    key = c_prefix(key);
                    ref = &t[static_cast<const char *>(key.c_str())];
                    break;
                case 2: {
                    const QStr k = mk(key, nul);
                    ref          = &t[k];
                    break;
                }
                default: ref = &t[mk(key, nul)]; break;
            }
            mm.put(key, -1, false);
            const int64_t expect = mm.items[size_t(mm.find(key))].second;
            if (!VO::matches(*ref, expect)) {
                bad("wrong-value", o.a, "get-or-create of '" + pbt::enc_bytes(key) + "' returned a value that is not " +
                                            (expect < 0 ? std::string("default-constructed") : "v" + std::to_string(expect)));
            }
            if (o.variant & 4u) {
                *ref = VO::make(o.seed);
                mm.put(key, int64_t(o.seed), true);
            }
        }
    }

    void do_remove(const Op &o) {
        Table      &t   = pool[o.a];
        std::string key = p.keys[o.k1];
        switch (o.variant % 3u) {
            case 0:
                key = c_prefix(key);
                t.Remove(static_cast<const char *>(key.c_str()));
                break;
            case 1: t.Remove(static_cast<const char *>(key.data()), SizeT(key.size())); break;
            default: {
                const QStr k = mk(key, (o.variant & 0x40u) != 0);
                t.Remove(k);
            }
        }
        if (m[o.a].erase(key)) {
            f_removal = true;
        }
    }

    void do_remove_index(const Op &o) {
        Table      &t  = pool[o.a];
        const SizeT i  = SizeT(o.n % (t.Size() + 1)); // Size() itself: out of range, a no-op
        const QStr *k  = t.GetKey(i);
        note = " -> index " + std::to_string(i);
        if (k != nullptr) {
            std::string key = str(*k);
            note += " key '" + pbt::enc_bytes(key) + "'";
            t.RemoveIndex(i);
            if (!m[o.a].erase(key)) {
                bad("key-ghost", o.a, "GetKey(" + std::to_string(i) + ") returned '" + pbt::enc_bytes(key) + "' which is not stored");
            }
            f_removal = true;
        } else {
            t.RemoveIndex(i); // tombstone or out of range: nothing happens
        }
    }

    void do_rename(const Op &o) {
        Table             &t    = pool[o.a];
        Model             &mm   = m[o.a];
        const std::string &from = p.keys[o.k1], &to = p.keys[o.k2];
        const QStr         kf = mk(from, (o.variant & 0x40u) != 0);
        bool               r;
        if (o.variant % 2u == 0) {
            r = t.Rename(kf, mk(to, (o.variant & 0x80u) != 0));
        } else {
            const QStr kt = mk(to, (o.variant & 0x80u) != 0);
            r             = t.Rename(kf, kt);
        }
        const int  at     = mm.find(from);
        const bool expect = at >= 0 && mm.find(to) < 0;
        if (r != expect) {
            bad("rename-result", o.a, std::string("Rename returned ") + (r ? "true" : "false") + ", expected " + (expect ? "true" : "false") +
                                          " (from stored=" + std::to_string(at >= 0) + ", to stored=" + std::to_string(mm.find(to) >= 0) + ")");
        }
        if (expect) {
            mm.items[size_t(at)].first = to; // same position, same value
            mm.dirty                   = true;
            f_rename = true;
        }
    }

    void do_merge(const Op &o) {
        Table &dst = pool[o.a];
        Table &src = pool[o.b];
        for (auto &kv : m[o.b].items) {
            m[o.a].put(kv.first, kv.second, HasV);
        }
        if (o.variant & 1u) {
            dst += Memory::Move(src);
            m[o.b].wipe();
            m[o.b].dirty = false;
        } else {
            const Table &csrc = src;
            dst += csrc;
        }
    }

    void do_assign(const Op &o) {
        Table   &dst = pool[o.a];
        Table   &src = pool[o.b];
        unsigned how = o.variant % 4u;
        if (how == 1 && o.a == o.b) {
            how = 0; // self-move-assignment is not generated; self-copy-assignment is (guarded by the library)
        }
        Model copy    = m[o.b];
        copy.may_tomb = false; // copies hold live entries only
        if constexpr (std::is_same<V, Value<char>>::value) {
            // the table copy-assigned from a table that lives inside one of its own values (t = *t.GetValue(k)->GetObject()): the
            // source is destroyed with the old content unless the assignment copies it first
            if (cs.gen2 != 0 && how == 0 && (o.variant & 0x80u) != 0) {
                for (auto &it : m[o.a].items) {
                    if (it.second >= 0 && (uint32_t(it.second) % 5u) == 3u) {
                        const V *holder = dst.GetValue(it.first.data(), SizeT(it.first.size()));
                        if (holder != nullptr && holder->IsObject() && holder->GetObject() != nullptr) {
                            const std::string held = it.first; // (the model entry goes away below)
                            dst = *holder->GetObject();
                            Model nm;
                            nm.items = {{"n", -2}, {"s", -2}, {"o", -2}};
                            m[o.a]   = nm;
                            note     = "copy-assigned from the object inside its own entry '" + pbt::enc_bytes(held) + "'";
                            f_alias  = true;
                            add_universe("n");
                            add_universe("s");
                            add_universe("o");
                            return;
                        }
                    }
                }
            }
        }
        switch (how) {
            case 0: {
                const Table &csrc = src;
                dst               = csrc;
                if (o.a != o.b) {
                    m[o.a] = copy;
                }
                break;
            }
            case 1:
                dst    = Memory::Move(src);
                m[o.a] = m[o.b]; // the storage itself moves over, tombstones included
                m[o.b].wipe();
                m[o.b].dirty = false;
                break;
            case 2: {
                const Table &csrc = src;
                Table        tmp(csrc);
                dst    = Memory::Move(tmp);
                m[o.a] = copy;
                break;
            }
            default: {
                Table tmp(Memory::Move(src));
                Model mv = m[o.b];
                m[o.b].wipe();
                m[o.b].dirty = false;
                dst    = Memory::Move(tmp);
                m[o.a] = mv;
            }
        }
    }

    void run() {
        for (int i = 0; i < 3; ++i) {
            check(i);
        }
        for (const Op &o : p.ops) {
            ++step;
            cur = &o;
            note.clear();
            kinds_seen |= 1u << o.kind;
            const bool two = (o.kind == MERGE || o.kind == ASSIGN);
            // growth / rehash detection for the "non-trivial" predicate
            const void *st_a = pool[o.a].First(), *st_b = pool[o.b].First();
            const SizeT cp_a = pool[o.a].Capacity(), cp_b = pool[o.b].Capacity();
            const bool  dirty_before = m[o.a].dirty || (two && m[o.b].dirty);
            Table &t  = pool[o.a];
            Model &mm = m[o.a];
            switch (o.kind) {
                case INSERT: do_insert(o); break;
                case GET: do_get(o); break;
                case REMOVE: do_remove(o); break;
                case REMOVE_INDEX: do_remove_index(o); break;
                case RENAME: do_rename(o); break;
                case MERGE: do_merge(o); break;
                case RESERVE:
                    t.Reserve(SizeT(o.n));
                    mm.wipe();
                    break;
                case RESIZE: {
                    const size_t live = mm.items.size();
                    if (o.n != 0 && o.n < live && (mm.may_tomb || t.Size() != live)) {
                        f_skip_resize = true; // which entries a truncating shrink keeps is only defined without tombstones
                        note          = " [skipped]";
                        break;
                    }
                    // Resize(n) with n >= live count has room for every live entry, so nothing may be lost; with tombstones
                    // in front, live entries can sit at slot numbers >= n: remember them (read through GetKey only).
                    std::vector<std::string> behind;
                    if (o.n != 0 && o.n >= live) {
                        for (SizeT i = SizeT(o.n); i < t.Size(); ++i) {
                            if (const QStr *k = t.GetKey(i)) {
                                behind.push_back(str(*k));
                            }
                        }
                    }
                    if (o.n == 0) {
                        mm.wipe();
                    } else if (o.n < live) {
                        mm.items.resize(o.n);
                        f_truncated = true;
                    }
                    t.Resize(SizeT(o.n));
                    mm.may_tomb = false;
                    for (auto &k : behind) {
                        if (!t.Has(k.data(), SizeT(k.size()))) {
                            ctx.deviation("resize-drops-live-entry-behind-tombstone",
                                          "step " + std::to_string(step) + " (" + describe(p, o, cs.vtype) + "), table T" + std::to_string(o.a) + ": " +
                                              std::to_string(live) + " live entries fit into Resize(" + std::to_string(o.n) + ") but '" + pbt::enc_bytes(k) +
                                              "', stored at a slot index >= " + std::to_string(o.n) + " behind removed entries, is gone; model keys " +
                                              show_keys(model_keys(o.a)));
                        }
                    }
                    f_resize_behind |= !behind.empty();
                    break;
                }
                case EXPECT: t.Expect(SizeT(o.n)); break;
                case COMPRESS:
                    t.Compress();
                    mm.may_tomb = false;
                    break;
                case CLEAR:
                    t.Clear();
                    mm.wipe();
                    break;
                case RESET:
                    t.Reset();
                    mm.wipe();
                    break;
                case SORT: {
                    // Only on prefix-free live key sets: the comparison's treatment of proper prefixes is property C15's business.
                    if (!mm.prefix_free()) {
                        f_skip_sort = true;
                        note        = " [skipped]";
                        break;
                    }
                    const bool asc = (o.variant & 1u) != 0;
                    t.Sort(asc);
                    std::sort(mm.items.begin(), mm.items.end(), [asc](const std::pair<std::string, int64_t> &l, const std::pair<std::string, int64_t> &r) {
                        return asc ? char_less(l.first, r.first) : char_less(r.first, l.first);
                    });
                    if (mm.items.size() > 1) {
                        (t.Size() > t.ActualSize() ? f_sort_tomb : f_sort) = true;
                    }
                    break;
                }
                default: do_assign(o); break;
            }
            check(o.a);
            if (two && o.b != o.a) {
                check(o.b);
            }
            const bool moved = pool[o.a].First() != st_a || pool[o.a].Capacity() != cp_a || (two && (pool[o.b].First() != st_b || pool[o.b].Capacity() != cp_b));
            if (moved) {
                f_rehash = true;
                if (dirty_before) {
                    f_nontrivial = true; // removal/rename, then growth or rehash, then the lookups of check()
                }
            }
        }
        cur   = nullptr;
        phase = "end of program";
        for (int i = 0; i < 3; ++i) {
            check(i);
        }
        if (f_nontrivial) {
            ctx.nontrivial();
        }
        ctx.label(std::string("theme:") + theme_name[p.theme]);
        ctx.label("alphabet-has-bucket-collisions", p.collisions);
        ctx.label("alphabet-has-full-hash-collisions", p.full_collisions);
        for (unsigned k = 0; k < NKINDS; ++k) {
            ctx.label(std::string("op:") + kind_name[k], (kinds_seen >> k) & 1u);
        }
        ctx.label("tombstones-present", f_tombstones);
        ctx.label("effective-removal", f_removal);
        ctx.label("effective-rename", f_rename);
        ctx.label("rehash-happened", f_rehash);
        ctx.label("removal-or-rename-then-rehash", f_nontrivial);
        ctx.label("skipped:resize-shrink", f_skip_resize);
        ctx.label("skipped:sort-prefix", f_skip_sort);
        ctx.label("resize-truncated", f_truncated);
        ctx.label("resize-with-live-entries-behind-n", f_resize_behind);
        ctx.label("sort-executed", f_sort);
        ctx.label("sort-with-tombstones", f_sort_tomb);
        ctx.label("insert-value-aliases-own-entry", f_alias);
    }
};

template <typename Table, typename V, bool HasV>
void run_type(const Case &c, pbt::Ctx &ctx) {
    Program                 p = decode(c);
    Runner<Table, V, HasV> r(p, c, ctx);
    r.run();
}

struct H {
    using Case = ::Case;
    static const char *name() { return "C13 hash array is an insertion-ordered map"; }
    static rc::Gen<Case> gen() {
        using namespace rc;
        return gen::map(gen::tuple(gen::resize(420, gen::container<std::vector<uint8_t>>(gen::arbitrary<uint8_t>())), pbt::pick<int>({0, 0, 1, 1, 2, 2, 3}),
                                   pbt::pick<int>({0, 1, 2, 2})),
                        [](std::tuple<std::vector<uint8_t>, int, int> t) {
                            Case c;
                            c.bytes = std::get<0>(t);
                            c.vtype = std::get<1>(t);
                            c.gen2  = std::get<2>(t);
                            return c;
                        });
    }
    static void check_marker_key(const std::string &k, pbt::Ctx &ctx) {
        HArray<QStr, SizeT> t;
        t.Insert(QStr("a", 1), SizeT(1));
        t.Insert(QStr(k.data(), SizeT(k.size())), SizeT(2));
        t.Insert(QStr("b", 1), SizeT(3));
        auto bad = [&](const std::string &w) {
            ctx.fail("live-key-hashes-to-removed-marker", "key '" + pbt::enc_bytes(k) + "' hashes to 0, the removed-slot marker: " + w);
        };
        SizeT idx = 0;
        if (!t.Has(k.data(), SizeT(k.size())) || !t.GetKeyIndex(idx, k.data(), SizeT(k.size())) || idx != 1) {
            bad("not found after Insert");
        }
        if (t.GetKey(1) == nullptr || t.GetValue(SizeT(1)) == nullptr || *t.GetValue(SizeT(1)) != 2) {
            bad("found by key but index 1 reads as removed");
        }
        if (t.ActualSize() != 3) {
            bad("ActualSize() does not count it");
        }
        for (unsigned g = 0; g < 40; ++g) { // growth / rehash
            std::string o = "g" + std::to_string(g);
            t.Insert(QStr(o.data(), SizeT(o.size())), SizeT(g));
        }
        HArray<QStr, SizeT> copy{t};
        t.Compress();
        if (!t.Has(k.data(), SizeT(k.size())) || !copy.Has(k.data(), SizeT(k.size()))) {
            bad("lost across growth / copy / Compress");
        }
    }
    // "marker-hunt-<M>": the table marks a removed slot by a stored hash of 0, so a live key must never hash to 0. Each shard
    // walks M million key stems (14-24 symbols, alphanumeric or arbitrary bytes) and solves for the middle symbol, which
    // StringUtils::Hash folds in last: if the hash of the stem with that symbol = 0 is h, the symbol
    // that would cancel it is -h when that fits a char (the last fold is an addition in the present function; nothing relies
    // on that - a candidate only counts after Hash() of the completed key really returns 0). Every stem therefore stands for
    // 256 keys. A key that does hash to 0 must still be a live entry: found, counted, readable by index, and kept across
    // growth, copy and Compress.
    static void enumerate(pbt::Ctx &ctx, unsigned shard, unsigned nshards, const std::string &what) {
        (void)nshards;
        Qentem::MemoryRecord::data().enabled = false;
        ctx.check_ledger                     = false;
        ctx.distinct_by_construction         = true;
        uint64_t millions = 100;
        if (what.rfind("marker-hunt-", 0) == 0) {
            millions = strtoull(what.c_str() + 12, nullptr, 10);
        } else {
            fprintf(stderr, "unknown enumeration %s\n", what.c_str());
            exit(3);
        }
        static const char sym[] = "abcdefghijklmnopqrstuvwxyz0123456789";
        const unsigned    L     = 14 + 2 * (shard % 6); // even lengths: the middle symbol is folded in exactly once, last
        const unsigned    mid   = L / 2;                // the symbol solved for
        const bool        alnum = ((shard / 6) % 2) == 0;
        char              key[32];
        // stems: a fixed pseudo-random sequence per shard (xorshift64, a pure function of the shard number - the hash mixes
        // its inner symbols so weakly that an odometer over a few positions only reaches a narrow band of hash values)
        uint64_t       x = 0x9E3779B97F4A7C15ULL * (uint64_t(shard) + 1);
        const uint64_t n = millions * 1000000ULL;
        uint64_t       zero_keys = 0, candidates = 0;
        for (uint64_t i = 0; i < n; ++i) {
            for (unsigned j = 0; j < L; j += 8) {
                x ^= x << 13;
                x ^= x >> 7;
                x ^= x << 17;
                uint64_t r = x;
                for (unsigned k = j; k < j + 8 && k < L; ++k) {
                    key[k] = alnum ? sym[(r & 255) % 36] : char(r & 255);
                    r >>= 8;
                }
            }
            key[mid]      = 0;
            const SizeT h = StringUtils::Hash(key, SizeT(L));
            const SizeT d = SizeT(0) - h;
            bool        try_it = false;
            if (d <= SizeT(127)) {
                key[mid] = char(d);
                try_it   = true;
            } else if (d >= SizeT(0) - SizeT(128)) {
                key[mid] = char(-int(SizeT(0) - d));
                try_it   = true;
            }
            if (try_it) {
                ++candidates;
            }
            if (try_it && StringUtils::Hash(key, SizeT(L)) == 0) {
                ++zero_keys;
                const std::string k(key, L);
                try {
                    check_marker_key(k, ctx);
                } catch (const pbt::Failure &f) {
                    ctx.fail_text = "marker_key=" + pbt::enc_bytes(k) + "\nvtype=0\nbytes=\n";
                    ctx.failed    = true;
                    ctx.fail_cls  = f.cls;
                    ctx.fail_msg  = f.msg;
                    ctx.write_stats();
                    return;
                }
            }
        }
        ctx.evaluations += n;
        ctx.labels["marker-hunt:stems-hashed(x256 keys)"] += n;
        ctx.labels["marker-hunt:candidates-completed"] += candidates;
        ctx.labels["marker-hunt:keys-hashing-to-marker"] += zero_keys;
        ctx.nontrivial_counted += candidates;
        ctx.nontrivial_total += candidates;
    }
    // coverage-guided mode: selector byte, then entropy
    static bool from_fuzz(const uint8_t *d, size_t n, Case &c) {
        static const bool pooled = (key_pool(), true); // collision sets are built before the first case
        (void)pooled;
        pbt::FuzzBytes f(d, n);
        const uint8_t sel = f.sel();
        c.vtype = sel & 3;
        c.gen2  = ((sel >> 2) & 1) + ((sel >> 2) & (sel >> 3) & 1);
        c.bytes = f.rest();
        return true;
    }
    static std::string to_text(const Case &c) {
        static const char hx[] = "0123456789abcdef";
        std::string       t;
        t.reserve(c.bytes.size() * 2 + 4096);
        if (c.has_marker_key) {
            return "marker_key=" + pbt::enc_bytes(c.marker_key) + "\nvtype=0\nbytes=\n";
        }
        t += "bytes=";
        for (uint8_t x : c.bytes) {
            t.push_back(hx[x >> 4]);
            t.push_back(hx[x & 15]);
        }
        t += "\nvtype=";
        put_num(t, unsigned(c.vtype));
        t += "\ngen2=";
        put_num(t, unsigned(c.gen2));
        // readable rendering of the decoded program (ignored by from_text)
        Program p = decode(c);
        t += "\nops=theme ";
        t += theme_name[p.theme];
        t += "; keys [";
        for (size_t i = 0; i < p.keys.size(); ++i) {
            if (i != 0) {
                t.push_back(',');
            }
            put_key(t, p.keys[i]);
        }
        t += "]; initial sizes ";
        for (int i = 0; i < 3; ++i) {
            put_num(t, p.cap[i]);
            t.push_back(i < 2 ? ',' : ';');
        }
        for (auto &o : p.ops) {
            t.push_back(' ');
            describe_to(t, p, o, c.vtype);
            t.push_back(';');
        }
        t.push_back('\n');
        return t;
    }
    static Case from_text(const std::string &t) {
        pbt::KV     kv = pbt::KV::parse(t);
        Case        c;
        std::string hex = kv.get("bytes");
        for (size_t i = 0; i + 1 < hex.size(); i += 2) {
            c.bytes.push_back(uint8_t(strtoul(hex.substr(i, 2).c_str(), nullptr, 16)));
        }
        c.vtype = int(kv.geti("vtype", 0));
        c.gen2  = int(kv.geti("gen2", 0));
        if (kv.has("marker_key")) {
            c.has_marker_key = true;
            c.marker_key     = pbt::dec_bytes(kv.get("marker_key"));
        }
        return c;
    }
    static void run(const Case &c, pbt::Ctx &ctx) {
        if (c.has_marker_key) {
            ctx.nontrivial();
            check_marker_key(c.marker_key, ctx);
            return;
        }
        switch (c.vtype) {
            case 0:
                ctx.label("vtype:SizeT");
                run_type<HArray<QStr, SizeT>, SizeT, true>(c, ctx);
                break;
            case 1:
                ctx.label("vtype:String");
                run_type<HArray<QStr, QStr>, QStr, true>(c, ctx);
                break;
            case 2:
                ctx.label("vtype:Value");
                run_type<HArray<QStr, Value<char>>, Value<char>, true>(c, ctx);
                break;
            default:
                ctx.label("vtype:HList");
                run_type<HList<QStr>, NoValue, false>(c, ctx);
                break;
        }
    }
};

} // namespace

#ifdef VERIF_FUZZ_GENERIC
PBT_MAIN(H)
#else
int main(int argc, char **argv) {
    key_pool(); // brute-force the collision sets before the first case (and outside the allocation ledger's window)
    return pbt::run_main<H>(argc, argv);
}
#endif
