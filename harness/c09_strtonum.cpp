// C09 — text to number: integers exact, reals within one ulp of the correctly rounded value, out-of-range
// rejected, malformed rejected, exactly the numeral consumed.
// Oracle: glibc strtod (correctly rounded) on the same text; exact integer comparison through decimal strings.
#include "common/pbt.hpp"
#include "common/bigdec.hpp"

#include <cmath>

using namespace Qentem;

namespace {

struct Case {
    std::string text;       // the numeral (ASCII)
    std::string prefix;     // units before the numeral inside the buffer (the parse starts after them)
    std::string terminator; // "" or one of , ] } space
    int         width{1};
    int         malformed{0}; // 1: generated from the malformed class (must be rejected)
    std::string cls;          // generator class (label)
};

bool is_integer_syntax(const std::string &t) {
    for (char c : t) {
        if (c == '.' || c == 'e' || c == 'E') {
            return false;
        }
    }
    return true;
}

// compare decimal digit strings (no sign, no leading zeros except "0")
int cmp_dec(const std::string &a, const std::string &b) {
    if (a.size() != b.size()) {
        return a.size() < b.size() ? -1 : 1;
    }
    return a.compare(b) < 0 ? -1 : (a == b ? 0 : 1);
}

bool mantissa_is_zero(const std::string &t) {
    for (char c : t) {
        if (c == 'e' || c == 'E') {
            break;
        }
        if (c >= '1' && c <= '9') {
            return false;
        }
    }
    return true;
}

template <typename Char_T>
void run_width(const Case &c, pbt::Ctx &ctx) {
    std::string all = c.prefix + c.text + c.terminator;
    Char_T     *buf = static_cast<Char_T *>(malloc(all.size() * sizeof(Char_T) + (all.empty() ? 1 : 0)));
    for (size_t i = 0; i < all.size(); ++i) {
        // a byte above 0x7F stands, in the wider instantiations, for the unit U+0100 | low seven bits: a non-ASCII unit whose low byte
        // is an ASCII character (U+0130 ends in '0', U+012E in '.', U+0165 in 'e') - it is not part of any numeral
        const unsigned char ch = (unsigned char)all[i];
        buf[i]                 = (sizeof(Char_T) > 1 && ch >= 0x80) ? Char_T(0x0100U | (ch & 0x7FU)) : Char_T(ch);
    }
    QNumber64   num;
    SizeT       offset = SizeT(c.prefix.size());
    QNumberType type   = Digit::StringToNumber(num, buf, offset, SizeT(all.size()));
    free(buf);
    const size_t consumed = size_t(offset) - c.prefix.size();

    if (c.malformed) {
        if (type != QNumberType::NotANumber) {
            ctx.fail("malformed-accepted", "malformed numeral '" + c.text + "' was accepted, kind " + std::to_string(int(type)));
        }
        return;
    }

    const bool        neg    = (!c.text.empty() && c.text[0] == '-');
    const std::string digits = (c.text[0] == '-' || c.text[0] == '+') ? c.text.substr(1) : c.text;
    const double      ref    = strtod(c.text.c_str(), nullptr);

    auto describe = [&](const char *what) {
        char b[256];
        snprintf(b, sizeof b, "%s: text='%.80s%s' kind=%d bits=%016llx ref=%016llx (%.17g) consumed=%zu/%zu", what, c.text.c_str(),
                 c.text.size() > 80 ? "..." : "", int(type), (unsigned long long)num.Natural, (unsigned long long)[&] {
                     uint64_t r;
                     memcpy(&r, &ref, 8);
                     return r;
                 }(),
                 ref, consumed, c.text.size());
        return std::string(b);
    };

    // out of range: must be NaN-kind or infinity
    if (std::isinf(ref)) {
        if (type == QNumberType::NotANumber) {
            return;
        }
        if (type == QNumberType::Real && std::isinf(num.Real) && (std::signbit(num.Real) == neg)) {
            return;
        }
        if (type == QNumberType::Real && std::isnan(num.Real)) {
            ctx.label("overflow-reported-as-nan-valued-real");
            return; // a NaN is "reported as not-a-number"
        }
        ctx.deviation("overflow-finite", describe("numeral beyond the largest finite double gave a finite value"));
    }

    // zero mantissa with an exponent / fraction: value is zero
    if (type == QNumberType::NotANumber) {
        if (mantissa_is_zero(c.text) && !is_integer_syntax(c.text)) {
            ctx.deviation("zero-mantissa-exponent", describe("numeral with zero mantissa rejected"));
        }
        ctx.fail("valid-rejected", describe("valid numeral rejected"));
    }

    if (consumed != c.text.size()) {
        if (mantissa_is_zero(c.text) && !is_integer_syntax(c.text)) {
            ctx.deviation("zero-mantissa-exponent", describe("numeral with zero mantissa not consumed completely"));
        }
        ctx.fail("short-consume", describe("consumed length differs from the numeral's length"));
    }

    if (is_integer_syntax(c.text)) {
        // strip leading zeros cannot occur (grammar), "0" stays
        const bool fits_u64 = cmp_dec(digits, "18446744073709551615") <= 0;
        const bool fits_i64 = cmp_dec(digits, "9223372036854775808") <= 0;
        if (!neg && fits_u64) {
            if (type != QNumberType::Natural || std::to_string(num.Natural) != digits) {
                ctx.fail("integer-inexact", describe("unsigned integer numeral that fits 64 bits"));
            }
            return;
        }
        if (neg && fits_i64 && digits != "0") {
            // -2^63 .. -1
            bool ok = false;
            if (type == QNumberType::Integer) {
                std::string got = std::to_string(num.Integer); // "-123"
                ok              = (got == "-" + digits);
            }
            if (!ok) {
                ctx.fail("integer-inexact", describe("negative integer numeral that fits 64 bits"));
            }
            return;
        }
        // "-0" and integers that do not fit: fall through to the real comparison
    }

    double got;
    if (type == QNumberType::Real) {
        got = num.Real;
    } else if (type == QNumberType::Natural) {
        got = double(num.Natural);
        if (is_integer_syntax(c.text) || double(num.Natural) != ref) { // only exact integral values may come back as integers
            ctx.fail("kind", describe("Natural kind for a numeral that is not a fitting integer"));
        }
    } else {
        got = double(num.Integer);
        if (is_integer_syntax(c.text) || double(num.Integer) != ref) {
            ctx.fail("kind", describe("Integer kind for a numeral that is not a fitting integer"));
        }
    }
    if (std::isnan(got)) {
        ctx.fail("nan-value", describe("Real kind carrying a NaN"));
    }
    if (std::signbit(got) != neg) {
        ctx.fail("sign", describe("sign not preserved"));
    }
    int64_t d = bigdec::ordered(got) - bigdec::ordered(ref);
    if (d < -1 || d > 1) {
        ctx.fail("ulp", describe("more than one unit in the last place from the correctly rounded value"));
    }
    ctx.label(d == 0 ? "exact-rounding" : "off-by-one-ulp");
}

// ------------------------------------------------------------------------------------------------ generators
using rc::Gen;
namespace gen = rc::gen;

Gen<std::string> digits_gen(int lo, int hi, bool first_nonzero) {
    return gen::mapcat(pbt::range<int>(lo, hi), [first_nonzero](int n) {
        return gen::map(gen::container<std::vector<int>>(size_t(n), pbt::range<int>(0, 9)), [first_nonzero](std::vector<int> v) {
            std::string s;
            for (int d : v) {
                s.push_back(char('0' + d));
            }
            if (first_nonzero && !s.empty() && s[0] == '0') {
                s[0] = '7';
            }
            return s;
        });
    });
}

Gen<std::string> sign_gen() { return pbt::pick<std::string>({"", "", "-", "-", "+"}); }

Gen<std::string> exp_gen(int lo, int hi) {
    return gen::map(gen::tuple(pbt::pick<std::string>({"e", "E"}), pbt::pick<std::string>({"", "+", "-"}), pbt::range<int>(lo, hi),
                               pbt::range<int>(0, 2)),
                    [](std::tuple<std::string, std::string, int, int> t) {
                        int         v = std::get<2>(t);
                        std::string s = std::get<1>(t);
                        if (v < 0) {
                            s = "-";
                            v = -v;
                        }
                        std::string num = std::to_string(v);
                        // leading zeros are legal in an exponent (any number of them: 1e0000000005 is 1e5)
                        static const size_t pad[] = {0, 0, 2};
                        num = std::string(pad[std::get<3>(t)], '0') + num;
                        return std::get<0>(t) + s + num;
                    });
}

Gen<Case> finish(Gen<std::string> text, std::string cls, int malformed = 0) {
    return gen::map(gen::tuple(std::move(text),
                               pbt::pick<std::string>({"", "", ",", "]", "}", " ", "", ",", "]", " ", "\xB0", "\xB7", "\xB9", "\xAE", "\xE5", "\xC5", "\xAB", "\xAD", "\xB0,"}),
                               pbt::pick<int>({1, 1, 2, 4, 3}),
                               pbt::pick<std::string>({"", "", "[", "[ 1,", "{\"a\":"})),
                    [cls, malformed](std::tuple<std::string, std::string, int, std::string> t) {
                        Case c;
                        c.text       = std::get<0>(t);
                        c.terminator = std::get<1>(t);
                        c.width      = std::get<2>(t);
                        c.prefix     = std::get<3>(t);
                        c.cls        = cls;
                        c.malformed  = malformed;
                        return c;
                    });
}

std::string add_small(const std::string &dec, int delta) { // dec >= 3, |delta| <= 3
    std::string s = dec;
    int         i = int(s.size()) - 1;
    int         carry = delta;
    while (i >= 0 && carry != 0) {
        int v = (s[size_t(i)] - '0') + carry;
        carry = 0;
        while (v < 0) {
            v += 10;
            carry -= 1;
        }
        while (v > 9) {
            v -= 10;
            carry += 1;
        }
        s[size_t(i)] = char('0' + v);
        --i;
    }
    if (carry > 0) {
        s = std::to_string(carry) + s;
    }
    size_t nz = 0;
    while (nz + 1 < s.size() && s[nz] == '0') {
        ++nz;
    }
    return s.substr(nz);
}

Gen<double> finite_positive_double() {
    auto bits = gen::map(gen::tuple(pbt::range<uint64_t>(0, 0x7FEULL), gen::arbitrary<uint64_t>()), [](std::tuple<uint64_t, uint64_t> t) {
        uint64_t b = (std::get<0>(t) << 52) | (std::get<1>(t) & 0xFFFFFFFFFFFFFULL);
        double   d;
        memcpy(&d, &b, 8);
        return d;
    });
    auto modest = gen::map(gen::tuple(pbt::range<uint64_t>(1023 - 70, 1023 + 70), gen::arbitrary<uint64_t>()), [](std::tuple<uint64_t, uint64_t> t) {
        uint64_t b = (std::get<0>(t) << 52) | (std::get<1>(t) & 0xFFFFFFFFFFFFFULL);
        double   d;
        memcpy(&d, &b, 8);
        return d;
    });
    return gen::oneOf(bits, modest);
}

Gen<Case> gen_case() {
    // 1 small integers
    auto ints = finish(gen::map(gen::tuple(sign_gen(), digits_gen(1, 18, true)), [](std::tuple<std::string, std::string> t) { return std::get<0>(t) + std::get<1>(t); }),
                       "integer");
    // 2 integer boundaries
    auto bounds = finish(
        gen::map(gen::tuple(pbt::pick<std::string>({"9223372036854775807", "9223372036854775808", "18446744073709551615", "18446744073709551616",
                                                    "1844674407370955161", "9999999999999999999", "10000000000000000000", "99999999999999999999",
                                                    "184467440737095516150", "1000000000000000000", "4611686018427387904", "9007199254740992",
                                                    "9007199254740993", "18446744073709551609", "18446744073709549568"}),
                            pbt::range<int>(-3, 3), pbt::pick<std::string>({"", "-", "+"})),
                 [](std::tuple<std::string, int, std::string> t) { return std::get<2>(t) + add_small(std::get<0>(t), std::get<1>(t)); }),
        "integer-boundary");
    // 3 plain decimals
    auto decimals = finish(gen::map(gen::tuple(sign_gen(), gen::oneOf(digits_gen(1, 25, true), gen::just(std::string("0"))), digits_gen(1, 25, false),
                                               gen::oneOf(gen::just(std::string()), exp_gen(-30, 30))),
                                    [](std::tuple<std::string, std::string, std::string, std::string> t) {
                                        return std::get<0>(t) + std::get<1>(t) + "." + std::get<2>(t) + std::get<3>(t);
                                    }),
                           "decimal");
    // 4 integers with exponent
    auto intexp = finish(gen::map(gen::tuple(sign_gen(), digits_gen(1, 22, true), exp_gen(-300, 280)),
                                  [](std::tuple<std::string, std::string, std::string> t) { return std::get<0>(t) + std::get<1>(t) + std::get<2>(t); }),
                         "integer-exponent");
    // 5 long digit strings (hundreds of digits)
    auto longs = finish(gen::map(gen::tuple(sign_gen(), digits_gen(1, 300, true), gen::oneOf(gen::just(std::string()), digits_gen(1, 400, false)),
                                            pbt::range<int>(0, 1)),
                                 [](std::tuple<std::string, std::string, std::string, int> t) {
                                     std::string s = std::get<0>(t) + std::get<1>(t);
                                     if (!std::get<2>(t).empty()) {
                                         s += "." + std::get<2>(t);
                                     }
                                     return s;
                                 }),
                        "long-digits");
    // 5d zero with an exponent far outside any range (ten and more significant exponent digits): the value is zero, the sign is kept
    auto zero_huge = finish(gen::map(gen::tuple(sign_gen(), pbt::pick<std::string>({"0", "0.0", "0.000", "00", "0.0000000000000000000000"}),
                                                pbt::pick<std::string>({"e", "E", "e+", "E-", "e-"}),
                                                pbt::pick<std::string>({"1234567890", "9999999999", "10000000000", "4294967296", "4294967295", "18446744073709551616",
                                                                        "98765432101234567890", "100000000", "99999999", "2147483648"})),
                                     [](std::tuple<std::string, std::string, std::string, std::string> t) {
                                         std::string m = std::get<1>(t);
                                         if (m == "00") {
                                             m = "0"; // (no leading zeros in the grammar)
                                         }
                                         return std::get<0>(t) + m + std::get<2>(t) + std::get<3>(t);
                                     }),
                            "zero-with-huge-exponent");
    // 5c numerals thousands of characters long whose written exponent compensates their own zeros (0.000...0d e+N, d000...0 e-N):
    // the written exponent is far outside the double range, the value is not
    auto compensated = finish(gen::map(gen::tuple(sign_gen(), pbt::pick<int>({300, 998, 9995, 9999, 10000, 10001, 12345, 65535, 65537, 100000}), digits_gen(1, 20, true),
                                                  pbt::range<int>(-30, 30), pbt::range<int>(0, 3)),
                                       [](std::tuple<std::string, int, std::string, int, int> t) {
                                           const int   z = std::get<1>(t);
                                           std::string d = std::get<2>(t);
                                           const int   k = std::get<3>(t);
                                           const char *es[] = {"e", "E", "e+", "E+"};
                                           if (std::get<4>(t) & 1) {
                                               return std::get<0>(t) + "0." + std::string(size_t(z), '0') + d + es[std::get<4>(t)] + std::to_string(z + k);
                                           }
                                           return std::get<0>(t) + d + std::string(size_t(z), '0') + ((std::get<4>(t) & 2) ? "e-" : "E-") + std::to_string(z + (k < 0 ? -k : k));
                                       }),
                              "exponent-compensates-length");
    // 5b leading fractional zeros
    auto leadzeros = finish(gen::map(gen::tuple(sign_gen(), pbt::range<int>(1, 300), digits_gen(1, 40, true)),
                                     [](std::tuple<std::string, int, std::string> t) {
                                         return std::get<0>(t) + "0." + std::string(size_t(std::get<1>(t)), '0') + std::get<2>(t);
                                     }),
                            "leading-fraction-zeros");
    // 6 shortest/17-digit spellings of arbitrary finite doubles (full exponent range, subnormals)
    auto spelled = finish(gen::map(gen::tuple(finite_positive_double(), pbt::range<int>(1, 25), sign_gen(), pbt::range<int>(0, 1)),
                                   [](std::tuple<double, int, std::string, int> t) {
                                       char b[64];
                                       snprintf(b, sizeof b, std::get<3>(t) ? "%.*e" : "%.*E", std::get<1>(t), std::get<0>(t));
                                       return std::get<2>(t) + std::string(b);
                                   }),
                          "spelled-double");
    // 7 exact ties between adjacent doubles
    auto ties = finish(gen::map(gen::tuple(finite_positive_double(), pbt::range<int>(0, 2), sign_gen()),
                                [](std::tuple<double, int, std::string> t) {
                                    double d = std::get<0>(t);
                                    if (d > 1.7e308) {
                                        d = 1.0e308;
                                    }
                                    std::string plain = bigdec::midpoint_above(d);
                                    std::string s     = plain;
                                    if (std::get<1>(t) == 1 || plain.size() > 700) {
                                        s = bigdec::to_scientific(plain);
                                    }
                                    if (std::get<1>(t) == 2) {
                                        s = plain + (plain.find('.') == std::string::npos ? ".0" : "0"); // same value, one more digit
                                    }
                                    return std::get<2>(t) + s;
                                }),
                       "exact-tie");
    // 7a short numerals right next to a tie: the exact midpoint between two adjacent doubles cut to 17-21 significant digits
    // (just below the midpoint: rounds down) and that decimal plus one unit in its last place (just above: rounds up). They
    // sit within 10^-17 .. 10^-21 (relative) of the decision point, so a multiplier or a power-of-five table entry that is
    // off in its last digits flips the result; the decimal exponent is spread over the whole range, every table entry is used
    auto near_tie = finish(gen::map(gen::tuple(finite_positive_double(), pbt::range<int>(17, 21), pbt::range<int>(0, 1), sign_gen(), pbt::range<int>(0, 2)),
                                    [](std::tuple<double, int, int, std::string, int> t) {
                                        double d = std::get<0>(t);
                                        if (d > 1.7e308) {
                                            d = 1.0e308;
                                        }
                                        std::string sci = bigdec::to_scientific(bigdec::midpoint_above(d)); // d.ddd...e[+-]x
                                        size_t      ep  = sci.find('e');
                                        std::string mant = sci.substr(0, ep), ex = sci.substr(ep);
                                        std::string digits;
                                        for (char ch : mant) {
                                            if (ch != '.') {
                                                digits.push_back(ch);
                                            }
                                        }
                                        const size_t n = size_t(std::get<1>(t));
                                        if (digits.size() <= n) {
                                            return std::get<3>(t) + sci; // the midpoint itself is that short: an exact tie
                                        }
                                        digits.resize(n); // cut: strictly below the midpoint (the dropped tail is not all zeros... or it is the tie)
                                        if (std::get<2>(t) == 1) { // one unit in the last kept place up: above the midpoint
                                            size_t k = n;
                                            while (k > 0) {
                                                --k;
                                                if (digits[k] != '9') {
                                                    ++digits[k];
                                                    break;
                                                }
                                                digits[k] = '0';
                                            }
                                            if (digits[0] == '0') { // 99..9 -> 100..0: keep the length, shift the exponent
                                                digits = "1" + digits.substr(0, n - 1);
                                                int xv = atoi(ex.c_str() + 1) + 1;
                                                ex     = "e" + std::to_string(xv);
                                            }
                                        }
                                        std::string out = digits.substr(0, 1) + "." + digits.substr(1) + ex;
                                        if (std::get<4>(t) == 1) { // the same value spelled without a fraction: ddddde(x - n + 1)
                                            int xv = atoi(ex.c_str() + 1) - int(n) + 1;
                                            out    = digits + "e" + std::to_string(xv);
                                        }
                                        return std::get<3>(t) + out;
                                    }),
                           "near-tie");
    // 7b ties and near-ties whose rounding carries into the next power of two (mantissa all ones -> 1.000 x 2^(k+1))
    auto carry = finish(gen::map(gen::tuple(pbt::range<int>(-60, 80), pbt::range<int>(0, 4), pbt::range<int>(0, 1), sign_gen()),
                                 [](std::tuple<int, int, int, std::string> t) {
                                     double      p2    = std::ldexp(1.0, std::get<0>(t));
                                     double      below = std::nextafter(p2, 0.0);           // 1.111...1 x 2^(k-1)
                                     std::string plain = bigdec::midpoint_above(below);     // exact tie between `below` and 2^k
                                     switch (std::get<1>(t)) {
                                         case 0: break;                                       // the tie itself (round to even = 2^k)
                                         case 1: plain += (plain.find('.') == std::string::npos) ? ".0001" : "0001"; break; // just above -> 2^k
                                         case 2: {                                            // just below -> `below`
                                             if (plain.find('.') == std::string::npos) {
                                                 plain += ".0";
                                             }
                                             size_t i = plain.size() - 1;                     // the expansion ends in ...5 (or .0 appended)
                                             while (plain[i] == '0' || plain[i] == '.') {
                                                 --i;
                                             }
                                             plain[i] = char(plain[i] - 1);
                                             plain += "9999";
                                             break;
                                         }
                                         case 3: { // 17 significant digits of `below` rounded up by one unit in the 17th place
                                             char b[64];
                                             snprintf(b, sizeof b, "%.17g", below);
                                             plain = b;
                                             break;
                                         }
                                         default: { // 2^k itself written with 20 digits
                                             char b[64];
                                             snprintf(b, sizeof b, "%.20g", p2);
                                             plain = b;
                                         }
                                     }
                                     if (std::get<2>(t) && plain.find('e') == std::string::npos) {
                                         plain = bigdec::to_scientific(plain);
                                     }
                                     return std::get<3>(t) + plain;
                                 }),
                        "carry-into-power-of-two");
    // 7c long runs of nines (1.9999999999999999, 1023.99999999999999, 19999999999999999e-16 ...)
    auto nines = finish(gen::map(gen::tuple(pbt::range<int>(0, 3), pbt::range<int>(14, 22), pbt::range<int>(0, 20), pbt::range<int>(-20, 20), pbt::range<int>(0, 2), sign_gen()),
                                 [](std::tuple<int, int, int, int, int, std::string> t) {
                                     static const char *heads[] = {"1", "3", "1023", "4294967295"};
                                     std::string         digits = std::string(heads[std::get<0>(t)]) + std::string(size_t(std::get<1>(t)), '9');
                                     size_t              point  = 1 + size_t(std::get<2>(t)) % digits.size();
                                     std::string         s;
                                     if (std::get<4>(t) == 0) {
                                         s = digits.substr(0, point) + (point < digits.size() ? "." + digits.substr(point) : "");
                                     } else if (std::get<4>(t) == 1) {
                                         s = digits + "e" + std::to_string(std::get<3>(t) - int(digits.size()) + 1);
                                     } else {
                                         s = digits.substr(0, 1) + "." + digits.substr(1) + "E" + std::to_string(std::get<3>(t));
                                     }
                                     return std::get<5>(t) + s;
                                 }),
                        "nine-run");
    // 7d exponents padded with many leading zeros (the field is 8..30 digits long, the value is small)
    auto padded = finish(gen::map(gen::tuple(sign_gen(), digits_gen(1, 17, true), pbt::range<int>(0, 1), pbt::range<int>(5, 28), pbt::range<int>(0, 330),
                                             pbt::pick<std::string>({"", "+", "-"})),
                                  [](std::tuple<std::string, std::string, int, int, int, std::string> t) {
                                      std::string d = std::get<1>(t);
                                      std::string m = std::get<2>(t) ? d.substr(0, 1) + (d.size() > 1 ? "." + d.substr(1) : "") : d;
                                      int         ev = std::get<4>(t);
                                      if (std::get<5>(t) == "-" && ev > 300) {
                                          ev -= 40; // stay above the smallest subnormal
                                      }
                                      return std::get<0>(t) + m + (ev % 2 ? "e" : "E") + std::get<5>(t) + std::string(size_t(std::get<3>(t)), '0') + std::to_string(ev);
                                  }),
                         "zero-padded-exponent");
    // 8 around the overflow threshold and beyond
    auto overflow = finish(gen::map(gen::tuple(sign_gen(), digits_gen(1, 20, true), pbt::range<int>(285, 340), pbt::range<int>(0, 1)),
                                    [](std::tuple<std::string, std::string, int, int> t) {
                                        std::string d = std::get<1>(t);
                                        std::string m = d.substr(0, 1) + (d.size() > 1 ? "." + d.substr(1) : "");
                                        return std::get<0>(t) + m + (std::get<3>(t) ? "e" : "E+") + std::to_string(std::get<2>(t));
                                    }),
                           "overflow-region");
    auto overflow_plain = finish(gen::map(gen::tuple(sign_gen(), digits_gen(300, 330, true)), [](std::tuple<std::string, std::string> t) { return std::get<0>(t) + std::get<1>(t); }),
                                 "overflow-region-plain");
    // 9 subnormal region
    auto subnormal = finish(gen::map(gen::tuple(sign_gen(), digits_gen(1, 20, true), pbt::range<int>(305, 323)),
                                     [](std::tuple<std::string, std::string, int> t) {
                                         std::string d = std::get<1>(t);
                                         std::string m = d.substr(0, 1) + (d.size() > 1 ? "." + d.substr(1) : "");
                                         return std::get<0>(t) + m + "e-" + std::to_string(std::get<2>(t));
                                     }),
                            "subnormal-region");
    // 10 zero mantissa
    auto zeros = finish(gen::map(gen::tuple(sign_gen(), pbt::pick<std::string>({"0", "0.0", "0.000", "0e0", "0e5", "0E-3", "0.0e+10", "0.00E7", "0e00"})),
                                 [](std::tuple<std::string, std::string> t) { return std::get<0>(t) + std::get<1>(t); }),
                        "zero");
    // 11 malformed: leading zeros, lone dot, repeated dot, empty exponent
    auto malformed = finish(
        gen::map(gen::tuple(pbt::pick<std::string>({"", "-"}),
                            pbt::pick<std::string>({"00", "01", "007", "00.5", "012e3", ".", "1..2", "1.2.3", "0..1", "1e", "1e+", "1E-", "12.5e", "3.e", "0.5E+"}),
                            digits_gen(0, 3, false)),
                 [](std::tuple<std::string, std::string, std::string> t) {
                     const std::string &m = std::get<1>(t);
                     // extra digits only where they keep the numeral malformed (leading-zero forms)
                     if (m == "00" || m == "01" || m == "007") {
                         return std::get<0>(t) + m + std::get<2>(t);
                     }
                     return std::get<0>(t) + m;
                 }),
        "malformed", 1);
    return gen::oneOf(ints, bounds, decimals, decimals, intexp, longs, leadzeros, spelled, spelled, ties, near_tie, near_tie, carry, nines, padded, compensated, zero_huge, overflow, overflow_plain, subnormal,
                      zeros, malformed);
}

struct H {
    using Case = ::Case;
    static const char *name() { return "C09 string to number"; }
    static rc::Gen<Case> gen() { return gen_case(); }

    // coverage-guided mode: a well-formed numeral by construction. byte 0: sign (2 bits), fraction, exponent, width (2 bits),
    // terminator (2 bits); byte 1: exponent spelling; bytes 2-3: exponent value; then digit nibbles (a nibble above 9 ends the
    // integer part). Exponents stay within +-400 so that a unit never costs more than the 700-digit classes above.
    static bool from_fuzz(const uint8_t *d, size_t n, Case &c) {
        pbt::FuzzBytes f(d, n);
        uint8_t        b0 = f.sel(), b1 = f.sel();
        int            ev = ((int(f.sel()) << 8) | f.sel()) % 801 - 400;
        static const char *sg[] = {"", "-", "+", ""};
        static const char *tm[] = {"", ",", "]", " "};
        static const int   w[]  = {1, 2, 4, 3};
        std::string        ip, fp;
        bool               in_frac = false;
        for (uint8_t x : f.rest()) {
            for (int k = 0; k < 2; ++k) {
                int nib = k == 0 ? (x >> 4) : (x & 15);
                if (nib > 9) {
                    in_frac = true;
                } else {
                    (in_frac ? fp : ip).push_back(char('0' + nib));
                }
            }
        }
        size_t nz = ip.find_first_not_of('0');
        ip        = (nz == std::string::npos) ? "0" : ip.substr(nz);
        c.text    = std::string(sg[b0 & 3]) + ip;
        if (b0 & 4) {
            c.text += "." + (fp.empty() ? std::string("0") : fp);
        }
        if (b0 & 8) {
            c.text += (b1 & 1) ? "E" : "e";
            c.text += ev < 0 ? "-" : (b1 & 2) ? "+" : "";
            c.text += std::string(size_t((b1 >> 2) & 3), '0') + std::to_string(ev < 0 ? -ev : ev);
        }
        c.width      = w[(b0 >> 4) & 3];
        c.terminator = tm[(b0 >> 6) & 3];
        if (b1 & 128) { // a non-ASCII unit whose low byte is a numeral character
            static const char *al[] = {"\xB0", "\xB5", "\xB9", "\xAE", "\xE5", "\xC5", "\xAB", "\xAD"};
            c.terminator            = al[(b1 >> 3) & 7];
        }
        c.prefix     = (b1 & 64) ? "[1, " : "";
        c.malformed  = 0;
        c.cls        = "coverage-guided";
        return true;
    }
    static std::string to_text(const Case &c) {
        pbt::KV kv;
        kv.put("text", pbt::enc_bytes(c.text));
        kv.put("prefix", pbt::enc_bytes(c.prefix));
        kv.put("terminator", pbt::enc_bytes(c.terminator));
        kv.put("width", c.width);
        kv.put("malformed", c.malformed);
        kv.put("class", c.cls);
        return kv.text();
    }
    static Case from_text(const std::string &t) {
        pbt::KV kv = pbt::KV::parse(t);
        Case    c;
        c.text       = pbt::dec_bytes(kv.get("text"));
        c.prefix     = pbt::dec_bytes(kv.get("prefix"));
        c.terminator = pbt::dec_bytes(kv.get("terminator"));
        c.width      = int(kv.geti("width", 1));
        c.malformed  = int(kv.geti("malformed", 0));
        c.cls        = kv.get("class");
        return c;
    }

    static void run(const Case &c, pbt::Ctx &ctx) {
        ctx.label("class:" + c.cls);
        ctx.label("terminator:non-ascii-unit-with-ascii-low-byte", !c.terminator.empty() && (unsigned char)c.terminator[0] >= 0x80 && c.width > 1);
        if (!c.malformed) {
            // numerals whose correctly rounded value is zero although the mantissa is not lie below the smallest
            // subnormal: outside the property's quantifier
            double ref = strtod(c.text.c_str(), nullptr);
            if (ref == 0.0 && !mantissa_is_zero(c.text)) {
                ctx.discard();
            }
        }
        // non-trivial: fraction or exponent present, or >= 19 significant digits, or malformed class
        size_t nd = 0;
        for (char ch : c.text) {
            nd += (ch >= '0' && ch <= '9');
        }
        if (!is_integer_syntax(c.text) || nd >= 19 || c.malformed) {
            ctx.nontrivial();
        }
        switch (c.width) {
            case 1: run_width<char>(c, ctx); break;
            case 2: run_width<char16_t>(c, ctx); break;
            case 3: run_width<wchar_t>(c, ctx); break;
            default: run_width<char32_t>(c, ctx); break;
        }
    }
};

} // namespace

PBT_MAIN(H)
