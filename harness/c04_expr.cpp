// C04 — expression evaluation equals exact arithmetic with the documented precedence.
// Generated expression trees are rendered to text (random spacing, parentheses wherever the documentation leaves the
// grouping open) and evaluated by TemplateCore::ParseExpressions + Evaluate; the oracle is a reference evaluator over
// the tree with exact integers (__int128) and doubles.
#include "common/pbt.hpp"
#include "common/jmodel.hpp"

#include <cmath>
#include <memory>

using namespace Qentem;
using jm::Entropy;

namespace {

struct Case {
    std::vector<uint8_t> bytes;
    int                  width{1};
    int                  gen2{0}; // 1: decimal literals and exponents also come from the "nearly whole" list (absent in older replay files: 0)
    int                  deep{0}; // 0: generated tree; n > 0: parentheses nested (kDeepDepths[(n-1)/4]) deep in shape (n-1)%4
};
// around the widths a nesting counter can have (8 and 16 bits), and between
const int kDeepDepths[] = {254, 255, 256, 257, 258, 300, 511, 513, 1000};
const int kDeepCount    = int(sizeof(kDeepDepths) / sizeof(kDeepDepths[0])) * 4;

// ---------------------------------------------------------------------------------------------- reference numbers
struct Num {
    bool      ok{false};   // has a value
    bool      real{false}; // real kind (else exact integer in i)
    __int128  i{0};
    double    r{0};
    double    as_double() const { return real ? r : double(i); }
    static Num none() { return Num{}; }
    static Num of_int(__int128 v) {
        Num n;
        n.ok = true;
        n.i  = v;
        return n;
    }
    static Num of_real(double v) {
        Num n;
        n.ok   = true;
        n.real = true;
        n.r    = v;
        return n;
    }
};

struct Overflow {};

// ---------------------------------------------------------------------------------------------- AST
enum class Op { Pow, Rem, Mul, Div, Add, Sub, BitAnd, BitOr, Eq, Ne, Lt, Le, Gt, Ge, And, Or };
static const char *kOpText[] = {"^", "%", "*", "/", "+", "-", "&", "|", "==", "!=", "<", "<=", ">", ">=", "&&", "||"};
// documented groups (Evaluation Order): 0 power/remainder, 1 mul/div, 2 add/sub, 3 bitwise, 4 comparisons, 5 and/or
static int group_of(Op o) {
    switch (o) {
        case Op::Pow:
        case Op::Rem: return 0;
        case Op::Mul:
        case Op::Div: return 1;
        case Op::Add:
        case Op::Sub: return 2;
        case Op::BitAnd:
        case Op::BitOr: return 3;
        case Op::And:
        case Op::Or: return 5;
        default: return 4;
    }
}

enum class LeafKind { UInt, NegInt, Decimal, ExpForm, Var, Text };

struct Node {
    bool                  leaf{true};
    // leaf
    LeafKind              lk{LeafKind::UInt};
    std::string           text;     // literal spelling, or variable name
    // inner
    Op                    op{Op::Add};
    std::unique_ptr<Node> l, r;
    bool                  parens{false}; // redundant parentheses around this node
    int                   extra{0};      // further redundant pairs around it
};

// variables available in the value tree
struct VarDef {
    const char *name;
    int         kind; // 0 uint 1 int 2 real 3 numeric string 4 true 5 false 6 null 7 text 8 missing 9 empty string 10 object
    const char *literal;
};
static const VarDef kVars[] = {
    {"u5", 0, "5"},       {"u0", 0, "0"},         {"u12", 0, "12"},   {"i3", 1, "-3"},       {"i7", 1, "7"},         {"r25", 2, "2.5"},
    {"r4", 2, "4"},       {"rn", 2, "-0.5"},      {"s12", 3, "12"},   {"sn3", 3, "-3"},      {"s15", 3, "1.5"},      {"bt", 4, "true"},
    {"bf", 5, "false"},   {"nl", 6, "null"},      {"txt", 7, "abc"},  {"missing", 8, ""},    {"es", 9, ""},          {"obj", 10, ""},
    {"txt2", 7, "abc"},   {"txt3", 7, "true"},
};
constexpr unsigned kNVars = sizeof(kVars) / sizeof(kVars[0]);

template <typename Char_T>
String<Char_T> wstr(const char *s) {
    jm::Units u;
    for (; *s; ++s) {
        u.push_back((unsigned char)*s);
    }
    jm::Buf<Char_T> b(u);
    return String<Char_T>{b.cp(), SizeT(b.n)};
}
template <typename Char_T>
void build_value(Value<Char_T> &v) {
    auto K = [](const char *s) { return wstr<Char_T>(s); };
    v[K("u5")]   = 5U;
    v[K("u0")]   = 0U;
    v[K("u12")]  = 12U;
    v[K("i3")]   = -3;
    v[K("i7")]   = 7;
    v[K("r25")]  = 2.5;
    v[K("r4")]   = 4.0;
    v[K("rn")]   = -0.5;
    v[K("s12")]  = wstr<Char_T>("12");
    v[K("sn3")]  = wstr<Char_T>("-3");
    v[K("s15")]  = wstr<Char_T>("1.5");
    v[K("bt")]   = true;
    v[K("bf")]   = false;
    v[K("nl")]   = nullptr;
    v[K("txt")]  = wstr<Char_T>("abc");
    v[K("es")]   = wstr<Char_T>("");
    v[K("obj")][K("x")] = 1;
    v[K("txt2")] = wstr<Char_T>("abc");
    v[K("txt3")] = wstr<Char_T>("true");
}
template <typename Char_T>
std::string narrow(const StringStream<Char_T> &ss) {
    std::string o;
    for (SizeT i = 0; i < ss.Length(); ++i) {
        const uint32_t u = jm::unit_of(ss.First()[i]);
        o.push_back(u < 0x80 ? char(u) : '?');
    }
    return o;
}

const VarDef *find_var(const std::string &n) {
    for (auto &d : kVars) {
        if (n == d.name) {
            return &d;
        }
    }
    return nullptr;
}

// numeric value of a variable in arithmetic context (SetNumber semantics as documented: numbers, numeric strings,
// booleans 1/0, null 0; anything else has no numeric value)
Num var_number(const VarDef &d) {
    switch (d.kind) {
        case 0:
        case 1: return Num::of_int(strtoll(d.literal, nullptr, 10));
        case 2: return Num::of_real(strtod(d.literal, nullptr));
        case 3: {
            std::string s = d.literal;
            if (s.find('.') != std::string::npos) {
                return Num::of_real(strtod(s.c_str(), nullptr));
            }
            return Num::of_int(strtoll(s.c_str(), nullptr, 10));
        }
        case 4: return Num::of_int(1);
        case 5:
        case 6: return Num::of_int(0);
        default: return Num::none();
    }
}
Num leaf_number(const Node &n) {
    switch (n.lk) {
        case LeafKind::UInt:
        case LeafKind::NegInt: return Num::of_int(strtoll(n.text.c_str(), nullptr, 10));
        case LeafKind::Decimal:
        case LeafKind::ExpForm: return Num::of_real(strtod(n.text.c_str(), nullptr));
        case LeafKind::Var: {
            const VarDef *d = find_var(n.text);
            return d ? var_number(*d) : Num::none();
        }
        default: return Num::none();
    }
}
// textual form for ==/!= when neither side is a number: literal text as written; variables: string content, true/false/null words
bool leaf_text(const Node &n, std::string &out) {
    if (n.lk == LeafKind::Text) {
        out = n.text;
        return true;
    }
    if (n.lk == LeafKind::Var) {
        const VarDef *d = find_var(n.text);
        if (d == nullptr) {
            return false;
        }
        switch (d->kind) {
            case 3:
            case 7:
            case 9: out = d->literal; return true;
            case 4: out = "true"; return true;
            case 5: out = "false"; return true;
            case 6: out = "null"; return true;
            default: return false; // missing, object: nothing to compare
        }
    }
    return false;
}
bool leaf_is_number_kind(const Node &n) { // "is a number": literal numbers and variables holding numbers
    if (!n.leaf) {
        return true; // a sub-expression yields a number
    }
    if (n.lk == LeafKind::Text) {
        return false;
    }
    if (n.lk == LeafKind::Var) {
        const VarDef *d = find_var(n.text);
        return d != nullptr && d->kind <= 2;
    }
    return true;
}

struct Flags {
    bool pow_fractional{false}, pow_neg_base_neg_exp{false}, rem_zero{false}, div_zero{false}, pow_zero_neg{false}, has_var{false};
    int  nops{0};
    int  groups_mask{0};
};

// Results of an operation must fit 64 bits. The library keeps three number kinds and a result is of the signed kind as soon
// as a signed operand took part (negative literal, signed variable, a difference), so a computed value above INT64_MAX is
// only representable when everything was unsigned - which the reference does not track. Computed values above INT64_MAX
// are therefore outside the domain (literals and variables up to UINT64_MAX are not computed values and stay inside).
__int128 check_fit(__int128 v) {
    if (v > (__int128)INT64_MAX || v < (__int128)INT64_MIN) {
        throw Overflow{};
    }
    return v;
}
__int128 trunc_to_int(const Num &n) {
    if (!n.real) {
        return n.i;
    }
    if (!(std::fabs(n.r) < 9.0e18)) {
        throw Overflow{};
    }
    return (__int128)(long long)n.r;
}

Num eval(const Node &n, Flags &fl);

Num eval_equality(const Node &n, Flags &fl) {
    const Node &a = *n.l, &b = *n.r;
    bool        an = leaf_is_number_kind(a), bn = leaf_is_number_kind(b);
    bool        eq;
    if (an || bn) {
        Num x = a.leaf ? leaf_number(a) : eval(a, fl);
        Num y = b.leaf ? leaf_number(b) : eval(b, fl);
        if (!x.ok || !y.ok) {
            return Num::none();
        }
        if (x.real || y.real) {
            eq = (x.as_double() == y.as_double());
        } else {
            eq = (x.i == y.i);
        }
    } else {
        std::string s, t;
        if (!leaf_text(a, s) || !leaf_text(b, t)) {
            return Num::none();
        }
        eq = (s == t);
    }
    return Num::of_int((n.op == Op::Eq) ? eq : !eq);
}

Num eval(const Node &n, Flags &fl) {
    if (n.leaf) {
        if (n.lk == LeafKind::Var) {
            fl.has_var = true;
        }
        return leaf_number(n);
    }
    ++fl.nops;
    fl.groups_mask |= (1 << group_of(n.op));
    if (n.op == Op::Eq || n.op == Op::Ne) {
        return eval_equality(n, fl);
    }
    Num a = eval(*n.l, fl), b = eval(*n.r, fl);
    if (!a.ok || !b.ok) {
        return Num::none();
    }
    const bool real = a.real || b.real;
    switch (n.op) {
        case Op::Add:
            return real ? Num::of_real(a.as_double() + b.as_double()) : Num::of_int(check_fit(a.i + b.i));
        case Op::Sub:
            return real ? Num::of_real(a.as_double() - b.as_double()) : Num::of_int(check_fit(a.i - b.i));
        case Op::Mul:
            return real ? Num::of_real(a.as_double() * b.as_double()) : Num::of_int(check_fit(a.i * b.i));
        case Op::Div:
            if (b.as_double() == 0.0) {
                fl.div_zero = true;
                return Num::none();
            }
            return Num::of_real(a.as_double() / b.as_double());
        case Op::Rem: {
            __int128 x = trunc_to_int(a), y = trunc_to_int(b);
            if (y == 0) {
                fl.rem_zero = true;
                return Num::none();
            }
            return Num::of_int(x % y);
        }
        case Op::Pow: {
            if ((a.real && a.r != std::floor(a.r)) || (b.real && b.r != std::floor(b.r))) {
                fl.pow_fractional = true;
                return Num::none(); // fractional powers: no defined result
            }
            if (a.real || b.real) {
                fl.pow_fractional = true; // real-kind (integral) operands: labelled, outside the strict comparison
            }
            __int128 base = trunc_to_int(a), ex = trunc_to_int(b);
            if (base == 0 && ex < 0) {
                fl.pow_zero_neg = true;
                return Num::none();
            }
            if (base == 0 && ex == 0) {
                throw Overflow{}; // 0^0: kept out of the domain
            }
            __int128 mag = ex < 0 ? -ex : ex;
            if (mag > 64) {
                throw Overflow{};
            }
            __int128 p = 1;
            for (__int128 k = 0; k < mag; ++k) {
                p *= base;
                if (p > (__int128)UINT64_MAX || p < -(__int128)UINT64_MAX) {
                    throw Overflow{};
                }
            }
            if (ex < 0) {
                if (base < 0 && (mag % 2) == 0) {
                    fl.pow_neg_base_neg_exp = true; // (-b)^(-2k): positive by arithmetic; the library keeps the base's sign
                }
                return Num::of_real(1.0 / double(p));
            }
            return Num::of_int(check_fit(p));
        }
        case Op::BitAnd:
        case Op::BitOr: {
            __int128 x = trunc_to_int(a), y = trunc_to_int(b);
            long long xs = (long long)x, ys = (long long)y; // two's complement on 64 bits
            if (x > INT64_MAX || y > INT64_MAX) {
                throw Overflow{};
            }
            return Num::of_int(n.op == Op::BitAnd ? (xs & ys) : (xs | ys));
        }
        case Op::Lt: return Num::of_int(real ? a.as_double() < b.as_double() : a.i < b.i);
        case Op::Le: return Num::of_int(real ? a.as_double() <= b.as_double() : a.i <= b.i);
        case Op::Gt: return Num::of_int(real ? a.as_double() > b.as_double() : a.i > b.i);
        case Op::Ge: return Num::of_int(real ? a.as_double() >= b.as_double() : a.i >= b.i);
        case Op::And: return Num::of_int((a.as_double() > 0) && (b.as_double() > 0));
        case Op::Or: return Num::of_int((a.as_double() > 0) || (b.as_double() > 0));
        default: return Num::none();
    }
}

// ---------------------------------------------------------------------------------------------- generation
static thread_local int g_gen2 = 0;
// decimals a hair away from a whole number: as an exponent they are fractional (no value), as an operand of % they truncate
static const char *const kNearWhole[] = {"3.0000000000001", "2.0000000000005", "1.9999999999999", "3.0000000000000004", "0.9999999999999999", "1.0000000000000002",
                                         "4.000000000001",  "2.00000000000000044"};
std::unique_ptr<Node> gen_leaf(Entropy &e, bool allow_real, bool allow_negative) {
    auto n  = std::make_unique<Node>();
    n->leaf = true;
    switch (e.below(10)) {
        case 0:
        case 1:
        case 2:
        case 3: n->lk = LeafKind::UInt; n->text = std::to_string(e.below(e.chance(70) ? 13 : 1000)); break;
        case 4:
            if (allow_negative) {
                n->lk   = LeafKind::NegInt;
                n->text = "-" + std::to_string(1 + e.below(12));
                break;
            }
            n->lk   = LeafKind::UInt;
            n->text = std::to_string(e.below(13));
            break;
        case 5:
            if (allow_real) {
                static const char *d[] = {"0.5", "2.5", "0.25", "1.5", "10.75", "3.0", "0.1", "7.125"};
                n->lk                   = LeafKind::Decimal;
                n->text                 = d[e.below(8)];
                if (g_gen2 != 0 && e.chance(30)) {
                    n->text = kNearWhole[e.below(8)];
                }
                break;
            }
            n->lk   = LeafKind::UInt;
            n->text = std::to_string(e.below(13));
            break;
        case 6:
            if (allow_real) {
                static const char *d[] = {"1e2", "2.5e1", "5E-1", "1e+1", "12e-1"};
                n->lk                   = LeafKind::ExpForm;
                n->text                 = d[e.below(5)];
                break;
            }
            n->lk   = LeafKind::UInt;
            n->text = std::to_string(e.below(13));
            break;
        default: {
            // variables: numbers, numeric strings, booleans, null (arithmetic context); text/missing with lower weight
            unsigned idx;
            do {
                idx = e.below(kNVars);
            } while ((kVars[idx].kind >= 7 && !e.chance(15)) || (!allow_real && (kVars[idx].kind == 2 || std::string(kVars[idx].name) == "s15")) ||
                     (!allow_negative && (std::string(kVars[idx].literal)[0] == '-')));
            n->lk   = LeafKind::Var;
            n->text = kVars[idx].name;
        }
    }
    return n;
}

std::unique_ptr<Node> gen_expr(Entropy &e, int depth);

std::unique_ptr<Node> gen_equality(Entropy &e, int depth) {
    auto n  = std::make_unique<Node>();
    n->leaf = false;
    n->op   = e.chance(50) ? Op::Eq : Op::Ne;
    auto side = [&](bool other_is_text) -> std::unique_ptr<Node> {
        switch (e.below(6)) {
            case 0: { // bare text literal
                auto t  = std::make_unique<Node>();
                t->leaf = true;
                t->lk   = LeafKind::Text;
                static const char *w[] = {"abc", "true", "a b", "false", "null", "xyz", "12a"};
                t->text                 = w[e.below(7)];
                return t;
            }
            case 1:
            case 2: { // any variable
                auto t  = std::make_unique<Node>();
                t->leaf = true;
                t->lk   = LeafKind::Var;
                t->text = kVars[e.below(kNVars)].name;
                return t;
            }
            case 3:
                if (depth > 0 && !other_is_text) {
                    auto s    = gen_expr(e, depth - 1);
                    s->parens = true;
                    return s;
                }
                return gen_leaf(e, true, true);
            default: return gen_leaf(e, true, true);
        }
    };
    n->l = side(false);
    n->r = side(n->l->leaf && n->l->lk == LeafKind::Text);
    return n;
}

std::unique_ptr<Node> gen_expr(Entropy &e, int depth) {
    if (depth <= 0 || e.chance(25)) {
        return gen_leaf(e, true, true);
    }
    unsigned pick = e.below(20);
    if (pick < 3) {
        return gen_equality(e, depth);
    }
    auto n  = std::make_unique<Node>();
    n->leaf = false;
    static const Op ops[] = {Op::Add, Op::Add, Op::Sub, Op::Sub, Op::Mul, Op::Mul, Op::Div, Op::Rem, Op::Pow, Op::BitAnd, Op::BitOr,
                             Op::Lt,  Op::Le,  Op::Gt,  Op::Ge,  Op::And, Op::Or};
    n->op                 = ops[e.below(17)];
    if (n->op == Op::Pow) {
        // integer operands sized so that the exact result fits 64 bits; a labelled share has fractional / real operands
        bool frac = e.chance(g_gen2 != 0 ? 20 : 8);
        n->l      = gen_leaf(e, frac, true);
        auto ex   = std::make_unique<Node>();
        ex->leaf  = true;
        if (frac && e.chance(50)) {
            ex->lk   = LeafKind::Decimal;
            ex->text = e.chance(50) ? "1.5" : "2.0";
            if (g_gen2 != 0 && e.chance(60)) {
                ex->text = kNearWhole[e.below(8)];
                if (e.chance(25)) {
                    ex->text = "-" + ex->text;
                }
            }
        } else if (e.chance(25)) {
            ex->lk   = LeafKind::NegInt;
            ex->text = "-" + std::to_string(1 + e.below(3));
        } else {
            ex->lk   = LeafKind::UInt;
            ex->text = std::to_string(e.below(6));
        }
        n->r = std::move(ex);
        return n;
    }
    n->l = gen_expr(e, depth - 1);
    n->r = gen_expr(e, depth - 1);
    n->parens = e.chance(15);
    return n;
}

// ---------------------------------------------------------------------------------------------- rendering
void sp(Entropy &e, std::string &o) {
    unsigned n = e.chance(60) ? 0 : e.below(3);
    o.append(n, ' ');
}

// Parenthesise a child whenever precedence requires it, and also whenever the documentation leaves the grouping open:
// two different operators of one documented group adjacent, a repeated non-associative operator, or the same operator
// on the right-hand side.
bool needs_parens(const Node &parent, const Node &child, bool right_side) {
    if (child.leaf) {
        return false;
    }
    int gp = group_of(parent.op), gc = group_of(child.op);
    if (gc > gp) {
        return true; // child binds weaker
    }
    if (gc < gp) {
        return false; // child binds tighter: documented
    }
    // same documented group
    if (child.op != parent.op) {
        return true; // grouping not documented
    }
    if (right_side) {
        return true; // a op (b op c): never rely on associativity
    }
    // left side, same operator: left-to-right for + - * / and the logical/bitwise ones is the only sensible reading;
    // for ^ % and the comparisons keep it explicit
    return (parent.op == Op::Pow || parent.op == Op::Rem || gp == 4);
}

void render(const Node &n, Entropy &e, std::string &o, bool force_parens = false, bool skip_extra = false) {
    bool par = force_parens || n.parens;
    if (n.extra > 0 && !skip_extra) {
        o.append(size_t(n.extra), '(');
        render(n, e, o, force_parens, true);
        o.append(size_t(n.extra), ')');
        return;
    }
    if (n.leaf) {
        if (n.lk == LeafKind::Var) {
            o += "{var:" + n.text + "}";
        } else {
            o += n.text;
        }
        return;
    }
    if (par) {
        o += "(";
        sp(e, o);
    }
    render(*n.l, e, o, needs_parens(n, *n.l, false));
    sp(e, o);
    o += kOpText[int(n.op)];
    sp(e, o);
    // a negative literal directly after '-' or '+' would read as "--": keep one space
    if (n.r->leaf && n.r->lk == LeafKind::NegInt && !o.empty() && (o.back() == '-' || o.back() == '+')) {
        o += " ";
    }
    render(*n.r, e, o, needs_parens(n, *n.r, true));
    if (par) {
        sp(e, o);
        o += ")";
    }
}

// Parentheses nested hundreds deep, in the four shapes that differ for a scanner which matches brackets with a counter:
// left-nested ((((1+1)+1)+1)...), right-nested (1+(1+(1+...))), redundant pairs around a small expression, and alternating.
std::unique_ptr<Node> deep_tree(Entropy &e, int code) {
    const int depth = kDeepDepths[((code - 1) / 4) % (kDeepCount / 4)];
    const int shape = (code - 1) % 4;
    auto      leaf  = [&e]() {
        auto n  = std::make_unique<Node>();
        n->lk   = LeafKind::UInt;
        n->text = std::to_string(e.below(4));
        return n;
    };
    if (shape == 2) {
        auto t   = gen_expr(e, 2);
        t->extra = depth;
        if (t->leaf && t->lk == LeafKind::Text) {
            t->lk   = LeafKind::UInt;
            t->text = "1";
        }
        return t;
    }
    std::unique_ptr<Node> t = leaf();
    for (int i = 0; i < depth; ++i) {
        auto n  = std::make_unique<Node>();
        n->leaf = false;
        n->op   = e.chance(70) ? Op::Add : Op::Sub;
        const bool left = (shape == 0) || (shape == 3 && (i % 2) == 0);
        if (!t->leaf) {
            t->parens = true;
        }
        if (left) {
            n->l = std::move(t);
            n->r = leaf();
        } else {
            n->l = leaf();
            n->r = std::move(t);
        }
        t = std::move(n);
    }
    return t;
}

std::unique_ptr<Node> make_tree(const Case &c, std::string &text) {
    Entropy e(c.bytes);
    g_gen2 = c.gen2;
    if (c.deep > 0) {
        auto t = deep_tree(e, c.deep);
        text.clear();
        static const std::vector<uint8_t> no_bytes;
        Entropy                           none(no_bytes); // no optional spaces: the text is long enough
        render(*t, none, text);
        return t;
    }
    auto    t = gen_expr(e, 4);
    if (t->leaf && t->lk == LeafKind::Text) {
        t->lk   = LeafKind::UInt;
        t->text = "1";
    }
    text.clear();
    sp(e, text);
    render(*t, e, text);
    sp(e, text);
    return t;
}

// ---------------------------------------------------------------------------------------------- harness
struct H {
    using Case = ::Case;
    static const char *name() { return "C04 expression evaluation"; }
    static rc::Gen<Case> gen() {
        using namespace rc;
        return gen::map(gen::tuple(gen::resize(120, gen::container<std::vector<uint8_t>>(gen::arbitrary<uint8_t>())), pbt::range<int>(0, 40 * kDeepCount),
                                   pbt::pick<int>({1, 1, 1, 2, 4, 3}), pbt::pick<int>({0, 1, 1})),
                        [](std::tuple<std::vector<uint8_t>, int, int, int> t) {
                            Case c;
                            c.bytes = std::get<0>(t);
                            c.width = std::get<2>(t);
                            c.gen2  = std::get<3>(t);
                            // one case in forty is a deep one
                            c.deep = (std::get<1>(t) % 40 == 0) ? 1 + (std::get<1>(t) / 40) % kDeepCount : 0;
                            return c;
                        });
    }
    // coverage-guided mode: the bytes are the entropy
    static bool from_fuzz(const uint8_t *d, size_t n, Case &c) {
        c.bytes.assign(d, d + n);
        c.width = (n != 0 && d[n - 1] % 5 == 3) ? 2 : (n != 0 && d[n - 1] % 5 == 4) ? 4 : 1;
        c.gen2  = (n > 1 && (d[n - 2] & 1) != 0) ? 1 : 0;
        return true;
    }
    static std::string to_text(const Case &c) {
        pbt::KV     kv;
        std::string hex;
        char        b[4];
        for (uint8_t x : c.bytes) {
            snprintf(b, sizeof b, "%02x", x);
            hex += b;
        }
        kv.put("bytes", hex);
        kv.put("deep", c.deep);
        kv.put("gen2", c.gen2);
        kv.put("width", c.width);
        std::string text;
        make_tree(c, text);
        kv.put("expr", pbt::enc_bytes(text.size() > 400 ? text.substr(0, 200) + "..." + text.substr(text.size() - 150) : text));
        return kv.text();
    }
    static Case from_text(const std::string &t) {
        pbt::KV     kv = pbt::KV::parse(t);
        Case        c;
        std::string hex = kv.get("bytes");
        for (size_t i = 0; i + 1 < hex.size(); i += 2) {
            c.bytes.push_back(uint8_t(strtoul(hex.substr(i, 2).c_str(), nullptr, 16)));
        }
        c.deep = int(kv.geti("deep", 0));
        c.gen2 = int(kv.geti("gen2", 0));
        c.width = int(kv.geti("width", 1));
        return c;
    }

    static void run(const Case &c, pbt::Ctx &ctx) {
        std::string text;
        auto        tree = make_tree(c, text);
        if (c.deep > 0) {
            static const char *sh[] = {"left-nested", "right-nested", "redundant-pairs", "alternating"};
            ctx.label(std::string("deep-parentheses:") + sh[(c.deep - 1) % 4]);
        }
        Flags       fl;
        Num         expect;
        try {
            expect = eval(*tree, fl);
        } catch (const Overflow &) {
            ctx.discard(); // outside the property's domain (results that overflow 64 bits, 0^0)
        }
        // a lone variable has its own documented meaning (non-empty string => 1): covered by C02, not arithmetic
        if (tree->leaf && tree->lk == LeafKind::Var) {
            ctx.discard();
        }
        if (fl.nops >= 2 && __builtin_popcount(unsigned(fl.groups_mask)) >= 2) {
            ctx.nontrivial();
        } else if (fl.has_var && fl.nops >= 1) {
            ctx.nontrivial();
        }
        ctx.label(expect.ok ? (expect.real ? "result:real" : "result:integer") : "result:no-value");
        ctx.label("has-variable", fl.has_var);
        ctx.label("pow-fractional-operand", fl.pow_fractional);
        ctx.label("division-by-zero", fl.div_zero);
        ctx.label("remainder-by-zero", fl.rem_zero);
        switch (c.width) {
            case 2: run_lib<char16_t>(ctx, text, fl, expect); break;
            case 3: run_lib<wchar_t>(ctx, text, fl, expect); break;
            case 4: run_lib<char32_t>(ctx, text, fl, expect); break;
            default: run_lib<char>(ctx, text, fl, expect); break;
        }
    }

    template <typename Char_T>
    static void run_lib(pbt::Ctx &ctx, const std::string &text, const Flags &fl, const Num &expect) {
        using TC = TemplateCore<Char_T, Value<Char_T>, StringStream<Char_T>>;
        Value<Char_T> value;
        build_value(value);
        jm::Units       u(text.begin(), text.end());
        jm::Buf<Char_T>   buf(u);
        QExpression     result;
        bool            ok;
        {
            Array<QExpression> exprs = TC::ParseExpressions(buf.cp(), SizeT(buf.n));
            TC                 tc{buf.cp(), SizeT(buf.n)};
            ok = tc.Evaluate(result, exprs, value);
        }
        auto describe = [&]() {
            char b[300];
            snprintf(b, sizeof b, " expr='%s' got ok=%d type=%d natural=%llu integer=%lld real=%.17g | expected ok=%d real=%d int=%lld r=%.17g", text.c_str(), int(ok),
                     int(result.Type), (unsigned long long)result.Value.Number.Natural, (long long)result.Value.Number.Integer, result.Value.Number.Real,
                     int(expect.ok), int(expect.real), (long long)expect.i, expect.r);
            return std::string(b);
        };
        auto classify = [&](const std::string &base) {
            // an expression that contains (-b)^(-2k) deviates by the listed finding KF-C04-1 whatever else it contains
            if (fl.pow_neg_base_neg_exp) {
                return std::string("pow-neg-base-neg-exp");
            }
            if (fl.pow_fractional) {
                return std::string("pow-fractional-operand");
            }
            if (fl.pow_zero_neg) {
                return std::string("pow-zero-base-neg-exp");
            }
            return base;
        };
        if (!expect.ok) {
            if (ok) {
                ctx.deviation(classify("value-where-none-defined"), "an expression without a defined result produced a value:" + describe());
            }
        } else {
            if (!ok) {
                ctx.deviation(classify("no-value-where-defined"), "a defined expression produced no value:" + describe());
            }
            using ET = QExpression::ExpressionType;
            if (expect.real) {
                if (result.Type != ET::RealNumber) {
                    // an integral real result reported in an integer kind is the same number: accept when exactly equal
                    double got = result.Type == ET::NaturalNumber ? double(result.Value.Number.Natural) : double(result.Value.Number.Integer);
                    if ((result.Type != ET::NaturalNumber && result.Type != ET::IntegerNumber) || got != expect.r) {
                        ctx.deviation(classify("wrong-kind"), "expected a real result:" + describe());
                    }
                } else {
                    double got = result.Value.Number.Real, want = expect.r;
                    double tol = 4.0 * std::fabs(want) * 2.220446049250313e-16; // 4 ulp relative: a*b/c may be associated as a*(b/c)
                    if (!(std::fabs(got - want) <= tol) && !(got == want)) {
                        ctx.deviation(classify("wrong-value"), "real result differs:" + describe());
                    }
                }
            } else {
                __int128 got;
                if (result.Type == ET::NaturalNumber) {
                    got = (__int128)result.Value.Number.Natural;
                } else if (result.Type == ET::IntegerNumber) {
                    got = (__int128)result.Value.Number.Integer;
                } else {
                    double gr = result.Value.Number.Real;
                    if (result.Type == ET::RealNumber && gr == double((long long)expect.i)) {
                        ctx.label("integer-result-in-real-kind");
                        got = expect.i;
                    } else {
                        ctx.deviation(classify("wrong-kind"), "expected an integer result:" + describe());
                    }
                }
                if (got != expect.i) {
                    ctx.deviation(classify("wrong-value"), "integer result differs:" + describe());
                }
            }
        }
        // rendered text of {math:...}: the value printed, or the tag reproduced verbatim
        std::string tpl = "{math:" + text + "}";
        jm::Units   tu(tpl.begin(), tpl.end());
        jm::Buf<Char_T> tb(tu);
        StringStream<Char_T> out;
        Template::Render(tb.cp(), SizeT(tb.n), value, out);
        std::string got = narrow(out);
        std::string want;
        if (ok) {
            StringStream<Char_T> w;
            using ET = QExpression::ExpressionType;
            if (result.Type == ET::NaturalNumber) {
                Digit::NumberToString(w, result.Value.Number.Natural);
            } else if (result.Type == ET::IntegerNumber) {
                Digit::NumberToString(w, result.Value.Number.Integer);
            } else {
                char b[400];
                snprintf(b, sizeof b, "%.2f", result.Value.Number.Real);
                std::string s = b;
                if (s.find('.') != std::string::npos) {
                    while (s.back() == '0') {
                        s.pop_back();
                    }
                    if (s.back() == '.') {
                        s.pop_back();
                    }
                }
                { String<Char_T> ws = wstr<Char_T>(s.c_str()); w.Write(ws.First(), ws.Length()); }
            }
            want = narrow(w);
        } else {
            want = tpl;
        }
        if (got != want) {
            ctx.deviation(classify("math-tag-text"), "{math:} rendered '" + got + "' expected '" + want + "'");
        }
        // the same expression inside a loop, its variables reached through the loop's value ({var:L[name]}), bare and wrapped as a
        // whole in one or two pairs of parentheses: same text as at the top level (or the tag's own source when there is no value)
        if (text.size() < 1500) {
            std::string inner = text;
            for (size_t pos = 0; (pos = inner.find("{var:", pos)) != std::string::npos;) {
                size_t end = inner.find('}', pos);
                if (end == std::string::npos) {
                    break;
                }
                inner = inner.substr(0, pos) + "{var:L[" + inner.substr(pos + 5, end - pos - 5) + "]}" + inner.substr(end + 1);
                pos += 8;
            }
            Value<Char_T> lv;
            build_value(lv);
            Value<Char_T> holder;
            build_value(holder);
            holder[wstr<Char_T>("wrap")] += Memory::Move(lv);
            for (const char *form : {"%s", "(%s)", "((%s))"}) {
                std::string ex = form;
                ex.replace(ex.find("%s"), 2, inner);
                const std::string lt = "<loop set=\"wrap\" value=\"L\">{math:" + ex + "}</loop>";
                jm::Units            lu(lt.begin(), lt.end());
                jm::Buf<Char_T>      lb(lu);
                StringStream<Char_T> lout;
                Template::Render(lb.cp(), SizeT(lb.n), holder, lout);
                const std::string lg = narrow(lout);
                const std::string lw = ok ? want : "{math:" + ex + "}";
                if (lg != lw) {
                    ctx.deviation(classify("math-in-loop-text"), "inside a loop '" + lt + "' rendered '" + lg + "' expected '" + lw + "'");
                }
            }
        }
        // as a condition: satisfied exactly when the value is greater than zero
        std::string itpl = "{if case=\"" + text + "\" true=\"T\" false=\"F\"}";
        if (text.find('"') == std::string::npos) {
            jm::Units          iu(itpl.begin(), itpl.end());
            jm::Buf<Char_T>      ib(iu);
            StringStream<Char_T> iout;
            Template::Render(ib.cp(), SizeT(ib.n), value, iout);
            std::string ig = narrow(iout);
            std::string iw;
            if (ok) {
                using ET = QExpression::ExpressionType;
                bool pos = result.Type == ET::NaturalNumber ? result.Value.Number.Natural > 0
                           : result.Type == ET::IntegerNumber ? result.Value.Number.Integer > 0
                                                              : result.Value.Number.Real > 0;
                iw       = pos ? "T" : "F";
            }
            if (ig != iw) {
                ctx.deviation(classify("inline-if-text"), "{if} rendered '" + ig + "' expected '" + iw + "' for " + text);
            }
            // the block form: a condition that has no value, or a value that is not greater than zero, is not satisfied
            for (const char *form : {"<if case=\"%s\">T<else />F</if>", "<if case=\"0\">Z<else if case=\"%s\">T<else>F</if>"}) {
                std::string bt = form;
                bt.replace(bt.find("%s"), 2, text);
                jm::Units          bu(bt.begin(), bt.end());
                jm::Buf<Char_T>      bb(bu);
                StringStream<Char_T> bout;
                Template::Render(bb.cp(), SizeT(bb.n), value, bout);
                std::string bg = narrow(bout);
                std::string bw = (iw == "T") ? "T" : "F";
                if (bg != bw) {
                    ctx.deviation(classify("block-if-text"), "<if> rendered '" + bg + "' expected '" + bw + "' for " + bt);
                }
            }
        }
    }
};

} // namespace

PBT_MAIN(H)
