// Exact decimal expansions of binary floating-point values (harness-side reference arithmetic).
#ifndef VERIF_BIGDEC_HPP
#define VERIF_BIGDEC_HPP

#include <cstdint>
#include <cstring>
#include <string>
#include <vector>

namespace bigdec {

// natural number, little-endian limbs base 1e9
struct Nat {
    std::vector<uint32_t> l;
    explicit Nat(uint64_t v = 0) {
        while (v != 0) {
            l.push_back(uint32_t(v % 1000000000ULL));
            v /= 1000000000ULL;
        }
    }
    void mul_small(uint32_t m) {
        uint64_t carry = 0;
        for (auto &x : l) {
            uint64_t t = uint64_t(x) * m + carry;
            x          = uint32_t(t % 1000000000ULL);
            carry      = t / 1000000000ULL;
        }
        while (carry != 0) {
            l.push_back(uint32_t(carry % 1000000000ULL));
            carry /= 1000000000ULL;
        }
    }
    void mul_pow2(unsigned k) {
        while (k >= 29) {
            mul_small(1u << 29);
            k -= 29;
        }
        if (k != 0) {
            mul_small(1u << k);
        }
    }
    void mul_pow5(unsigned k) {
        while (k >= 13) {
            mul_small(1220703125u); // 5^13
            k -= 13;
        }
        uint32_t m = 1;
        while (k-- != 0) {
            m *= 5;
        }
        if (m != 1) {
            mul_small(m);
        }
    }
    std::string str() const {
        if (l.empty()) {
            return "0";
        }
        std::string s = std::to_string(l.back());
        char        b[16];
        for (size_t i = l.size() - 1; i-- > 0;) {
            snprintf(b, sizeof b, "%09u", l[i]);
            s += b;
        }
        return s;
    }
};

// value = mant * 2^exp2  (mant > 0) as a plain decimal string "III.FFF" (no exponent, exact; fraction part omitted if zero)
inline std::string exact_decimal(uint64_t mant, int exp2) {
    Nat n(mant);
    if (exp2 >= 0) {
        n.mul_pow2(unsigned(exp2));
        return n.str();
    }
    unsigned k = unsigned(-exp2);
    n.mul_pow5(k);
    std::string s = n.str();
    if (s.size() <= k) {
        s = std::string(k - s.size() + 1, '0') + s;
    }
    std::string ip = s.substr(0, s.size() - k), fp = s.substr(s.size() - k);
    while (!fp.empty() && fp.back() == '0') {
        fp.pop_back();
    }
    return fp.empty() ? ip : ip + "." + fp;
}

// decompose a finite positive double into mant * 2^exp2
inline void decompose(double d, uint64_t &mant, int &exp2) {
    uint64_t b;
    memcpy(&b, &d, 8);
    uint64_t f = b & 0xFFFFFFFFFFFFFULL;
    int      e = int((b >> 52) & 0x7FF);
    if (e == 0) {
        mant = f;
        exp2 = -1074;
    } else {
        mant = f | (1ULL << 52);
        exp2 = e - 1075;
    }
}

inline std::string exact_decimal(double d) { // d finite, > 0
    uint64_t m;
    int      e;
    decompose(d, m, e);
    return exact_decimal(m, e);
}

// exact midpoint between d and the next double above it (d finite, >= 0, not the largest finite)
inline std::string midpoint_above(double d) {
    uint64_t m;
    int      e;
    decompose(d, m, e);
    return exact_decimal(2 * m + 1, e - 1);
}

// re-spell a plain decimal "III.FFF" in scientific form with `shift` digits moved: returns text whose value is identical
// (digits "D.DDDD" + "e" + exponent)
inline std::string to_scientific(const std::string &plain) {
    std::string ip = plain, fp;
    size_t      dot = plain.find('.');
    if (dot != std::string::npos) {
        ip = plain.substr(0, dot);
        fp = plain.substr(dot + 1);
    }
    std::string digits = ip + fp;
    long long   exp10  = (long long)ip.size() - 1;
    size_t      nz     = 0;
    while (nz + 1 < digits.size() && digits[nz] == '0') {
        ++nz;
        --exp10;
    }
    digits = digits.substr(nz);
    while (digits.size() > 1 && digits.back() == '0') {
        digits.pop_back();
    }
    std::string o = digits.substr(0, 1);
    if (digits.size() > 1) {
        o += "." + digits.substr(1);
    }
    o += "e" + std::to_string(exp10);
    return o;
}

inline int64_t ordered(double d) { // monotone map of doubles to integers (for ulp distance)
    int64_t b;
    memcpy(&b, &d, 8);
    return b < 0 ? int64_t(0x8000000000000000ULL) - b : b;
}

} // namespace bigdec

#endif
