// Text-level generator of (mostly) well-formed templates over the documented tag grammar, using names that exist in the
// value palette of tvalues.hpp. No oracle lives here: C01 mutates these texts, C16/C17 render them repeatedly.
#ifndef VERIF_TGEN_HPP
#define VERIF_TGEN_HPP

#include "jmodel.hpp"

#include <string>

namespace tgen {

using jm::Entropy;
using jm::Units;

struct Scope {
    std::vector<std::string> loop_vars;
    int                      depth{0};
    int                      loops{0};
};

inline std::string pick_name(Entropy &e, int value_id) {
    static const char *by_id[8][8] = {
        {"a", "b", "z", "d", "s", "n", "t", "ns"}, {"0", "1", "2", "3", "0", "1", "2", "9"},       {"0", "1", "2", "0[g]", "1[v]", "2[g]", "0[v]", "5"},
        {"o", "l", "o[x]", "o[y]", "l[0]", "o[x][1]", "l[2]", "o[q]"}, {"a", "b", "c", "arr", "arr[0]", "arr[1]", "arr[2]", "x"}, {"eo", "ea", "eo[a]", "ea[0]", "eo", "ea", "q", "w"},
        {"k1", "k2", "k<", "k1[0]", "k<[in]", "]", "a[]", "a[][]"},  {"a", "b", "c", "d", "0", "a[0]", "e", "f"}};
    return by_id[value_id & 7][e.below(8)];
}

inline std::string var_path(Entropy &e, int value_id, const Scope &sc) {
    if (!sc.loop_vars.empty() && e.chance(60)) {
        std::string v = sc.loop_vars[e.below(uint32_t(sc.loop_vars.size()))];
        switch (e.below(5)) {
            case 0: return v + "[g]";
            case 1: return v + "[v]";
            case 2: return v + "[0]";
            case 3: return v + "[" + pick_name(e, value_id) + "]";
            default: return v;
        }
    }
    return pick_name(e, value_id);
}

inline std::string expr(Entropy &e, int value_id, const Scope &sc, int depth = 2) {
    auto operand = [&]() -> std::string {
        switch (e.below(6)) {
            case 0: return std::to_string(e.below(20));
            case 1: return "-" + std::to_string(1 + e.below(9));
            case 2: return (const char *[]){"0.5", "2.5", "1e2", "10.25"}[e.below(4)];
            case 3:
                if (depth > 0) {
                    return "(" + expr(e, value_id, sc, depth - 1) + ")";
                }
                return "1";
            default: return "{var:" + var_path(e, value_id, sc) + "}";
        }
    };
    static const char *ops[] = {"+", "-", "*", "/", "%", "^", "==", "!=", "<", ">", "<=", ">=", "&&", "||", "&", "|"};
    std::string        s     = operand();
    unsigned           n     = e.below(3);
    for (unsigned i = 0; i < n; ++i) {
        s += e.chance(50) ? " " : "";
        s += ops[e.below(16)];
        s += e.chance(50) ? " " : "";
        s += operand();
    }
    return s;
}

inline std::string text_run(Entropy &e) {
    static const char *t[] = {"", "x", " ", "Hello, ", "a & b ", "1 < 2 ", "\n", "line\n", "<b>bold</b>", "100%", "(", ")", "q=\"1\" "};
    return t[e.below(13)];
}

inline void gen_block(Entropy &e, int value_id, Scope &sc, std::string &o, int budget);

inline void gen_inline(Entropy &e, int value_id, Scope &sc, std::string &o) {
    switch (e.below(4)) {
        case 0: o += "{var:" + var_path(e, value_id, sc) + "}"; break;
        case 1: o += "{raw:" + var_path(e, value_id, sc) + "}"; break;
        case 2: o += "{math:" + expr(e, value_id, sc) + "}"; break;
        default: o += "{var:" + var_path(e, value_id, sc) + "}"; break;
    }
}

inline void gen_tag(Entropy &e, int value_id, Scope &sc, std::string &o, int budget) {
    const char q = e.chance(50) ? '"' : '\'';
    switch (e.below(budget > 0 ? 10 : 5)) {
        case 0:
        case 1:
        case 2: gen_inline(e, value_id, sc, o); break;
        case 3: { // super variable
            o += "{svar:" + std::string(e.chance(70) ? "p" : pick_name(e, value_id));
            unsigned n = 1 + e.below(4);
            for (unsigned i = 0; i < n; ++i) {
                o += ", ";
                gen_inline(e, value_id, sc, o);
            }
            o += "}";
            break;
        }
        case 4: { // inline if
            o += "{if case=";
            o += q;
            o += expr(e, value_id, sc, 1);
            o += q;
            bool t_first = e.chance(70);
            for (int k = 0; k < 2; ++k) {
                bool is_true = (k == 0) == t_first;
                if (e.chance(85)) {
                    o += is_true ? " true=" : " false=";
                    o += q;
                    o += e.chance(50) ? "yes " : "";
                    if (e.chance(60)) {
                        gen_inline(e, value_id, sc, o);
                    }
                    o += q;
                }
            }
            o += "}";
            break;
        }
        case 5:
        case 6: { // if / else if / else
            o += "<if case=";
            o += q;
            o += expr(e, value_id, sc, 1);
            o += q;
            o += ">";
            gen_block(e, value_id, sc, o, budget - 1);
            unsigned n = e.below(3);
            for (unsigned i = 0; i < n; ++i) {
                o += e.chance(50) ? "<else if case=" : "<elseif case=";
                o += q;
                o += expr(e, value_id, sc, 1);
                o += q;
                o += e.chance(50) ? " />" : ">";
                gen_block(e, value_id, sc, o, budget - 1);
            }
            if (e.chance(50)) {
                o += e.chance(50) ? "<else />" : "<else>";
                gen_block(e, value_id, sc, o, budget - 1);
            }
            o += "</if>";
            break;
        }
        default: { // loop
            if (sc.loops >= 3) {
                gen_inline(e, value_id, sc, o);
                break;
            }
            std::string var = std::string("v") + char('a' + sc.depth) + std::to_string(e.below(3));
            o += "<loop";
            if (e.chance(75)) {
                o += " set=";
                o += q;
                o += var_path(e, value_id, sc);
                o += q;
            }
            if (e.chance(85)) {
                o += " value=";
                o += q;
                o += var;
                o += q;
            }
            if (e.chance(25)) {
                o += " group=";
                o += q;
                o += "g";
                o += q;
            }
            if (e.chance(30)) {
                o += " sort=";
                o += q;
                o += e.chance(50) ? "ascend" : "descend";
                o += q;
            }
            o += ">";
            sc.loop_vars.push_back(var);
            ++sc.depth;
            ++sc.loops;
            gen_block(e, value_id, sc, o, budget - 1);
            --sc.depth;
            sc.loop_vars.pop_back();
            o += "</loop>";
            break;
        }
    }
}

inline void gen_block(Entropy &e, int value_id, Scope &sc, std::string &o, int budget) {
    unsigned n = 1 + e.below(3);
    for (unsigned i = 0; i < n; ++i) {
        o += text_run(e);
        gen_tag(e, value_id, sc, o, budget);
    }
    o += text_run(e);
}

inline Units random_template_text(Entropy &e, int value_id) {
    std::string o;
    Scope       sc;
    gen_block(e, value_id, sc, o, 3);
    Units u;
    for (unsigned char c : o) {
        u.push_back(c);
    }
    return u;
}

} // namespace tgen

#endif
