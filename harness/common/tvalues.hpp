// A fixed palette of value trees (built through the public API) used by the template fuzz targets.
#ifndef VERIF_TVALUES_HPP
#define VERIF_TVALUES_HPP

#include "qshim.hpp"
#include "jmodel.hpp"

namespace tv {

constexpr int kPalette = 8;

template <typename Char_T>
Qentem::StringView<Char_T> sv(const jm::Buf<Char_T> &b) {
    return Qentem::StringView<Char_T>{b.cp(), Qentem::SizeT(b.n)};
}

template <typename Char_T>
struct Key {
    jm::Buf<Char_T> b;
    explicit Key(const char *s) : b([&] {
        jm::Units u;
        for (; *s; ++s) {
            u.push_back((unsigned char)*s);
        }
        return u;
    }()) {}
    Qentem::StringView<Char_T> v() const { return Qentem::StringView<Char_T>{b.cp(), Qentem::SizeT(b.n)}; }
};

template <typename Char_T>
Qentem::String<Char_T> str(const char *s) {
    Key<Char_T> k(s);
    return Qentem::String<Char_T>{k.b.cp(), Qentem::SizeT(k.b.n)};
}

// id 0..7; every container has at most 3 members so that nested loops stay small
template <typename Char_T>
void build(int id, Qentem::Value<Char_T> &v) {
    using V = Qentem::Value<Char_T>;
    auto K  = [](const char *s) { return Key<Char_T>(s); };
    switch (id & 7) {
        case 0: { // flat object with every scalar kind; zero and negative numbers so that % 0 and / 0 are reachable
            v[K("a").v()]  = 5U;
            v[K("b").v()]  = -3;
            v[K("z").v()]  = 0U;
            v[K("d").v()]  = 2.5;
            v[K("s").v()]  = str<Char_T>("text & <b>");
            v[K("n").v()]  = nullptr;
            v[K("t").v()]  = true;
            v[K("f").v()]  = false;
            v[K("e").v()]  = str<Char_T>("");
            v[K("ns").v()] = str<Char_T>("12");
            v[K("p").v()]  = str<Char_T>("Hi {0}, {1}! {2}{3}{9}{");
            break;
        }
        case 1: { // array of scalars
            v += 1U;
            v += -2;
            v += 0.5;
            break;
        }
        case 2: { // array of objects (group/sort targets), key at different positions
            for (int i = 0; i < 3; ++i) {
                V o;
                if (i == 1) {
                    o[K("v").v()] = i;
                }
                o[K("g").v()] = (i == 2) ? 1 : i;
                if (i != 1) {
                    o[K("v").v()] = 10 - i;
                }
                v += Qentem::Memory::Move(o);
            }
            break;
        }
        case 3: { // nested containers, depth 4
            V inner;
            inner += 1;
            inner += 2;
            V mid;
            mid[K("x").v()] = Qentem::Memory::Move(inner);
            mid[K("y").v()] = str<Char_T>("yy");
            v[K("o").v()]   = Qentem::Memory::Move(mid);
            v[K("l").v()] += str<Char_T>("b");
            v[K("l").v()] += str<Char_T>("a");
            v[K("l").v()] += str<Char_T>("ab");
            break;
        }
        case 4: { // removed members and Undefined holes
            v[K("a").v()] = 1;
            v[K("b").v()] = 2;
            v[K("c").v()] = 3;
            v.Remove(K("b").b.cp(), 1);
            v[K("arr").v()] += 1;
            v[K("arr").v()] += 2;
            v[K("arr").v()] += 3;
            v.GetValue(K("arr").b.cp(), 3)->RemoveIndex(1U);
            break;
        }
        case 5: { // empty containers
            v[K("eo").v()] = V{Qentem::ValueType::Object};
            v[K("ea").v()] = V{Qentem::ValueType::Array};
            break;
        }
        case 6: { // object of arrays: loop key printing
            v[K("k1").v()] += 1;
            v[K("k2").v()] += str<Char_T>("q");
            v[K("k<").v()][K("in").v()] = 7;
            // keys made of brackets / empty keys: what a name such as "]" or "a[]" can resolve to
            v[K("]").v()][K("").v()] = 3;
            v[K("a]").v()]           = 1;
            v[K("[").v()]            = 2;
            v[K("a").v()][K("").v()][K("").v()] = 4;
            v[K("").v()]             = 5;
            break;
        }
        default: { // numeric strings and large numbers
            v[K("a").v()] = 18446744073709551615ULL;
            v[K("b").v()] = (long long)INT64_MIN;
            v[K("c").v()] = 1e300;
            v[K("d").v()] = str<Char_T>("-7.5");
            v[K("0").v()] = str<Char_T>("zero");
            break;
        }
    }
}

} // namespace tv

#endif
