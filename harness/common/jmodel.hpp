// Harness-side JSON document model: tree, entropy-driven construction, RFC 8259 spelling with every legal
// variation, reference UTF encoders, comparison against Qentem::Value, strict RFC 8259 reference parser.
// Nothing in here uses the library's parser, stringifier or encoders.
#ifndef VERIF_JMODEL_HPP
#define VERIF_JMODEL_HPP

#include "qshim.hpp"
#include "bigdec.hpp"

#include <cmath>
#include <cstdint>
#include <algorithm>
#include <cstring>
#include <string>
#include <utility>
#include <vector>

namespace jm {

using Units = std::vector<uint32_t>;

// ---- entropy: a byte string consumed front to back; exhausted => zeros (so shorter inputs mean simpler cases) ----
struct Entropy {
    const std::vector<uint8_t> &d;
    size_t                      pos{0};
    explicit Entropy(const std::vector<uint8_t> &v) : d(v) {}
    uint32_t byte() { return pos < d.size() ? d[pos++] : 0; }
    // uniform-ish in [0, n)
    uint32_t below(uint32_t n) {
        if (n <= 1) {
            return 0;
        }
        if (n <= 256) {
            return byte() % n;
        }
        uint32_t v = byte();
        v          = (v << 8) | byte();
        if (n > 65536) {
            v = (v << 8) | byte();
            v = (v << 8) | byte();
        }
        return v % n;
    }
    bool     chance(uint32_t percent) { return below(100) < percent; }
    uint64_t u64() {
        uint64_t v = 0;
        for (int i = 0; i < 8; ++i) {
            v = (v << 8) | byte();
        }
        return v;
    }
    bool exhausted() const { return pos >= d.size(); }
};

enum class K { Null, True, False, UInt, Int, Real, Str, Arr, Obj, Undef };

struct Node {
    K                                   k{K::Null};
    uint64_t                            u{0};
    int64_t                             i{0};
    double                              d{0};
    std::string                         numeral; // C06: the RFC 8259 spelling the number came from (source of truth)
    Units                               s;       // code points
    std::vector<Node>                   arr;
    std::vector<std::pair<Units, Node>> obj; // in document order, may contain duplicate keys
};

// ---- reference encoders ----
inline void encode_cp(uint32_t cp, int width, Units &o) {
    if (width == 4) {
        o.push_back(cp);
    } else if (width == 2) {
        if (cp < 0x10000) {
            o.push_back(cp);
        } else {
            uint32_t v = cp - 0x10000;
            o.push_back(0xD800 + (v >> 10));
            o.push_back(0xDC00 + (v & 0x3FF));
        }
    } else {
        if (cp <= 0x7F) {
            o.push_back(cp);
        } else if (cp <= 0x7FF) {
            o.push_back(0xC0 | (cp >> 6));
            o.push_back(0x80 | (cp & 0x3F));
        } else if (cp <= 0xFFFF) {
            o.push_back(0xE0 | (cp >> 12));
            o.push_back(0x80 | ((cp >> 6) & 0x3F));
            o.push_back(0x80 | (cp & 0x3F));
        } else {
            o.push_back(0xF0 | (cp >> 18));
            o.push_back(0x80 | ((cp >> 12) & 0x3F));
            o.push_back(0x80 | ((cp >> 6) & 0x3F));
            o.push_back(0x80 | (cp & 0x3F));
        }
    }
}
inline Units encode(const Units &cps, int width) {
    Units o;
    for (uint32_t c : cps) {
        encode_cp(c, width, o);
    }
    return o;
}

// ---- code point / string generation ----
// Look-alike mode (set by a harness from a field of its Case; off for older replay files): half of the two-byte code points become
// U+0100 | c for a syntax or control character c - one UTF-16 / UTF-32 unit whose LOW BYTE is '"', '\\', a control character, a
// bracket ... They are ordinary string content at every width.
inline bool &look_alike_cps() {
    static thread_local bool on = false;
    return on;
}
inline bool &lone_low_surrogates() {
    static thread_local bool on = false;
    return on;
}
inline uint32_t gen_cp(Entropy &e) {
    switch (e.below(12)) {
        case 0: return e.below(0x20);                                      // control
        case 1: return (uint32_t[]){'"', '\\', '/', 0x7F, 0, '\b', '\f', '\n', '\r', '\t', '&', '<'}[e.below(12)];
        case 2: {
            const uint32_t c = 0x80 + e.below(0x780);                      // 2-byte UTF-8
            if (look_alike_cps() && (c & 1U) != 0) {
                static const uint32_t low[] = {'"', '\\', '/', 0x0A, 0x00, 0x1F, 'u', 'n', '{', '}', '[', ']', ':', ',', '0', 'e', '-', 't', 0x7F, ' '};
                return 0x0100U | low[(c >> 1) % 20];
            }
            return c;
        }
        case 3: {
            uint32_t c = 0x800 + e.below(0xF800);                          // 3-byte
            if (c >= 0xD800 && c <= 0xDFFF && lone_low_surrogates()) {
                // an unpaired low surrogate, always spelled as a \uXXXX escape: legal by the RFC 8259 grammar (C07 only looks at
                // acceptance, not at the value such a string denotes)
                return (c & 4U) ? 0xDC00U : (c & 8U) ? 0xDFFFU : 0xDC00U + (c & 0x3FFU);
            }
            return (c >= 0xD800 && c <= 0xDFFF) ? 0xE000 + (c & 0x7FF) : c;
        }
        case 4: return 0x10000 + e.below(0x100000);                        // astral
        case 5: return (uint32_t[]){0xFFFF, 0xFFFE, 0xD7FF, 0xE000, 0x10000, 0x10FFFF, 0x4FFFF, 0x50000, 0x7FF, 0x800}[e.below(10)];
        default: return 0x20 + e.below(0x5F);                              // printable ASCII
    }
}
inline Units gen_string(Entropy &e, unsigned maxlen = 12) {
    Units    s;
    unsigned n = e.below(maxlen + 1);
    for (unsigned i = 0; i < n; ++i) {
        s.push_back(gen_cp(e));
    }
    return s;
}
// switch: the small key alphabet is made of pairs with one 32-bit hash (StringUtils::Hash does not see the first unit of a longer key:
// year / pear) of which some are a key and the key plus one unit (t / ti, l / la, m / mb)
inline bool &hash_twin_keys() {
    static thread_local bool on = false;
    return on;
}
inline Units gen_key(Entropy &e) {
    // small alphabet so that duplicate keys occur, plus arbitrary strings
    static const char *small1[] = {"a", "b", "k", "key", "", "a b", "x1", "id"};
    static const char *small2[] = {"ti", "t", "pear", "year", "la", "l", "mb", "m"};
    const char *const *small    = hash_twin_keys() ? small2 : small1;
    if (e.chance(70)) {
        Units u;
        for (const char *p = small[e.below(8)]; *p; ++p) {
            u.push_back((unsigned char)*p);
        }
        return u;
    }
    return gen_string(e, 6);
}

// ---- RFC 8259 numerals (within range) ----
inline std::string gen_digits(Entropy &e, unsigned n, bool first_nonzero) {
    std::string s;
    for (unsigned i = 0; i < n; ++i) {
        s.push_back(char('0' + e.below(10)));
    }
    if (first_nonzero && !s.empty() && s[0] == '0') {
        s[0] = char('1' + e.below(9));
    }
    return s;
}
inline std::string gen_numeral(Entropy &e) {
    std::string s;
    if (e.chance(35)) {
        s += "-";
    }
    if (e.chance(10)) { // long runs of nines just below a power of two / ten: rounding carries through the whole significand
        static const char *heads[] = {"1", "3", "1023", "4294967295", "9", "0"};
        const uint32_t      hsel   = e.below(6);
        const uint32_t      nines  = 14 + e.below(8);
        if (look_alike_cps() && (nines & 1U) != 0) {
            // (same switch as the look-alike code points: off for older replay files) a numeral thousands of characters long whose
            // written exponent only compensates its own zeros: 0.000...025e+N and 1000...0E-N denote ordinary values
            static const unsigned zs[] = {998, 9995, 9999, 10000, 12345, 65536};
            const unsigned        z    = zs[hsel];
            if ((nines & 6U) == 6U) { // a zero with an exponent of ten and more significant digits: still zero
                static const char *ze[] = {"0e1234567890", "0E-1234567890", "0.0e+98765432101", "0.000E-10000000000", "0e12345678901234567890", "0.0e-4294967296"};
                return s + ze[hsel];
            }
            if ((nines & 2U) != 0) {
                return s + "0." + std::string(z, '0') + "25e" + ((nines & 4U) ? "+" : "") + std::to_string(z + 1);
            }
            return s + "1" + std::string(z, '0') + ".5E-" + std::to_string(z);
        }
        if (look_alike_cps() && hsel >= 3) {
            // a double from one of the three binades whose top lies closest above a power of ten (found by a scan, see C11's
            // least-slack enumeration), spelled with 17 significant digits: where a 17-digit text has the least slack
            static const std::vector<std::pair<uint64_t, uint64_t>> slivers = [] {
                std::vector<std::pair<double, std::pair<uint64_t, uint64_t>>> v;
                for (int k = -1021; k <= 1023; ++k) {
                    const double p = std::ldexp(1.0, k);
                    char         b[32];
                    snprintf(b, sizeof b, "1e%d", int(std::floor(std::log10(p))));
                    const double t = strtod(b, nullptr);
                    if (t > 0 && t <= p && p / t < 1.04) {
                        uint64_t lo, hi;
                        memcpy(&lo, &t, 8);
                        memcpy(&hi, &p, 8);
                        if (hi > lo) {
                            v.push_back({p / t, {lo, hi}});
                        }
                    }
                }
                std::sort(v.begin(), v.end());
                std::vector<std::pair<uint64_t, uint64_t>> o;
                for (size_t i = 0; i < v.size() && i < 3; ++i) {
                    o.push_back(v[i].second);
                }
                return o;
            }();
            const auto    &sv   = slivers[(hsel - 3) % slivers.size()];
            const uint64_t bits = sv.first + e.u64() % (sv.second - sv.first);
            double         d;
            memcpy(&d, &bits, 8);
            char b[40];
            snprintf(b, sizeof b, "%.17g", d);
            return s + b;
        }
        std::string         digits = std::string(heads[hsel]) + std::string(nines, '9');
        size_t              point  = (digits[0] == '0') ? 1 : 1 + e.below(uint32_t(digits.size())); // no leading zeros in RFC 8259
        s += digits.substr(0, point) + (point < digits.size() ? "." + digits.substr(point) : "");
        if (e.chance(30)) {
            s += "e-" + std::to_string(e.below(20));
        }
        return s;
    }
    switch (e.below(8)) {
        case 0: s += "0"; break;
        case 1: s += gen_digits(e, 1 + e.below(3), true); break;
        case 2: s += gen_digits(e, 1 + e.below(19), true); break;
        case 3: {
            static const char *b[] = {"9223372036854775807", "9223372036854775808", "18446744073709551615", "18446744073709551616", "9007199254740993"};
            s += b[e.below(5)];
            break;
        }
        default: s += e.chance(30) ? std::string("0") : gen_digits(e, 1 + e.below(12), true); break;
    }
    uint32_t form = e.below(10);
    if (form >= 4 && form <= 7) {
        s += "." + gen_digits(e, 1 + e.below(14), false);
    }
    if (form >= 6) {
        s += e.chance(50) ? "e" : "E";
        uint32_t sg = e.below(3);
        s += sg == 0 ? "" : sg == 1 ? "+" : "-";
        s += std::to_string(e.below(sg == 2 ? 300 : 280));
        // keep within range: checked by the caller through strtod
    }
    return s;
}
inline bool numeral_is_integer(const std::string &t) { return t.find_first_of(".eE") == std::string::npos; }
inline int  cmp_dec(const std::string &a, const std::string &b) {
    if (a.size() != b.size()) {
        return a.size() < b.size() ? -1 : 1;
    }
    return a.compare(b) < 0 ? -1 : (a == b ? 0 : 1);
}
// fills the node from its numeral: exact integer kinds when it is an integer numeral that fits, else Real (strtod)
inline void set_number(Node &n, const std::string &numeral) {
    n.numeral = numeral;
    bool        neg = numeral[0] == '-';
    std::string dg  = neg ? numeral.substr(1) : numeral;
    if (numeral_is_integer(numeral)) {
        if (!neg && cmp_dec(dg, "18446744073709551615") <= 0) {
            n.k = K::UInt;
            n.u = strtoull(dg.c_str(), nullptr, 10);
            return;
        }
        if (neg && dg != "0" && cmp_dec(dg, "9223372036854775808") <= 0) {
            n.k = K::Int;
            n.i = int64_t(0 - strtoull(dg.c_str(), nullptr, 10));
            return;
        }
    }
    n.k = K::Real;
    n.d = strtod(numeral.c_str(), nullptr);
}

// ---- tree construction ----
inline Node gen_tree(Entropy &e, int depth, bool container_only = false) {
    Node     n;
    uint32_t pick = container_only ? 9 + e.below(2) : e.below(depth > 0 ? 11 : 9);
    switch (pick) {
        case 0: n.k = K::Null; break;
        case 1: n.k = K::True; break;
        case 2: n.k = K::False; break;
        case 3:
        case 4:
        case 5: {
            for (int tries = 0; tries < 4; ++tries) {
                std::string t = gen_numeral(e);
                double      v = strtod(t.c_str(), nullptr);
                bool        zero_mant = true;
                for (char c : t) {
                    if (c == 'e' || c == 'E') {
                        break;
                    }
                    if (c >= '1' && c <= '9') {
                        zero_mant = false;
                    }
                }
                if (std::isfinite(v) && (v != 0.0 || zero_mant)) { // within range
                    set_number(n, t);
                    return n;
                }
            }
            set_number(n, "1");
            break;
        }
        case 6:
        case 7:
        case 8: {
            n.k = K::Str;
            n.s = gen_string(e);
            break;
        }
        case 9: {
            n.k        = K::Arr;
            unsigned c = e.below(5);
            for (unsigned i = 0; i < c; ++i) {
                n.arr.push_back(gen_tree(e, depth - 1));
            }
            break;
        }
        default: {
            n.k        = K::Obj;
            unsigned c = e.below(5);
            for (unsigned i = 0; i < c; ++i) {
                Units key = gen_key(e);
                n.obj.emplace_back(key, gen_tree(e, depth - 1));
            }
            break;
        }
    }
    return n;
}

// ---- spelling (text as code points; structural characters are ASCII) ----
struct SpellOpts {
    bool whitespace{true};
    bool escapes{true};
};
inline void ws(Entropy &e, Units &o, const SpellOpts &op) {
    if (!op.whitespace) {
        return;
    }
    unsigned n = e.chance(70) ? 0 : e.below(4);
    for (unsigned i = 0; i < n; ++i) {
        o.push_back((uint32_t[]){' ', '\t', '\n', '\r'}[e.below(4)]);
    }
}
inline void put_ascii(Units &o, const std::string &s) {
    for (unsigned char c : s) {
        o.push_back(c);
    }
}
inline void put_hex4(Units &o, uint32_t v, Entropy &e) {
    static const char *U = "0123456789ABCDEF", *L = "0123456789abcdef";
    uint32_t           style = e.below(3);
    for (int i = 3; i >= 0; --i) {
        uint32_t dgt = (v >> (4 * i)) & 0xF;
        o.push_back((unsigned char)((style == 0 || (style == 2 && e.chance(50))) ? U[dgt] : L[dgt]));
    }
}
inline void spell_string(const Units &s, Entropy &e, Units &o, const SpellOpts &op, bool &used_escape) {
    o.push_back('"');
    for (uint32_t c : s) {
        bool must = (c < 0x20 || c == '"' || c == '\\' || (c >= 0xD800 && c <= 0xDFFF));
        if (!must && !(op.escapes && e.chance(15))) {
            o.push_back(c);
            continue;
        }
        used_escape = true;
        const char *sh = nullptr;
        switch (c) {
            case '"': sh = "\\\""; break;
            case '\\': sh = "\\\\"; break;
            case '/': sh = "\\/"; break;
            case '\b': sh = "\\b"; break;
            case '\f': sh = "\\f"; break;
            case '\n': sh = "\\n"; break;
            case '\r': sh = "\\r"; break;
            case '\t': sh = "\\t"; break;
            default: break;
        }
        if (sh != nullptr && e.chance(70)) {
            put_ascii(o, sh);
        } else if (c < 0x10000) {
            put_ascii(o, "\\u");
            put_hex4(o, c, e);
        } else {
            uint32_t v = c - 0x10000;
            put_ascii(o, "\\u");
            put_hex4(o, 0xD800 + (v >> 10), e);
            put_ascii(o, "\\u");
            put_hex4(o, 0xDC00 + (v & 0x3FF), e);
        }
    }
    o.push_back('"');
}
struct SpellStats {
    bool                escape{false}, nonint{false}, dupkey{false};
    int                 depth{0};
    std::vector<size_t> closers; // offsets (in code points) of structural closing brackets
};
inline void spell(const Node &n, Entropy &e, Units &o, const SpellOpts &op, SpellStats &st, int depth = 1) {
    if (depth > st.depth) {
        st.depth = depth;
    }
    switch (n.k) {
        case K::Undef: break;
        case K::Null: put_ascii(o, "null"); break;
        case K::True: put_ascii(o, "true"); break;
        case K::False: put_ascii(o, "false"); break;
        case K::UInt:
        case K::Int:
        case K::Real:
            put_ascii(o, n.numeral);
            if (!numeral_is_integer(n.numeral)) {
                st.nonint = true;
            }
            break;
        case K::Str: spell_string(n.s, e, o, op, st.escape); break;
        case K::Arr: {
            o.push_back('[');
            ws(e, o, op);
            for (size_t i = 0; i < n.arr.size(); ++i) {
                if (i != 0) {
                    o.push_back(',');
                    ws(e, o, op);
                }
                spell(n.arr[i], e, o, op, st, depth + 1);
                ws(e, o, op);
            }
            st.closers.push_back(o.size());
            o.push_back(']');
            break;
        }
        case K::Obj: {
            o.push_back('{');
            ws(e, o, op);
            for (size_t i = 0; i < n.obj.size(); ++i) {
                if (i != 0) {
                    o.push_back(',');
                    ws(e, o, op);
                }
                for (size_t j = 0; j < i; ++j) {
                    if (n.obj[j].first == n.obj[i].first) {
                        st.dupkey = true;
                    }
                }
                spell_string(n.obj[i].first, e, o, op, st.escape);
                ws(e, o, op);
                o.push_back(':');
                ws(e, o, op);
                spell(n.obj[i].second, e, o, op, st, depth + 1);
                ws(e, o, op);
            }
            st.closers.push_back(o.size());
            o.push_back('}');
            break;
        }
    }
}

// the value a document denotes: duplicate keys collapse (last value at the first key's position), recursively
inline Node denoted(const Node &n) {
    Node r = n;
    if (n.k == K::Arr) {
        r.arr.clear();
        for (auto &c : n.arr) {
            r.arr.push_back(denoted(c));
        }
    } else if (n.k == K::Obj) {
        r.obj.clear();
        for (auto &kv : n.obj) {
            bool found = false;
            for (auto &ex : r.obj) {
                if (ex.first == kv.first) {
                    ex.second = denoted(kv.second);
                    found     = true;
                    break;
                }
            }
            if (!found) {
                r.obj.emplace_back(kv.first, denoted(kv.second));
            }
        }
    }
    return r;
}

// ---- unit buffers for the library ----
template <typename Char_T>
struct Buf {
    Char_T *p{nullptr};
    size_t  n{0};
    explicit Buf(const Units &u) : n(u.size()) {
        p = static_cast<Char_T *>(malloc(n * sizeof(Char_T) + (n == 0 ? 1 : 0))); // exact size: ASan redzone right behind
        for (size_t i = 0; i < n; ++i) {
            p[i] = Char_T(u[i]);
        }
    }
    ~Buf() { free(p); }
    const Char_T *cp() const { return p; } // String(Char_T*, len) ADOPTS the buffer; always hand out const pointers
    Buf(const Buf &)            = delete;
    Buf &operator=(const Buf &) = delete;
};

template <typename Char_T>
uint32_t unit_of(Char_T c) {
    return sizeof(Char_T) == 1 ? uint32_t((unsigned char)c) : sizeof(Char_T) == 2 ? uint32_t(uint16_t(c)) : uint32_t(c);
}
template <typename Char_T>
Units units_of(const Char_T *p, size_t n) {
    Units u;
    for (size_t i = 0; i < n; ++i) {
        u.push_back(unit_of(p[i]));
    }
    return u;
}
inline std::string show(const Units &u) { // for messages
    std::string o;
    char        b[16];
    for (uint32_t c : u) {
        if (c >= 0x20 && c < 0x7F) {
            o.push_back(char(c));
        } else {
            snprintf(b, sizeof b, "<%X>", c);
            o += b;
        }
    }
    return o;
}

// ---- comparison of a library value with a model node; returns "" when equal, else a description ----
struct CmpOpts {
    bool exact_number_kind{true}; // C06: integer numerals must come back in the exact integer kind
    int  ulp{1};
    bool strings_are_units{false}; // model strings/keys already hold code units of the value's width (C08, C12)
};
template <typename Char_T>
std::string compare(const Qentem::Value<Char_T> &v, const Node &n, const CmpOpts &op, const std::string &path = "$") {
    using namespace Qentem;
    auto enc    = [&](const Units &cps) { return op.strings_are_units ? cps : encode(cps, int(sizeof(Char_T))); };
    auto str_eq = [&](const Char_T *p, size_t len, const Units &cps) { return units_of(p, len) == enc(cps); };
    switch (n.k) {
        case K::Undef: return v.IsUndefined() ? "" : path + ": expected Undefined";
        case K::Null: return v.IsNull() ? "" : path + ": expected null";
        case K::True: return v.IsTrue() ? "" : path + ": expected true";
        case K::False: return v.IsFalse() ? "" : path + ": expected false";
        case K::UInt:
            if (v.IsUInt64() && v.GetUInt64() == n.u) {
                return "";
            }
            if (!op.exact_number_kind && v.IsNumber() && v.GetNumber() == double(n.u)) {
                return "";
            }
            return path + ": expected unsigned " + std::to_string(n.u) + " got type " + std::to_string(int(v.Type())) + " value " +
                   std::to_string(v.GetNumber());
        case K::Int:
            if (v.IsInt64() && v.GetInt64() == n.i) {
                return "";
            }
            if (!op.exact_number_kind && v.IsNumber() && v.GetNumber() == double(n.i)) {
                return "";
            }
            return path + ": expected signed " + std::to_string(n.i) + " got type " + std::to_string(int(v.Type())) + " value " +
                   std::to_string(v.GetNumber());
        case K::Real: {
            if (!v.IsNumber()) {
                return path + ": expected a number (" + n.numeral + "), got type " + std::to_string(int(v.Type()));
            }
            double got = v.GetNumber();
            if (!op.exact_number_kind || v.IsDouble()) {
                int64_t dd = bigdec::ordered(got) - bigdec::ordered(n.d);
                if (n.d == 0 && got == 0) {
                    return "";
                }
                if (dd >= -op.ulp && dd <= op.ulp && !std::isnan(got)) {
                    return "";
                }
            } else if (got == n.d) { // an integral value that came back in an integer kind
                return "";
            }
            char b[160];
            snprintf(b, sizeof b, ": expected %.17g (%s) got %.17g type %d", n.d, n.numeral.c_str(), got, int(v.Type()));
            return path + b;
        }
        case K::Str: {
            if (!v.IsString()) {
                return path + ": expected string got type " + std::to_string(int(v.Type()));
            }
            if (!str_eq(v.StringStorage(), v.Length(), n.s)) {
                return path + ": string differs: got " + show(units_of(v.StringStorage(), v.Length())) + " expected " +
                       show(enc(n.s));
            }
            return "";
        }
        case K::Arr: {
            if (!v.IsArray()) {
                return path + ": expected array got type " + std::to_string(int(v.Type()));
            }
            if (v.Size() != n.arr.size()) {
                return path + ": array size " + std::to_string(v.Size()) + " expected " + std::to_string(n.arr.size());
            }
            for (size_t i = 0; i < n.arr.size(); ++i) {
                const Value<Char_T> *c = v.GetValue(SizeT(i));
                if (c == nullptr) {
                    return path + "[" + std::to_string(i) + "]: missing element";
                }
                std::string r = compare(*c, n.arr[i], op, path + "[" + std::to_string(i) + "]");
                if (!r.empty()) {
                    return r;
                }
            }
            return "";
        }
        case K::Obj: {
            if (!v.IsObject()) {
                return path + ": expected object got type " + std::to_string(int(v.Type()));
            }
            if (v.Size() != n.obj.size()) {
                return path + ": object size " + std::to_string(v.Size()) + " expected " + std::to_string(n.obj.size());
            }
            for (size_t i = 0; i < n.obj.size(); ++i) {
                const String<Char_T> *key = v.GetKey(SizeT(i));
                const Value<Char_T>  *c   = v.GetValue(SizeT(i));
                std::string           p2  = path + "." + show(n.obj[i].first);
                if (key == nullptr || c == nullptr) {
                    return p2 + ": missing member at position " + std::to_string(i);
                }
                if (!str_eq(key->First(), key->Length(), n.obj[i].first)) {
                    return p2 + ": key at position " + std::to_string(i) + " is " + show(units_of(key->First(), key->Length()));
                }
                // lookup by key must find the same member
                Units                ek = enc(n.obj[i].first);
                Buf<Char_T>          kb(ek);
                const Value<Char_T> *byk = v.GetValue(kb.p, SizeT(kb.n));
                if (byk != c) {
                    return p2 + ": lookup by key does not return the member at its position";
                }
                std::string r = compare(*c, n.obj[i].second, op, p2);
                if (!r.empty()) {
                    return r;
                }
            }
            return "";
        }
    }
    return "";
}

// ---- strict RFC 8259 reference parser over code units of a given width (used to validate emitted text) ----
// Returns false with `err` set when the text is not RFC 8259; otherwise fills `out` (strings as code points).
struct RefParser {
    const Units &t;
    int          width;
    size_t       i{0};
    std::string  err;
    int          depth{0};
    RefParser(const Units &text, int w) : t(text), width(w) {}

    void skip_ws() {
        while (i < t.size() && (t[i] == ' ' || t[i] == '\t' || t[i] == '\n' || t[i] == '\r')) {
            ++i;
        }
    }
    bool fail(const std::string &m) {
        if (err.empty()) {
            err = m + " at offset " + std::to_string(i);
        }
        return false;
    }
    bool parse_document(Node &out) {
        skip_ws();
        if (!parse_value(out)) {
            return false;
        }
        skip_ws();
        if (i != t.size()) {
            return fail("trailing characters");
        }
        return true;
    }
    bool lit(const char *w) {
        size_t j = i;
        for (const char *p = w; *p; ++p, ++j) {
            if (j >= t.size() || t[j] != (unsigned char)*p) {
                return fail(std::string("bad literal, expected ") + w);
            }
        }
        i = j;
        return true;
    }
    bool hex4(uint32_t &v) {
        v = 0;
        for (int k = 0; k < 4; ++k, ++i) {
            if (i >= t.size()) {
                return fail("short \\u escape");
            }
            uint32_t c = t[i];
            uint32_t d;
            if (c >= '0' && c <= '9') {
                d = c - '0';
            } else if (c >= 'a' && c <= 'f') {
                d = c - 'a' + 10;
            } else if (c >= 'A' && c <= 'F') {
                d = c - 'A' + 10;
            } else {
                return fail("bad hex digit");
            }
            v = (v << 4) | d;
        }
        return true;
    }
    // decodes the raw units between escapes into code points for the width
    bool parse_string(Units &out) {
        if (i >= t.size() || t[i] != '"') {
            return fail("expected string");
        }
        ++i;
        Units raw; // units of this width to decode afterwards
        auto  flush_raw = [&]() -> bool {
            size_t k = 0;
            while (k < raw.size()) {
                uint32_t c = raw[k];
                if (width == 4) {
                    if (c > 0x10FFFF || (c >= 0xD800 && c <= 0xDFFF)) {
                        return fail("ill-formed UTF-32");
                    }
                    out.push_back(c);
                    ++k;
                } else if (width == 2) {
                    if (c >= 0xD800 && c <= 0xDBFF) {
                        if (k + 1 >= raw.size() || raw[k + 1] < 0xDC00 || raw[k + 1] > 0xDFFF) {
                            return fail("ill-formed UTF-16");
                        }
                        out.push_back(0x10000 + ((c - 0xD800) << 10) + (raw[k + 1] - 0xDC00));
                        k += 2;
                    } else if (c >= 0xDC00 && c <= 0xDFFF) {
                        return fail("ill-formed UTF-16");
                    } else {
                        out.push_back(c);
                        ++k;
                    }
                } else {
                    int      need = 0;
                    uint32_t cp   = 0;
                    if (c < 0x80) {
                        cp = c;
                    } else if ((c & 0xE0) == 0xC0) {
                        need = 1;
                        cp   = c & 0x1F;
                    } else if ((c & 0xF0) == 0xE0) {
                        need = 2;
                        cp   = c & 0x0F;
                    } else if ((c & 0xF8) == 0xF0) {
                        need = 3;
                        cp   = c & 0x07;
                    } else {
                        return fail("ill-formed UTF-8");
                    }
                    if (k + size_t(need) >= raw.size()) {
                        return fail("ill-formed UTF-8 (truncated)");
                    }
                    for (int q = 1; q <= need; ++q) {
                        if ((raw[k + size_t(q)] & 0xC0) != 0x80) {
                            return fail("ill-formed UTF-8 (continuation)");
                        }
                        cp = (cp << 6) | (raw[k + size_t(q)] & 0x3F);
                    }
                    static const uint32_t mins[] = {0, 0x80, 0x800, 0x10000};
                    if (cp < mins[need] || cp > 0x10FFFF || (cp >= 0xD800 && cp <= 0xDFFF)) {
                        return fail("ill-formed UTF-8 (overlong/surrogate)");
                    }
                    out.push_back(cp);
                    k += size_t(need) + 1;
                }
            }
            raw.clear();
            return true;
        };
        while (true) {
            if (i >= t.size()) {
                return fail("unterminated string");
            }
            uint32_t c = t[i];
            if (c == '"') {
                ++i;
                return flush_raw();
            }
            if (c < 0x20) {
                return fail("unescaped control character");
            }
            if (c != '\\') {
                raw.push_back(c);
                ++i;
                continue;
            }
            if (!flush_raw()) {
                return false;
            }
            ++i;
            if (i >= t.size()) {
                return fail("dangling backslash");
            }
            uint32_t x = t[i++];
            switch (x) {
                case '"': out.push_back('"'); break;
                case '\\': out.push_back('\\'); break;
                case '/': out.push_back('/'); break;
                case 'b': out.push_back('\b'); break;
                case 'f': out.push_back('\f'); break;
                case 'n': out.push_back('\n'); break;
                case 'r': out.push_back('\r'); break;
                case 't': out.push_back('\t'); break;
                case 'u': {
                    uint32_t v;
                    if (!hex4(v)) {
                        return false;
                    }
                    if (v >= 0xD800 && v <= 0xDBFF) {
                        if (i + 1 < t.size() && t[i] == '\\' && t[i + 1] == 'u') {
                            i += 2;
                            uint32_t lo;
                            if (!hex4(lo)) {
                                return false;
                            }
                            if (lo < 0xDC00 || lo > 0xDFFF) {
                                return fail("unpaired surrogate escape");
                            }
                            out.push_back(0x10000 + ((v - 0xD800) << 10) + (lo - 0xDC00));
                        } else {
                            return fail("unpaired surrogate escape");
                        }
                    } else if (v >= 0xDC00 && v <= 0xDFFF) {
                        return fail("unpaired low surrogate escape");
                    } else {
                        out.push_back(v);
                    }
                    break;
                }
                default: return fail("bad escape");
            }
        }
    }
    bool parse_number(Node &out) {
        size_t      s0 = i;
        std::string s;
        auto        dig = [&]() { return i < t.size() && t[i] >= '0' && t[i] <= '9'; };
        if (i < t.size() && t[i] == '-') {
            s.push_back('-');
            ++i;
        }
        if (!dig()) {
            i = s0;
            return fail("expected a value");
        }
        if (t[i] == '0') {
            s.push_back('0');
            ++i;
            if (dig()) {
                return fail("leading zero");
            }
        } else {
            while (dig()) {
                s.push_back(char(t[i++]));
            }
        }
        if (i < t.size() && t[i] == '.') {
            s.push_back('.');
            ++i;
            if (!dig()) {
                return fail("digits expected after the decimal point");
            }
            while (dig()) {
                s.push_back(char(t[i++]));
            }
        }
        if (i < t.size() && (t[i] == 'e' || t[i] == 'E')) {
            s.push_back('e');
            ++i;
            if (i < t.size() && (t[i] == '+' || t[i] == '-')) {
                s.push_back(char(t[i++]));
            }
            if (!dig()) {
                return fail("digits expected in the exponent");
            }
            while (dig()) {
                s.push_back(char(t[i++]));
            }
        }
        set_number(out, s);
        return true;
    }
    bool parse_value(Node &out) {
        if (++depth > 4000) {
            return fail("too deep");
        }
        bool ok = parse_value_inner(out);
        --depth;
        return ok;
    }
    bool parse_value_inner(Node &out) {
        if (i >= t.size()) {
            return fail("unexpected end");
        }
        switch (t[i]) {
            case 'n': out.k = K::Null; return lit("null");
            case 't': out.k = K::True; return lit("true");
            case 'f': out.k = K::False; return lit("false");
            case '"': out.k = K::Str; return parse_string(out.s);
            case '[': {
                out.k = K::Arr;
                ++i;
                skip_ws();
                if (i < t.size() && t[i] == ']') {
                    ++i;
                    return true;
                }
                while (true) {
                    Node c;
                    skip_ws();
                    if (!parse_value(c)) {
                        return false;
                    }
                    out.arr.push_back(std::move(c));
                    skip_ws();
                    if (i < t.size() && t[i] == ',') {
                        ++i;
                        continue;
                    }
                    if (i < t.size() && t[i] == ']') {
                        ++i;
                        return true;
                    }
                    return fail("expected , or ]");
                }
            }
            case '{': {
                out.k = K::Obj;
                ++i;
                skip_ws();
                if (i < t.size() && t[i] == '}') {
                    ++i;
                    return true;
                }
                while (true) {
                    skip_ws();
                    Units key;
                    if (!parse_string(key)) {
                        return false;
                    }
                    skip_ws();
                    if (i >= t.size() || t[i] != ':') {
                        return fail("expected :");
                    }
                    ++i;
                    skip_ws();
                    Node c;
                    if (!parse_value(c)) {
                        return false;
                    }
                    out.obj.emplace_back(std::move(key), std::move(c));
                    skip_ws();
                    if (i < t.size() && t[i] == ',') {
                        ++i;
                        continue;
                    }
                    if (i < t.size() && t[i] == '}') {
                        ++i;
                        return true;
                    }
                    return fail("expected , or }");
                }
            }
            default: return parse_number(out);
        }
    }
};

// structural equality of two model nodes (numbers by value), "" when equal
inline std::string node_diff(const Node &a, const Node &b, const std::string &path = "$") {
    auto num = [](const Node &n, long double &v) {
        if (n.k == K::UInt) {
            v = (long double)n.u;
            return true;
        }
        if (n.k == K::Int) {
            v = (long double)n.i;
            return true;
        }
        if (n.k == K::Real) {
            v = (long double)n.d;
            return true;
        }
        return false;
    };
    long double x, y;
    if (num(a, x) && num(b, y)) {
        return x == y ? "" : path + ": numbers differ";
    }
    if (a.k != b.k) {
        return path + ": kinds differ";
    }
    if (a.k == K::Str) {
        return a.s == b.s ? "" : path + ": strings differ (" + show(a.s) + " vs " + show(b.s) + ")";
    }
    if (a.k == K::Arr) {
        if (a.arr.size() != b.arr.size()) {
            return path + ": array sizes differ";
        }
        for (size_t i = 0; i < a.arr.size(); ++i) {
            std::string r = node_diff(a.arr[i], b.arr[i], path + "[" + std::to_string(i) + "]");
            if (!r.empty()) {
                return r;
            }
        }
    }
    if (a.k == K::Obj) {
        if (a.obj.size() != b.obj.size()) {
            return path + ": object sizes differ";
        }
        for (size_t i = 0; i < a.obj.size(); ++i) {
            if (a.obj[i].first != b.obj[i].first) {
                return path + ": keys differ at position " + std::to_string(i);
            }
            std::string r = node_diff(a.obj[i].second, b.obj[i].second, path + "." + show(a.obj[i].first));
            if (!r.empty()) {
                return r;
            }
        }
    }
    return "";
}

} // namespace jm

#endif
