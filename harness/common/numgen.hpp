// Generators for floating-point values biased to where number formatting/parsing decisions live, and the
// class predicates for formatting deviations (used only to match listed known findings).
#ifndef VERIF_NUMGEN_HPP
#define VERIF_NUMGEN_HPP

#include <rapidcheck.h>

#include <cmath>
#include <cstdint>
#include <cstring>
#include <string>

#include "pbt.hpp"

namespace numgen {

struct Real {
    uint64_t    bits;
    std::string cls;
};

inline uint64_t dbits(double d) {
    uint64_t b;
    memcpy(&b, &d, 8);
    return b;
}
inline double bdouble(uint64_t b) {
    double d;
    memcpy(&d, &b, 8);
    return d;
}

inline rc::Gen<Real> double_gen() {
    using namespace rc;
    auto sign = pbt::pick<uint64_t>({0, 0, 0, 0x8000000000000000ULL});
    // a. uniform bit patterns (finite)
    auto uniform = gen::map(gen::tuple(pbt::range<uint64_t>(0, 0x7FE), gen::arbitrary<uint64_t>()), [](std::tuple<uint64_t, uint64_t> t) {
        return Real{(std::get<0>(t) << 52) | (std::get<1>(t) & 0xFFFFFFFFFFFFFULL), "uniform-bits"};
    });
    // b. modest binades
    auto modest = gen::map(gen::tuple(pbt::range<uint64_t>(1023 - 64, 1023 + 80), gen::arbitrary<uint64_t>()), [](std::tuple<uint64_t, uint64_t> t) {
        return Real{(std::get<0>(t) << 52) | (std::get<1>(t) & 0xFFFFFFFFFFFFFULL), "modest-binade"};
    });
    // c. short decimals m * 10^e
    auto shortdec = gen::map(gen::tuple(pbt::range<int>(1, 9), gen::arbitrary<uint32_t>(), pbt::range<int>(-25, 25)), [](std::tuple<int, uint32_t, int> t) {
        uint64_t lim = 1;
        for (int i = 0; i < std::get<0>(t); ++i) {
            lim *= 10;
        }
        uint64_t m = uint64_t(std::get<1>(t)) % lim;
        char     b[64];
        snprintf(b, sizeof b, "%llue%d", (unsigned long long)m, std::get<2>(t));
        return Real{dbits(strtod(b, nullptr)), "short-decimal"};
    });
    // c2. short decimals with a small exponent range (values people print): d.ddd .. ddddd.ddd
    auto money = gen::map(gen::tuple(pbt::range<uint64_t>(0, 99999999), pbt::range<int>(0, 6)), [](std::tuple<uint64_t, int> t) {
        char b[64];
        snprintf(b, sizeof b, "%llue-%d", (unsigned long long)std::get<0>(t), std::get<1>(t));
        return Real{dbits(strtod(b, nullptr)), "everyday-decimal"};
    });
    // d. exact binary ties: (2k+1) / 2^j  (decimal expansions ending in 5)
    auto ties = gen::map(gen::tuple(pbt::range<uint64_t>(0, 1u << 20), pbt::range<int>(1, 12)), [](std::tuple<uint64_t, int> t) {
        double v = double(2 * std::get<0>(t) + 1) / double(1ULL << std::get<1>(t));
        return Real{dbits(v), "binary-tie"};
    });
    // e. integers and powers of two / ten with +-1 ulp
    auto ints = gen::map(gen::tuple(gen::arbitrary<uint64_t>(), pbt::range<int>(0, 63)), [](std::tuple<uint64_t, int> t) {
        uint64_t v = std::get<0>(t) >> std::get<1>(t);
        return Real{dbits(double(v)), "integer-valued"};
    });
    auto pow10 = gen::map(gen::tuple(pbt::range<int>(-320, 308), pbt::range<int>(-2, 2)), [](std::tuple<int, int> t) {
        char b[32];
        snprintf(b, sizeof b, "1e%d", std::get<0>(t));
        uint64_t bits = dbits(strtod(b, nullptr));
        bits          = uint64_t(int64_t(bits) + std::get<1>(t));
        if ((bits >> 52) >= 0x7FF) {
            bits = 0x7FEFFFFFFFFFFFFFULL;
        }
        return Real{bits, "power-of-ten-neighbourhood"};
    });
    auto pow2 = gen::map(gen::tuple(pbt::range<uint64_t>(0, 0x7FE), pbt::range<int>(-2, 2)), [](std::tuple<uint64_t, int> t) {
        uint64_t bits = std::get<0>(t) << 52;
        bits          = uint64_t(int64_t(bits) + std::get<1>(t));
        if (int64_t(bits) < 0 || (bits >> 52) >= 0x7FF) {
            bits = 1;
        }
        return Real{bits, "power-of-two-neighbourhood"};
    });
    // f. subnormals and specials
    auto sub = gen::map(gen::arbitrary<uint64_t>(), [](uint64_t r) { return Real{r & 0xFFFFFFFFFFFFFULL, "subnormal"}; });
    // sparse mantissas (few significant bits) in subnormals and across all binades
    auto sparse = gen::map(gen::tuple(pbt::range<uint64_t>(1, 0xFFFF), pbt::range<int>(0, 36), pbt::range<uint64_t>(0, 0x7FE), pbt::range<int>(0, 2)),
                           [](std::tuple<uint64_t, int, uint64_t, int> t) {
                               uint64_t m = (std::get<0>(t) << std::get<1>(t)) & 0xFFFFFFFFFFFFFULL;
                               uint64_t e = std::get<3>(t) == 0 ? 0 : std::get<2>(t);
                               return Real{(e << 52) | m, e == 0 ? "sparse-subnormal" : "sparse-mantissa"};
                           });
    auto special = gen::map(pbt::pick<uint64_t>({0, 1, 0x000FFFFFFFFFFFFFULL, 0x0010000000000000ULL, 0x7FEFFFFFFFFFFFFFULL, 0x7FF0000000000000ULL,
                                                 0x7FF8000000000000ULL, 0x7FF0000000000001ULL, 0x3FF0000000000000ULL, 0x4340000000000000ULL,
                                                 0x433FFFFFFFFFFFFFULL, 0x43E0000000000000ULL, 0x43F0000000000000ULL}),
                            [](uint64_t b) { return Real{b, "special"}; });
    // 9-runs: values just below a power of ten (rounding carries through all digits)
    auto nines = gen::map(gen::tuple(pbt::range<int>(1, 17), pbt::range<int>(-12, 12), pbt::range<int>(0, 9)), [](std::tuple<int, int, int> t) {
        std::string s(size_t(std::get<0>(t)), '9');
        s += char('0' + std::get<2>(t));
        s += "e" + std::to_string(std::get<1>(t));
        return Real{dbits(strtod(s.c_str(), nullptr)), "nine-run"};
    });
    auto any = gen::oneOf(uniform, modest, shortdec, shortdec, money, money, ties, ints, pow10, pow2, sub, sparse, special, nines);
    return gen::map(gen::tuple(any, sign), [](std::tuple<Real, uint64_t> t) {
        Real r = std::get<0>(t);
        r.bits |= std::get<1>(t);
        return r;
    });
}

inline rc::Gen<Real> float_gen() {
    using namespace rc;
    auto fb = [](float f) {
        uint32_t b;
        memcpy(&b, &f, 4);
        return uint64_t(b);
    };
    auto uniform  = gen::map(gen::arbitrary<uint32_t>(), [](uint32_t b) { return Real{b, "float-uniform-bits"}; });
    auto shortdec = gen::map(gen::tuple(pbt::range<uint32_t>(0, 9999999), pbt::range<int>(-12, 12)), [fb](std::tuple<uint32_t, int> t) {
        char b[64];
        snprintf(b, sizeof b, "%ue%d", std::get<0>(t), std::get<1>(t));
        return Real{fb(strtof(b, nullptr)), "float-short-decimal"};
    });
    auto ties     = gen::map(gen::tuple(pbt::range<uint32_t>(0, 1u << 16), pbt::range<int>(1, 8)), [fb](std::tuple<uint32_t, int> t) {
        return Real{fb(float(2 * std::get<0>(t) + 1) / float(1u << std::get<1>(t))), "float-binary-tie"};
    });
    auto special  = gen::map(pbt::pick<uint32_t>({0, 1, 0x007FFFFF, 0x00800000, 0x7F7FFFFF, 0x7F800000, 0x7FC00000, 0x80000000, 0xFF800000, 0x3F800000, 0x4B800000}),
                             [](uint32_t b) { return Real{b, "float-special"}; });
    return gen::oneOf(uniform, shortdec, shortdec, ties, special);
}

inline rc::Gen<uint64_t> int_bits_gen() {
    using namespace rc;
    auto edge = pbt::pick<uint64_t>({0, 1, 9, 10, 99, 100, 127, 128, 255, 256, 32767, 32768, 65535, 65536, 0x7FFFFFFFULL, 0x80000000ULL, 0xFFFFFFFFULL,
                                     0x100000000ULL, 0x7FFFFFFFFFFFFFFFULL, 0x8000000000000000ULL, 0xFFFFFFFFFFFFFFFFULL, 0xFFFFFFFFFFFFFF80ULL,
                                     0xFFFFFFFFFFFF8000ULL, 0xFFFFFFFF80000000ULL, 9999999999999999999ULL, 10000000000000000000ULL});
    auto any  = gen::map(gen::tuple(gen::arbitrary<uint64_t>(), pbt::range<int>(0, 63), pbt::range<int>(0, 1)), [](std::tuple<uint64_t, int, int> t) {
        uint64_t v = std::get<0>(t) >> std::get<1>(t);
        return std::get<2>(t) ? uint64_t(0) - v : v;
    });
    return gen::oneOf(edge, any, any);
}

// Narrow class signatures for formatting deviations. Only used to recognise *listed* known findings; anything not
// recognised is "format-mismatch".
inline std::string classify_format_deviation(double d, unsigned precision, int format, const std::string &got, const std::string &expect) {
    (void)d;
    (void)got;
    (void)expect;
    if (precision == 0 && format == 0) {
        return "default-precision-0";
    }
    if (precision == 0 && format == 1) {
        return "fixed-precision-0";
    }
    return "format-mismatch";
}

} // namespace numgen

#endif
