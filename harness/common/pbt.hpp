// Minimal property-testing frame shared by every harness.
//
// A harness supplies a struct H with
//     using Case = ...;
//     static const char *name();
//     static rc::Gen<Case> gen();                       // rapidcheck generator (shrinks)
//     static std::string to_text(const Case &);         // replay-file text of a case
//     static Case from_text(const std::string &);
//     static void run(const Case &, pbt::Ctx &);        // executes the case against the oracle
//     static void enumerate(pbt::Ctx &, unsigned shard, unsigned nshards, const std::string &what);  (optional)
// and calls pbt::run_main<H>(argc, argv).
//
// Modes:
//   --check                rapidcheck drives H::run (configuration through RC_PARAMS)
//   --enum WHAT S N        H::enumerate, shard S of N
//   --replay FILE          runs exactly one case without rapidcheck: exit 0 pass, 1 fail, 2 known class
// Options: --out FILE (statistics JSON), --cur FILE (crash-surviving copy of the running case),
//          --known a,b,c (classes listed as known findings), --fail-file FILE (shrunk failing case)
#ifndef VERIF_PBT_HPP
#define VERIF_PBT_HPP

#include "qshim.hpp"

#include <rapidcheck.h>

#include <algorithm>
#include <cinttypes>
#include <cstring>
#include <chrono>
#include <condition_variable>
#include <mutex>
#include <thread>
#include <ctime>
#include <exception>
#include <fcntl.h>
#include <fstream>
#include <map>
#include <set>
#include <sstream>
#include <string>
#include <sys/mman.h>
#include <sys/stat.h>
#include <unistd.h>
#include <vector>

extern "C" void __sanitizer_set_death_callback(void (*)(void)) __attribute__((weak));
// rapidcheck's deep, ever-changing call stacks make ASan's stack depot grow without bound (14 KB and growing
// per case, superlinear time) unless the allocation-context depth is capped.
extern "C" const char *__asan_default_options() { return "malloc_context_size=5:quarantine_size_mb=32"; }

namespace pbt {

struct Failure {
    std::string cls;
    std::string msg;
};
struct KnownSkip {
    std::string cls;
};
struct Discard {};

inline uint64_t fnv1a(const std::string &s) {
    uint64_t h = 1469598103934665603ULL;
    for (unsigned char c : s) {
        h ^= c;
        h *= 1099511628211ULL;
    }
    return h;
}

// ---- text encoding helpers -------------------------------------------------------------------
// Code units as text: printable ASCII (except '%', '=' and space at the ends is kept too) verbatim,
// everything else as %XX (8-bit) or %{HEX} (wider).
inline std::string enc_units(const std::vector<uint32_t> &u) {
    std::string o;
    char        b[16];
    for (uint32_t c : u) {
        if (c >= 0x21 && c < 0x7F && c != '%') {
            o.push_back(char(c));
        } else if (c < 0x100) {
            snprintf(b, sizeof b, "%%%02X", c);
            o += b;
        } else {
            snprintf(b, sizeof b, "%%{%X}", c);
            o += b;
        }
    }
    return o;
}
inline std::vector<uint32_t> dec_units(const std::string &s) {
    std::vector<uint32_t> o;
    for (size_t i = 0; i < s.size();) {
        if (s[i] != '%') {
            o.push_back((unsigned char)s[i]);
            ++i;
        } else if (i + 1 < s.size() && s[i + 1] == '{') {
            size_t e = s.find('}', i);
            o.push_back(uint32_t(strtoul(s.substr(i + 2, e - i - 2).c_str(), nullptr, 16)));
            i = e + 1;
        } else {
            o.push_back(uint32_t(strtoul(s.substr(i + 1, 2).c_str(), nullptr, 16)));
            i += 3;
        }
    }
    return o;
}
inline std::string enc_bytes(const std::string &s) {
    std::vector<uint32_t> u;
    for (unsigned char c : s) {
        u.push_back(c);
    }
    return enc_units(u);
}
inline std::string dec_bytes(const std::string &s) {
    std::string o;
    for (uint32_t c : dec_units(s)) {
        o.push_back(char(c));
    }
    return o;
}

// key=value lines
struct KV {
    std::vector<std::pair<std::string, std::string>> items;
    void put(const std::string &k, const std::string &v) { items.emplace_back(k, v); }
    void put(const std::string &k, long long v) { items.emplace_back(k, std::to_string(v)); }
    void putu(const std::string &k, unsigned long long v) { items.emplace_back(k, std::to_string(v)); }
    std::string text() const {
        std::string o;
        for (auto &p : items) {
            o += p.first;
            o += '=';
            o += p.second;
            o += '\n';
        }
        return o;
    }
    static KV parse(const std::string &t) {
        KV                 kv;
        std::istringstream is(t);
        std::string        line;
        while (std::getline(is, line)) {
            if (line.empty() || line[0] == '#') {
                continue;
            }
            size_t eq = line.find('=');
            if (eq == std::string::npos) {
                continue;
            }
            kv.items.emplace_back(line.substr(0, eq), line.substr(eq + 1));
        }
        return kv;
    }
    const std::string &get(const std::string &k, const std::string &def = empty()) const {
        for (auto &p : items) {
            if (p.first == k) {
                return p.second;
            }
        }
        return def;
    }
    bool has(const std::string &k) const {
        for (auto &p : items) {
            if (p.first == k) {
                return true;
            }
        }
        return false;
    }
    long long          geti(const std::string &k, long long def = 0) const { return has(k) ? strtoll(get(k).c_str(), nullptr, 10) : def; }
    unsigned long long getu(const std::string &k, unsigned long long def = 0) const {
        return has(k) ? strtoull(get(k).c_str(), nullptr, 10) : def;
    }
    std::vector<std::string> all(const std::string &k) const {
        std::vector<std::string> o;
        for (auto &p : items) {
            if (p.first == k) {
                o.push_back(p.second);
            }
        }
        return o;
    }
    static const std::string &empty() {
        static const std::string e;
        return e;
    }
};

inline std::string json_str(const std::string &s) {
    std::string o = "\"";
    char        b[8];
    for (unsigned char c : s) {
        if (c == '"' || c == '\\') {
            o.push_back('\\');
            o.push_back(char(c));
        } else if (c < 0x20 || c >= 0x7F) {
            snprintf(b, sizeof b, "\\u%04X", c);
            o += b;
        } else {
            o.push_back(char(c));
        }
    }
    o.push_back('"');
    return o;
}

// ---- context ---------------------------------------------------------------------------------
struct Ctx {
    std::set<std::string> known;
    std::string           out_path, cur_path, fail_path;

    uint64_t                        evaluations{0}, discards{0}, excluded_known{0}, nontrivial_total{0};
    std::unordered_set<uint64_t>    nt;
    std::map<std::string, uint64_t> labels;
    std::map<std::string, uint64_t> known_hits;
    std::vector<std::string>        samples;
    size_t                          max_samples{6};
    bool                            cur_nontrivial{false};
    bool                            exhaustive{false};
    std::string                     exhaustive_what;
    bool                            check_ledger{true};
    // enumeration visits every case once: distinct non-trivial cases are counted instead of hashed
    bool                            distinct_by_construction{false};
    uint64_t                        nontrivial_counted{0};

    // failure record
    bool        failed{false};
    std::string fail_cls, fail_msg, fail_text;

    // crash-surviving current case
    char  *cur_map{nullptr};
    size_t cur_cap{0};

    void label(const std::string &l) { ++labels[l]; }
    void label(const std::string &l, bool cond) {
        if (cond) {
            ++labels[l];
        }
    }
    void nontrivial() { cur_nontrivial = true; }
    [[noreturn]] void fail(const std::string &cls, const std::string &msg) { throw Failure{cls, msg}; }
    [[noreturn]] void discard() { throw Discard{}; }
    bool is_known(const std::string &cls) const { return known.count(cls) != 0; }
    // A deviation that falls into a narrow, named class: tolerated (and counted) only when the class is
    // listed in known_findings.txt, otherwise a failure like any other.
    [[noreturn]] void deviation(const std::string &cls, const std::string &msg) {
        if (is_known(cls)) {
            throw KnownSkip{cls};
        }
        if (survey) { // development aid: census of deviation classes instead of stopping at the first
            if (++labels["survey:" + cls] <= (unsigned long)atoi(getenv("VERIF_SURVEY"))) {
                fprintf(stderr, "SURVEY %s: %s\n", cls.c_str(), msg.c_str());
            }
            throw KnownSkip{cls};
        }
        throw Failure{cls, msg};
    }
    bool survey{getenv("VERIF_SURVEY") != nullptr};
    // Same, but lets the case continue (for cases made of many independent sub-checks).
    void deviation_continue(const std::string &cls, const std::string &msg) {
        if (is_known(cls)) {
            ++known_hits[cls];
            ++excluded_known;
            return;
        }
        throw Failure{cls, msg};
    }

    void open_cur() {
        if (cur_path.empty()) {
            return;
        }
        int fd = ::open(cur_path.c_str(), O_RDWR | O_CREAT | O_TRUNC, 0644);
        if (fd < 0) {
            return;
        }
        cur_cap = 1u << 20;
        if (ftruncate(fd, off_t(cur_cap)) != 0) {
            ::close(fd);
            return;
        }
        void *m = mmap(nullptr, cur_cap, PROT_READ | PROT_WRITE, MAP_SHARED, fd, 0);
        ::close(fd);
        if (m != MAP_FAILED) {
            cur_map = static_cast<char *>(m);
        }
    }
    void set_cur(const std::string &t) {
        if (cur_map == nullptr) {
            return;
        }
        uint32_t n = uint32_t(std::min(t.size(), cur_cap - 8));
        memcpy(cur_map + 4, t.data(), n);
        memcpy(cur_map, &n, 4);
    }

    void write_stats() const {
        if (out_path.empty()) {
            return;
        }
        std::string tmp = out_path + ".tmp";
        FILE       *f   = fopen(tmp.c_str(), "w");
        if (f == nullptr) {
            return;
        }
        fprintf(f, "{\n \"evaluations\": %" PRIu64 ",\n \"discards\": %" PRIu64 ",\n \"excluded_known\": %" PRIu64
                   ",\n \"nontrivial_total\": %" PRIu64 ",\n \"nontrivial_distinct\": %zu,\n \"nontrivial_counted\": %" PRIu64 ",\n",
                evaluations, discards, excluded_known, nontrivial_total, nt.size(), nontrivial_counted);
        fprintf(f, " \"exhaustive\": %s,\n \"exhaustive_what\": %s,\n", exhaustive ? "true" : "false",
                json_str(exhaustive_what).c_str());
        fprintf(f, " \"ledger\": {\"allocs\": %" PRIu64 ", \"frees\": %" PRIu64 "},\n", total_allocs, total_frees);
        fprintf(f, " \"labels\": {");
        bool first = true;
        for (auto &p : labels) {
            fprintf(f, "%s%s: %" PRIu64, first ? "" : ", ", json_str(p.first).c_str(), p.second);
            first = false;
        }
        fprintf(f, "},\n \"known_hits\": {");
        first = true;
        for (auto &p : known_hits) {
            fprintf(f, "%s%s: %" PRIu64, first ? "" : ", ", json_str(p.first).c_str(), p.second);
            first = false;
        }
        fprintf(f, "},\n \"samples\": [");
        first = true;
        for (auto &s : samples) {
            fprintf(f, "%s%s", first ? "" : ", ", json_str(s).c_str());
            first = false;
        }
        fprintf(f, "],\n \"failed\": %s,\n \"fail_class\": %s,\n \"fail_msg\": %s\n}\n", failed ? "true" : "false",
                json_str(fail_cls).c_str(), json_str(fail_msg).c_str());
        fclose(f);
        rename(tmp.c_str(), out_path.c_str());
        // distinct non-trivial hashes, merged by the driver across processes
        std::string ntp = out_path + ".nt";
        f               = fopen(ntp.c_str(), "wb");
        if (f != nullptr) {
            for (uint64_t h : nt) {
                fwrite(&h, 8, 1, f);
            }
            fclose(f);
        }
    }

    uint64_t total_allocs{0}, total_frees{0};
};

inline Ctx *&global_ctx() {
    static Ctx *c = nullptr;
    return c;
}
inline void death_cb() {
    if (global_ctx() != nullptr) {
        global_ctx()->write_stats();
    }
}

// Holder for the library objects of a stateful case. When a failure is being reported (exception in flight) the
// objects may be in a corrupted state whose destructor would crash and hide the report: they are leaked on purpose
// (the process exits through _exit after a failure, so the leak is never reported).
template <class W>
struct Leaky {
    W *w;
    Leaky() : w(new W) {}
    ~Leaky() {
        if (std::uncaught_exceptions() == 0) {
            delete w;
        }
    }
    W *operator->() { return w; }
    Leaky(const Leaky &)            = delete;
    Leaky &operator=(const Leaky &) = delete;
};

enum class Status { Pass, Fail, Known, Discarded };

// Runs one case: bookkeeping, ledger, failure capture. Never throws.
template <class H>
Status exec_case(Ctx &ctx, const typename H::Case &c) {
    using Qentem::MemoryRecord;
    std::string text = H::to_text(c);
    ctx.set_cur(text);
    ctx.cur_nontrivial = false;
    ++ctx.evaluations;
    MemoryRecord::Reset();
    Status st = Status::Pass;
    try {
        H::run(c, ctx);
        if (ctx.check_ledger) {
            if (MemoryRecord::Live() != 0 || MemoryRecord::DoubleAdd() != 0 || MemoryRecord::BadFree() != 0) {
                char b[200];
                snprintf(b, sizeof b, "allocation ledger: live=%zu double_add=%" PRIu64 " bad_free=%" PRIu64 " after the case",
                         MemoryRecord::Live(), MemoryRecord::DoubleAdd(), MemoryRecord::BadFree());
                throw Failure{"ledger", b};
            }
        }
    } catch (const Failure &f) {
        ctx.failed    = true;
        ctx.fail_cls  = f.cls;
        ctx.fail_msg  = f.msg;
        ctx.fail_text = text;
        st            = Status::Fail;
    } catch (const KnownSkip &k) {
        ++ctx.known_hits[k.cls];
        ++ctx.excluded_known;
        st = Status::Known;
    } catch (const Discard &) {
        ++ctx.discards;
        --ctx.evaluations;
        st = Status::Discarded;
    }
    ctx.total_allocs += MemoryRecord::Allocs();
    ctx.total_frees += MemoryRecord::Frees();
    if (st == Status::Pass || st == Status::Known) {
        if (ctx.cur_nontrivial) {
            ++ctx.nontrivial_total;
            bool fresh = ctx.nt.insert(fnv1a(text)).second;
            if (fresh && ctx.samples.size() < ctx.max_samples && (ctx.nt.size() % 97 == 1 || ctx.nt.size() < 3)) {
                ctx.samples.push_back(text.size() > 1500 ? text.substr(0, 1500) + "...(truncated)" : text);
            }
        }
    }
    return st;
}

// Lean variant for exhaustive sweeps (billions of cases): no ledger, no per-case text; the case text is only
// produced for a failure. Cases are distinct by construction.
template <class H>
Status exec_case_fast(Ctx &ctx, const typename H::Case &c) {
    ctx.cur_nontrivial = false;
    ++ctx.evaluations;
    Status st = Status::Pass;
    try {
        H::run(c, ctx);
    } catch (const Failure &f) {
        ctx.failed    = true;
        ctx.fail_cls  = f.cls;
        ctx.fail_msg  = f.msg;
        ctx.fail_text = H::to_text(c);
        st            = Status::Fail;
    } catch (const KnownSkip &k) {
        ++ctx.known_hits[k.cls];
        ++ctx.excluded_known;
        st = Status::Known;
    } catch (const Discard &) {
        ++ctx.discards;
        --ctx.evaluations;
        st = Status::Discarded;
    }
    if ((st == Status::Pass || st == Status::Known) && ctx.cur_nontrivial) {
        ++ctx.nontrivial_total;
        ++ctx.nontrivial_counted;
        if (ctx.samples.size() < ctx.max_samples && (ctx.nontrivial_counted % 100003) == 1) {
            ctx.samples.push_back(H::to_text(c));
        }
    }
    return st;
}

template <class H, class = void>
struct has_enumerate : std::false_type {};
template <class H>
struct has_enumerate<H, decltype(H::enumerate(std::declval<Ctx &>(), 0u, 1u, std::string()), void())> : std::true_type {};

template <class H>
typename std::enable_if<has_enumerate<H>::value>::type call_enumerate(Ctx &c, unsigned s, unsigned n, const std::string &w) {
    H::enumerate(c, s, n, w);
}
template <class H>
typename std::enable_if<!has_enumerate<H>::value>::type call_enumerate(Ctx &, unsigned, unsigned, const std::string &) {
    fprintf(stderr, "harness has no enumeration mode\n");
    exit(3);
}

inline std::string read_file(const std::string &p) {
    std::ifstream     f(p, std::ios::binary);
    std::stringstream ss;
    ss << f.rdbuf();
    return ss.str();
}
inline void write_file(const std::string &p, const std::string &t) {
    std::ofstream f(p, std::ios::binary);
    f << t;
}

template <class H>
int run_main(int argc, char **argv) {
    Ctx ctx;
    global_ctx() = &ctx;
    std::string mode, replay_file, enum_what;
    unsigned    shard = 0, nshards = 1;
    for (int i = 1; i < argc; ++i) {
        std::string a = argv[i];
        if (a == "--check") {
            mode = "check";
        } else if (a == "--replay" && i + 1 < argc) {
            mode        = "replay";
            replay_file = argv[++i];
        } else if (a == "--enum" && i + 3 < argc) {
            mode      = "enum";
            enum_what = argv[++i];
            shard     = unsigned(atoi(argv[++i]));
            nshards   = unsigned(atoi(argv[++i]));
        } else if (a == "--out" && i + 1 < argc) {
            ctx.out_path = argv[++i];
        } else if (a == "--cur" && i + 1 < argc) {
            ctx.cur_path = argv[++i];
        } else if (a == "--fail-file" && i + 1 < argc) {
            ctx.fail_path = argv[++i];
        } else if (a == "--known" && i + 1 < argc) {
            std::string        k = argv[++i];
            std::istringstream is(k);
            std::string        t;
            while (std::getline(is, t, ',')) {
                if (!t.empty()) {
                    ctx.known.insert(t);
                }
            }
        } else {
            fprintf(stderr, "unknown argument %s\n", a.c_str());
            return 3;
        }
    }
    ctx.open_cur();
    if (__sanitizer_set_death_callback != nullptr) {
        __sanitizer_set_death_callback(death_cb);
    }

    if (mode == "replay") {
        std::string text = read_file(replay_file);
        // replay files may start with '#' comment lines (harness=..., note=...)
        typename H::Case c = H::from_text(text);
        Status             st = exec_case<H>(ctx, c);
        ctx.write_stats();
        if (st == Status::Fail) {
            printf("FAIL class=%s msg=%s\n", ctx.fail_cls.c_str(), ctx.fail_msg.c_str());
            fflush(stdout);
            _exit(1);
        }
        if (st == Status::Known) {
            printf("KNOWN class=%s\n", ctx.known_hits.begin()->first.c_str());
            return 2;
        }
        if (!ctx.known_hits.empty()) {
            printf("KNOWN class=%s\n", ctx.known_hits.begin()->first.c_str());
            return 2;
        }
        printf("PASS\n");
        return 0;
    }

    bool ok = true;
    if (mode == "enum") {
        call_enumerate<H>(ctx, shard, nshards, enum_what);
        ok = !ctx.failed;
    } else if (mode == "check") {
        // Shrinking is bounded by wall time (a budget, not an oracle): once a failure has been shrunk for 40 s every further
        // candidate is skipped, which ends rapidcheck's shrink loop with the smallest failing case found so far.
        static time_t first_failure = 0;
        ok = rc::check(H::name(), [&ctx]() {
            typename H::Case c  = *H::gen();
            if (first_failure != 0 && time(nullptr) - first_failure > 40) {
                return;
            }
            Status             st = exec_case<H>(ctx, c);
            if (st == Status::Fail && first_failure == 0) {
                first_failure = time(nullptr);
            }
            if (st == Status::Discarded) {
                RC_DISCARD("discarded by harness");
            }
            if (st == Status::Fail) {
                RC_FAIL(ctx.fail_cls + ": " + ctx.fail_msg);
            }
        });
        // rapidcheck may "give up" (too many discards) -> ok == false without a failure of ours
        if (!ok && !ctx.failed) {
            ctx.failed   = true;
            ctx.fail_cls = "generator-gave-up";
            ctx.fail_msg = "rapidcheck gave up or failed without a harness failure";
        }
        if (ok) {
            ctx.failed = false;
        }
    } else {
        fprintf(stderr, "no mode given\n");
        return 3;
    }
    if (ctx.failed && !ctx.fail_path.empty()) {
        write_file(ctx.fail_path, ctx.fail_text);
    }
    ctx.write_stats();
    if (ctx.failed) {
        printf("FAIL class=%s msg=%s\n", ctx.fail_cls.c_str(), ctx.fail_msg.c_str());
        fflush(stdout);
        fflush(stderr);
        _exit(1); // objects of failing cases may have been leaked on purpose (see Leaky)
    }
    return 0;
}

// ---- watchdog ------------------------------------------------------------------------------------
// For phases that can spin forever when the code under test is broken (threads racing on a corrupted chain). Running out of
// time is not an oracle: the process leaves with exit code 5, which the driver records as "inconclusive", so that the other
// processes of the run are not held up until the driver's own safety net (3000 s) cuts in.
struct Watchdog {
    std::mutex              m;
    std::condition_variable cv;
    bool                    done{false};
    std::thread             t;
    explicit Watchdog(unsigned seconds, const char *what) {
        t = std::thread([this, seconds, what]() {
            std::unique_lock<std::mutex> lk(m);
            if (!cv.wait_for(lk, std::chrono::seconds(seconds), [this]() { return done; })) {
                fprintf(stderr, "WATCHDOG: %s did not finish within %u s (inconclusive, not a verdict)\n", what, seconds);
                if (global_ctx() != nullptr) {
                    global_ctx()->write_stats();
                }
                _exit(5);
            }
        });
    }
    ~Watchdog() {
        {
            std::lock_guard<std::mutex> lk(m);
            done = true;
        }
        cv.notify_all();
        t.join();
    }
};

// ---- coverage-guided mode (libFuzzer) ----------------------------------------------------------
// Every harness whose cases are decoded from a byte string can also be driven by libFuzzer: the fuzzer's bytes become
// the case through H::from_fuzz (selector bytes first, entropy after them), the same run() with the same oracle and the
// same allocation ledger decides it, and a failure writes the case in the ordinary replay format next to the statistics
// (<out>.failcase) before trapping, so that the artifact replays in the rapidcheck build as well.
// Build with -DVERIF_FUZZ_GENERIC -fsanitize=fuzzer,...; PBT_MAIN(H) expands to main() otherwise.
template <class H>
struct FuzzEntry {
    static Ctx &ctx() {
        static Ctx c;
        return c;
    }
    static void flush() { ctx().write_stats(); }
    static int  init() {
        Ctx        &c   = ctx();
        const char *out = getenv("VERIF_FUZZ_OUT");
        if (out != nullptr) {
            c.out_path = out;
        }
        const char *kn = getenv("VERIF_KNOWN");
        if (kn != nullptr) {
            std::istringstream is(kn);
            std::string        t;
            while (std::getline(is, t, ',')) {
                if (!t.empty()) {
                    c.known.insert(t);
                }
            }
        }
        global_ctx() = &c;
        atexit(flush);
        if (__sanitizer_set_death_callback != nullptr) {
            __sanitizer_set_death_callback(death_cb);
        }
        return 0;
    }
    static int one(const uint8_t *data, size_t size) {
        Ctx               &c = ctx();
        typename H::Case   k;
        if (!H::from_fuzz(data, size, k)) {
            return -1; // not a case: keep it out of the corpus
        }
        Status st = exec_case<H>(c, k);
        if (st == Status::Fail) {
            fprintf(stderr, "ORACLE FAILURE class=%s %s\n", c.fail_cls.c_str(), c.fail_msg.c_str());
            if (!c.out_path.empty()) {
                write_file(c.out_path + ".failcase", c.fail_text);
            }
            c.write_stats();
            __builtin_trap();
        }
        if ((c.evaluations & 0xFFF) == 0) {
            c.write_stats();
        }
        return 0;
    }
};

#ifdef VERIF_FUZZ_GENERIC
#define PBT_MAIN(H)                                                                                                    \
    extern "C" int LLVMFuzzerInitialize(int *, char ***) { return pbt::FuzzEntry<H>::init(); }                         \
    extern "C" int LLVMFuzzerTestOneInput(const uint8_t *d, size_t n) { return pbt::FuzzEntry<H>::one(d, n); }
#else
#define PBT_MAIN(H)                                                                                                    \
    int main(int argc, char **argv) { return pbt::run_main<H>(argc, argv); }
#endif

// selector bytes of from_fuzz: take one byte from the front (0 when exhausted)
struct FuzzBytes {
    const uint8_t *d;
    size_t         n, i{0};
    FuzzBytes(const uint8_t *d_, size_t n_) : d(d_), n(n_) {}
    uint8_t              sel() { return i < n ? d[i++] : 0; }
    std::vector<uint8_t> rest() { return std::vector<uint8_t>(d + i, d + n); }
};

// ---- generator helpers -----------------------------------------------------------------------
// inRange collapses at small sizes; pin the size so ranges are explored from the first case on.
template <class T>
rc::Gen<T> range(T lo, T hi_inclusive) {
    return rc::gen::resize(100, rc::gen::inRange<T>(lo, T(hi_inclusive + 1)));
}
template <class T>
rc::Gen<T> pick(std::vector<T> v) {
    return rc::gen::resize(100, rc::gen::elementOf(std::move(v)));
}

} // namespace pbt

#endif
