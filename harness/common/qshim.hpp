// Include shim for the library under test.
//  * <new> first: the library is STL-free and uses placement new.
//  * Allocation ledger through the library's own accounting seam: Memory::Allocate/Deallocate call
//    MemoryRecord::AddAllocation/RemoveAllocation when QENTEM_Q_TEST_H is defined. We define the macro
//    ourselves and provide our own MemoryRecord instead of including QTest.hpp (no repository change).
#ifndef VERIF_QSHIM_HPP
#define VERIF_QSHIM_HPP

#include <new>
#include <cstdint>
#include <cstdio>
#include <cstdlib>
#include <unordered_set>
#include <mutex>

#define QENTEM_Q_TEST_H

namespace Qentem {
struct MemoryRecord {
    struct Data {
        std::unordered_set<const void *> live;
        uint64_t                          allocs{0};
        uint64_t                          frees{0};
        uint64_t                          double_add{0};
        uint64_t                          bad_free{0};
        bool                              enabled{true};
        std::mutex                        mtx;
    };

    static Data &data() {
        static Data d;
        return d;
    }

    static void AddAllocation(void *p) {
        Data &d = data();
        if (!d.enabled) {
            return;
        }
        std::lock_guard<std::mutex> g(d.mtx);
        ++d.allocs;
        if (!d.live.insert(p).second) {
            ++d.double_add;
        }
    }

    static void RemoveAllocation(void *p) {
        Data &d = data();
        if (!d.enabled) {
            return;
        }
        std::lock_guard<std::mutex> g(d.mtx);
        ++d.frees;
        if (d.live.erase(p) == 0) {
            ++d.bad_free;
        }
    }

    // harness side
    static void Reset() {
        Data &d = data();
        std::lock_guard<std::mutex> g(d.mtx);
        d.live.clear();
        d.allocs = d.frees = d.double_add = d.bad_free = 0;
    }
    static size_t   Live() { return data().live.size(); }
    static uint64_t Allocs() { return data().allocs; }
    static uint64_t Frees() { return data().frees; }
    static uint64_t DoubleAdd() { return data().double_add; }
    static uint64_t BadFree() { return data().bad_free; }
};
} // namespace Qentem

#include "Array.hpp"
#include "BigInt.hpp"
#include "Digit.hpp"
#include "HArray.hpp"
#include "HList.hpp"
#include "JSON.hpp"
#include "String.hpp"
#include "StringStream.hpp"
#include "StringView.hpp"
#include "Template.hpp"
#include "Unicode.hpp"
#include "Value.hpp"

#endif
