// C19 — BigInt holds the exact mathematical integer after every operation whose result fits the declared width.
//
// A case is an entropy byte string + a word size (8/16/32/64) + a declared width (64..2048 bits). The byte string is
// decoded (on a reference natural number only, never on the library) into a sequence of public BigInt operations on two
// registers; every operation's precondition (result fits Width_T bits, no subtraction below zero, divisor != 0, bit scans
// only on non-zero values) is evaluated on the reference and the operand is replaced by an in-range one otherwise.
// After EVERY operation, for both registers:
//   * Index() <= MaxIndex()
//   * the natural number formed by Storage()[0..Index()] equals the reference value              (the VALUE is exact)
//   * IsZero / NotZero / IsBig / Number() and ==,<,> against the low word agree with the reference value
//   * returned remainder (Divide), bit index (FindFirstBit / FindLastBit), the twelve comparison operators with a word
//     and the narrowing conversions (value mod 2^N) are exact
// Words above Index() are NOT asserted to be zero (internal detail); they are only remembered so that a later wrong
// value can be attributed to the operation that left them behind.
// Memory safety is observed by ASan / -fsanitize=bounds on heap-allocated BigInt objects. Shifts of a zero value are
// executed in a forked child first, so that a sanitizer abort becomes a reported finding instead of ending the run
// (VERIF_C19_NOPROBE=1 executes them in-process).
//
// Failure classes (named after what was observed; the attribution part is derived at run time, not assumed):
//   shift-left-of-zero-crashes / shift-right-of-zero-crashes   the probing child died (sanitizer report or signal)
//   stale-words-after-<op>      a value became wrong and non-zero words above Index() had been left behind by <op>
//   zero-top-word-after-<op>    predicates / results disagree with the value and Index() > 0 with a zero top word since <op>
//   find-first-bit-wrong, find-last-bit-wrong, remainder-wrong, comparison-wrong, conversion-wrong, predicate-wrong,
//   value-wrong-after-<op>      everything else
//   divide64-odd-divisor-remainder-carry   64-bit words, odd divisor, (r*2^64 mod d) + (word mod d) >= 2^64 in a step
//   index-out-of-range, geometry
// Not covered on purpose: SetIndex() and writes through the mutable Storage() (raw access that can break any invariant),
// signed scalar operands (the type models natural numbers; a negative operand never terminates the word loop), results
// that do not fit Width_T bits (wrap-around of Add/Subtract/shifts is outside the property), bit scans of zero
// (Platform::FindFirstBit/FindLastBit document 'value should be bigger than zero'), division by zero.
//
// Enumeration modes: dw8 (DoubleSize<.., 8> Multiply: all 2^16 pairs; Divide: all (high < divisor, low, divisor != 0)),
// dw16 / dw32 / dw64 (boundary-biased operand lists crossed with each other against unsigned __int128).
#include "common/pbt.hpp"
#include "common/jmodel.hpp"

#include <functional>
#include <memory>
#include <sys/wait.h>

using namespace Qentem;

namespace {

using u128 = unsigned __int128;

// ---------------------------------------------------------------------------------------------------------------
// Reference natural number: little-endian 32-bit limbs, always trimmed.
// ---------------------------------------------------------------------------------------------------------------
struct Nat {
    std::vector<uint32_t> w;

    void trim() {
        while (!w.empty() && w.back() == 0) {
            w.pop_back();
        }
    }
    bool       zero() const { return w.empty(); }
    static Nat u64(uint64_t v) {
        Nat n;
        n.w = {uint32_t(v), uint32_t(v >> 32)};
        n.trim();
        return n;
    }
    static Nat pow2(unsigned k) {
        Nat n;
        n.w.assign(k / 32 + 1, 0);
        n.w[k / 32] = 1u << (k % 32);
        return n;
    }
    unsigned bitlen() const {
        if (w.empty()) {
            return 0;
        }
        return unsigned(w.size() - 1) * 32u + (32u - unsigned(__builtin_clz(w.back())));
    }
    unsigned ctz() const { // value must be non-zero
        for (size_t i = 0; i < w.size(); ++i) {
            if (w[i] != 0) {
                return unsigned(i) * 32u + unsigned(__builtin_ctz(w[i]));
            }
        }
        return 0;
    }
    uint64_t low64() const {
        uint64_t v = w.size() > 0 ? w[0] : 0;
        if (w.size() > 1) {
            v |= uint64_t(w[1]) << 32;
        }
        return v;
    }
    int cmp(const Nat &o) const {
        if (w.size() != o.w.size()) {
            return w.size() < o.w.size() ? -1 : 1;
        }
        for (size_t i = w.size(); i-- > 0;) {
            if (w[i] != o.w[i]) {
                return w[i] < o.w[i] ? -1 : 1;
            }
        }
        return 0;
    }
    bool operator==(const Nat &o) const { return w == o.w; }
    bool operator!=(const Nat &o) const { return w != o.w; }
    void add(const Nat &o) {
        if (w.size() < o.w.size()) {
            w.resize(o.w.size(), 0);
        }
        uint64_t carry = 0;
        for (size_t i = 0; i < w.size(); ++i) {
            uint64_t s = uint64_t(w[i]) + (i < o.w.size() ? o.w[i] : 0u) + carry;
            w[i]       = uint32_t(s);
            carry      = s >> 32;
        }
        if (carry != 0) {
            w.push_back(uint32_t(carry));
        }
        trim();
    }
    void sub(const Nat &o) { // requires *this >= o
        int64_t borrow = 0;
        for (size_t i = 0; i < w.size(); ++i) {
            int64_t d = int64_t(w[i]) - int64_t(i < o.w.size() ? o.w[i] : 0u) - borrow;
            borrow    = d < 0 ? 1 : 0;
            if (d < 0) {
                d += (int64_t(1) << 32);
            }
            w[i] = uint32_t(d);
        }
        trim();
    }
    void mul64(uint64_t m) {
        u128 carry = 0;
        for (size_t i = 0; i < w.size(); ++i) {
            u128 t = u128(w[i]) * m + carry;
            w[i]   = uint32_t(t);
            carry  = t >> 32;
        }
        while (carry != 0) {
            w.push_back(uint32_t(carry));
            carry >>= 32;
        }
        trim();
    }
    uint64_t divmod64(uint64_t d) { // d != 0; *this becomes the quotient
        u128 rem = 0;
        for (size_t i = w.size(); i-- > 0;) {
            u128 cur = (rem << 32) | w[i];
            w[i]     = uint32_t(cur / d);
            rem      = cur % d;
        }
        trim();
        return uint64_t(rem);
    }
    void shl(unsigned s) {
        if (w.empty() || s == 0) {
            return;
        }
        unsigned              limbs = s / 32, bits = s % 32;
        std::vector<uint32_t> r(w.size() + limbs + 1, 0);
        for (size_t i = 0; i < w.size(); ++i) {
            uint64_t v = uint64_t(w[i]) << bits;
            r[i + limbs] |= uint32_t(v);
            r[i + limbs + 1] |= uint32_t(v >> 32);
        }
        w.swap(r);
        trim();
    }
    void shr(unsigned s) {
        unsigned limbs = s / 32, bits = s % 32;
        if (limbs >= w.size()) {
            w.clear();
            return;
        }
        std::vector<uint32_t> r(w.size() - limbs, 0);
        for (size_t i = 0; i < r.size(); ++i) {
            uint64_t v = w[i + limbs];
            if (i + limbs + 1 < w.size()) {
                v |= uint64_t(w[i + limbs + 1]) << 32;
            }
            r[i] = uint32_t(v >> bits);
        }
        w.swap(r);
        trim();
    }
    void or64(uint64_t n) {
        if (w.size() < 2) {
            w.resize(2, 0);
        }
        w[0] |= uint32_t(n);
        w[1] |= uint32_t(n >> 32);
        trim();
    }
    // word number 'i' when the value is cut into words of 'tw' bits
    uint64_t word(unsigned i, unsigned tw) const {
        Nat t = *this;
        t.shr(i * tw);
        return t.low64() & (tw >= 64 ? ~0ULL : ((1ULL << tw) - 1));
    }
    // value of words[0..count) of 'tw' bits each (tw in 8,16,32,64)
    static Nat from_words(const std::vector<uint64_t> &words, size_t count, unsigned tw) {
        Nat n;
        n.w.assign((count * tw + 31) / 32 + 1, 0);
        for (size_t i = 0; i < count; ++i) {
            size_t p = i * tw;
            if (tw == 64) {
                n.w[p / 32]     = uint32_t(words[i]);
                n.w[p / 32 + 1] = uint32_t(words[i] >> 32);
            } else {
                n.w[p / 32] |= uint32_t(words[i]) << (p % 32);
            }
        }
        n.trim();
        return n;
    }
    std::string hex() const {
        if (w.empty()) {
            return "0x0";
        }
        std::string o = "0x";
        char        b[16];
        snprintf(b, sizeof b, "%x", w.back());
        o += b;
        for (size_t i = w.size() - 1; i-- > 0;) {
            snprintf(b, sizeof b, "%08x", w[i]);
            o += b;
        }
        return o;
    }
};

std::string hx(uint64_t v) {
    char b[32];
    snprintf(b, sizeof b, "0x%llx", (unsigned long long)v);
    return b;
}

uint64_t mask_bits(unsigned b) { return b >= 64 ? ~0ULL : ((1ULL << b) - 1); }

// The reference is itself checked once against unsigned __int128 (a wrong model would produce false alarms).
void model_selftest() {
    uint64_t x = 0x9E3779B97F4A7C15ULL;
    auto     nx = [&x]() {
        x ^= x << 13;
        x ^= x >> 7;
        x ^= x << 17;
        return x;
    };
    auto to128 = [](const Nat &n) {
        u128 v = 0;
        for (size_t i = n.w.size(); i-- > 0;) {
            v = (v << 32) | n.w[i];
        }
        return v;
    };
    auto from128 = [](u128 v) {
        Nat n;
        for (int i = 0; i < 4; ++i) {
            n.w.push_back(uint32_t(v >> (32 * i)));
        }
        n.trim();
        return n;
    };
    auto die = [](const char *what) {
        fprintf(stderr, "C19 harness: reference self-test failed: %s\n", what);
        abort();
    };
    for (int it = 0; it < 4000; ++it) {
        uint64_t a = nx() >> (nx() % 64), b = nx() >> (nx() % 64), c = nx() >> (nx() % 64);
        if (it % 7 == 0) {
            a = ~0ULL;
        }
        if (it % 11 == 0) {
            b = ~0ULL;
        }
        if (it % 13 == 0) {
            c = (it % 2) ? ~0ULL : 1;
        }
        u128 v  = (u128(a) << 64) | b;
        Nat  n  = from128(v);
        if (to128(n) != v || n.bitlen() != (v == 0 ? 0u : (a != 0 ? 128u - unsigned(__builtin_clzll(a)) : 64u - unsigned(__builtin_clzll(b))))) {
            die("from/to/bitlen");
        }
        if (v != 0) {
            unsigned z = b != 0 ? unsigned(__builtin_ctzll(b)) : 64u + unsigned(__builtin_ctzll(a));
            if (n.ctz() != z) {
                die("ctz");
            }
        }
        { // mul / divmod on 64-bit x 64-bit
            Nat m = Nat::u64(b);
            m.mul64(c);
            if (to128(m) != u128(b) * c) {
                die("mul64");
            }
            if (c != 0) {
                Nat      q = n;
                uint64_t r = q.divmod64(c);
                if (to128(q) != v / c || r != uint64_t(v % c)) {
                    die("divmod64");
                }
                Nat back = q; // q*c + r == v (also exercises multi-limb mul and add)
                back.mul64(c);
                back.add(Nat::u64(r));
                if (back != n) {
                    die("q*d+r");
                }
            }
        }
        { // add / sub / cmp
            u128 o = (u128(c >> 1) << 64) | a;
            u128 vv = v >> 1;
            Nat  p = from128(vv), q = from128(o);
            Nat  s = p;
            s.add(q);
            if (to128(s) != vv + o) {
                die("add");
            }
            s.sub(q);
            if (s != p) {
                die("sub");
            }
            int cm = vv < o ? -1 : (vv == o ? 0 : 1);
            if (p.cmp(q) != cm) {
                die("cmp");
            }
        }
        { // shifts
            unsigned sh = unsigned(c % 130);
            Nat      r  = n;
            r.shr(sh);
            if (to128(r) != (sh >= 128 ? u128(0) : (v >> sh))) {
                die("shr");
            }
            Nat l = Nat::u64(b);
            l.shl(sh % 64);
            if (to128(l) != (u128(b) << (sh % 64))) {
                die("shl");
            }
            Nat big = n;
            big.shl(sh + 200);
            big.shr(sh + 200);
            if (big != n) {
                die("shl/shr round trip");
            }
        }
        { // or / word / from_words
            Nat o = n;
            o.or64(c);
            if (to128(o) != (v | c)) {
                die("or64");
            }
            for (unsigned tw : {8u, 16u, 32u, 64u}) {
                std::vector<uint64_t> ws;
                for (unsigned i = 0; i < 128 / tw; ++i) {
                    ws.push_back(uint64_t(v >> (i * tw)) & mask_bits(tw));
                    if (n.word(i, tw) != ws.back()) {
                        die("word");
                    }
                }
                if (Nat::from_words(ws, ws.size(), tw) != n) {
                    die("from_words");
                }
            }
        }
    }
    Nat p = Nat::pow2(100);
    if (p.bitlen() != 101 || p.ctz() != 100) {
        die("pow2");
    }
}

// ---------------------------------------------------------------------------------------------------------------
// Operations
// ---------------------------------------------------------------------------------------------------------------
enum class K : uint8_t {
    Ctor,       // regs[r] = new BigInt(scalar)
    Assign,     // operator=(scalar)
    Add,        // operator+=(scalar)           (alt && scalar is one word: Add(word))
    Sub,        // operator-=(scalar)           (alt && scalar is one word: Subtract(word))
    Or,         // operator|=(scalar)
    And,        // operator&=(scalar)
    AddAt,      // Add(word, index)
    SubAt,      // Subtract(word, index)
    Mul,        // operator*=(word)             (alt: Multiply(word))
    Div,        // remainder = Divide(word)
    DivAssign,  // operator/=(word)
    Shl,        // operator<<=(n)               (alt: ShiftLeft(n))
    Shr,        // operator>>=(n)               (alt: ShiftRight(n))
    FFB,        // FindFirstBit()
    FLB,        // FindLastBit()
    Cmp,        // the twelve comparison operators against a word
    Conv,       // explicit operator scalar()
    Clear,      // Clear()
    CopyAssign, // regs[r] = regs[src]          (src may be r: self assignment)
    MoveAssign, // regs[r] = move(regs[src])
    CopyCtor,   // regs[r] = new BigInt(regs[src])
    MoveCtor,   // regs[r] = new BigInt(move(regs[src]))
    Count
};

const char *k_name(K k) {
    static const char *n[] = {"ctor",  "assign", "add", "sub", "or",  "and",  "add-at", "sub-at",      "mul",         "divide",    "div-assign",
                              "shl",   "shr",    "ffb", "flb", "cmp", "conv", "clear",  "copy-assign", "move-assign", "copy-ctor", "move-ctor"};
    return n[int(k)];
}

struct Op {
    K        k{K::Clear};
    uint8_t  reg{0};
    uint8_t  src{0};  // copy / move source register
    uint8_t  ty{3};   // scalar type: 0 u8, 1 u16, 2 u32, 3 u64
    bool     alt{false};
    uint64_t n{0};    // scalar / word operand
    uint32_t sh{0};   // shift amount or word index
};

struct Ret {
    bool     has{false};
    uint64_t v{0};
};

const char *ty_name(int ty) {
    static const char *n[] = {"u8", "u16", "u32", "u64"};
    return n[ty];
}
unsigned ty_bits(int ty) { return 8u << ty; }

std::string op_text(const Op &o) {
    std::string r = "r" + std::to_string(o.reg);
    std::string s = std::string(ty_name(o.ty)) + ":" + hx(o.n);
    switch (o.k) {
        case K::Ctor: return r + ":=new(" + s + ")";
        case K::Assign: return r + ":=" + s;
        case K::Add: return o.alt ? r + ".Add(" + hx(o.n) + ")" : r + "+=" + s;
        case K::Sub: return o.alt ? r + ".Subtract(" + hx(o.n) + ")" : r + "-=" + s;
        case K::Or: return r + "|=" + s;
        case K::And: return r + "&=" + s;
        case K::AddAt: return r + ".Add(" + hx(o.n) + ",@" + std::to_string(o.sh) + ")";
        case K::SubAt: return r + ".Subtract(" + hx(o.n) + ",@" + std::to_string(o.sh) + ")";
        case K::Mul: return o.alt ? r + ".Multiply(" + hx(o.n) + ")" : r + "*=" + hx(o.n);
        case K::Div: return r + ".Divide(" + hx(o.n) + ")";
        case K::DivAssign: return r + "/=" + hx(o.n);
        case K::Shl: return o.alt ? r + ".ShiftLeft(" + std::to_string(o.sh) + ")" : r + "<<=" + std::to_string(o.sh);
        case K::Shr: return o.alt ? r + ".ShiftRight(" + std::to_string(o.sh) + ")" : r + ">>=" + std::to_string(o.sh);
        case K::FFB: return r + ".FindFirstBit()";
        case K::FLB: return r + ".FindLastBit()";
        case K::Cmp: return "cmp(" + r + "," + hx(o.n) + ")";
        case K::Conv: return std::string(ty_name(o.ty)) + "(" + r + ")";
        case K::Clear: return r + ".Clear()";
        case K::CopyAssign: return r + ":=r" + std::to_string(o.src);
        case K::MoveAssign: return r + ":=move(r" + std::to_string(o.src) + ")";
        case K::CopyCtor: return r + ":=new(r" + std::to_string(o.src) + ")";
        case K::MoveCtor: return r + ":=new(move(r" + std::to_string(o.src) + "))";
        default: return "?";
    }
}

// ---------------------------------------------------------------------------------------------------------------
// The library side, behind a small interface so that the driver is compiled once.
// ---------------------------------------------------------------------------------------------------------------
struct Snap {
    std::vector<uint64_t> words; // all MaxIndex()+1 storage words
    uint32_t              index{0};
    bool                  is_zero{false}, not_zero{false}, is_big{false};
    uint64_t              number{0};
    bool                  eq_low{false}, lt_low{false}, gt_low{false}; // against 'probe_word'
};

struct IDev {
    virtual ~IDev() {}
    virtual void     apply(const Op &, Ret &)                              = 0;
    virtual void     snapshot(int reg, uint64_t probe_word, Snap &) const = 0;
    virtual unsigned tw() const                                            = 0;
    virtual unsigned max_index() const                                     = 0;
    virtual unsigned total_bits() const                                    = 0;
};

template <typename T, unsigned W>
struct Dev final : IDev {
    using B = BigInt<T, W>;
    B *r[2];

    Dev() {
        r[0] = new B; // default constructor: value zero
        r[1] = new B;
    }
    ~Dev() override {
        delete r[0];
        delete r[1];
    }
    Dev(const Dev &)            = delete;
    Dev &operator=(const Dev &) = delete;

    unsigned tw() const override { return B::TypeWidth(); }
    unsigned max_index() const override { return B::MaxIndex(); }
    unsigned total_bits() const override { return B::TotalBits(); }

    template <typename N>
    void scalar(const Op &o) {
        const N n = N(o.n);
        B      &b = *r[o.reg];
        switch (o.k) {
            case K::Ctor: {
                delete r[o.reg];
                r[o.reg] = nullptr;
                r[o.reg] = new B(n);
                break;
            }
            case K::Assign: b = n; break;
            case K::Add: b += n; break;
            case K::Sub: b -= n; break;
            case K::Or: b |= n; break;
            case K::And: b &= n; break;
            default: break;
        }
    }
    template <typename N>
    static uint64_t conv(const B &b) {
        return uint64_t(static_cast<N>(b));
    }

    // The word operand is handed over as one of the object's own words whenever one of them has that value (operands are often drawn
    // from the current value): a word taken by reference would change under the operation that reads it.
    static const T &own_word_or(const B &b, const T &w, bool &own) {
        const T *st = b.Storage();
        for (SizeT32 i = b.Index() + 1U; i != 0; --i) {
            if (st[i - 1U] == w) {
                own = true;
                return st[i - 1U];
            }
        }
        return w;
    }

    void apply(const Op &o, Ret &ret) override {
        B      &b = *r[o.reg];
        const T wv_ = T(o.n);
        bool    own = false;
        const T &wv = own_word_or(b, wv_, own);
        if (own && (o.k == K::Mul || o.k == K::Div || o.k == K::DivAssign || o.k == K::AddAt || o.k == K::SubAt)) {
            pbt::global_ctx()->label("operand-is-own-word");
        }
        switch (o.k) {
            case K::Ctor:
            case K::Assign:
            case K::Add:
            case K::Sub:
            case K::Or:
            case K::And: {
                if (o.alt && ty_bits(o.ty) == B::TypeWidth() && (o.k == K::Add || o.k == K::Sub)) {
                    if (o.k == K::Add) {
                        b.Add(wv);
                    } else {
                        b.Subtract(wv);
                    }
                    break;
                }
                switch (o.ty) {
                    case 0: scalar<unsigned char>(o); break;
                    case 1: scalar<unsigned short>(o); break;
                    case 2: scalar<unsigned int>(o); break;
                    default: scalar<unsigned long long>(o); break;
                }
                break;
            }
            case K::AddAt: b.Add(wv, o.sh); break;
            case K::SubAt: b.Subtract(wv, o.sh); break;
            case K::Mul: {
                if (o.alt) {
                    b.Multiply(wv);
                } else {
                    b *= wv;
                }
                break;
            }
            case K::Div: {
                ret.has = true;
                ret.v   = uint64_t(b.Divide(wv));
                break;
            }
            case K::DivAssign: b /= wv; break;
            case K::Shl: {
                if (o.alt) {
                    b.ShiftLeft(o.sh);
                } else {
                    b <<= o.sh;
                }
                break;
            }
            case K::Shr: {
                if (o.alt) {
                    b.ShiftRight(o.sh);
                } else {
                    b >>= o.sh;
                }
                break;
            }
            case K::FFB: {
                ret.has = true;
                ret.v   = static_cast<const B &>(b).FindFirstBit();
                break;
            }
            case K::FLB: {
                ret.has = true;
                ret.v   = static_cast<const B &>(b).FindLastBit();
                break;
            }
            case K::Cmp: {
                const B &c = b;
                uint64_t m = 0;
                m |= uint64_t(c == wv) << 0;
                m |= uint64_t(c != wv) << 1;
                m |= uint64_t(c < wv) << 2;
                m |= uint64_t(c <= wv) << 3;
                m |= uint64_t(c > wv) << 4;
                m |= uint64_t(c >= wv) << 5;
                m |= uint64_t(wv == c) << 6;
                m |= uint64_t(wv != c) << 7;
                m |= uint64_t(wv < c) << 8;
                m |= uint64_t(wv <= c) << 9;
                m |= uint64_t(wv > c) << 10;
                m |= uint64_t(wv >= c) << 11;
                ret.has = true;
                ret.v   = m;
                break;
            }
            case K::Conv: {
                const B &c = b;
                ret.has    = true;
                switch (o.ty) {
                    case 0: ret.v = conv<unsigned char>(c); break;
                    case 1: ret.v = conv<unsigned short>(c); break;
                    case 2: ret.v = conv<unsigned int>(c); break;
                    default: ret.v = conv<unsigned long long>(c); break;
                }
                break;
            }
            case K::Clear: b.Clear(); break;
            case K::CopyAssign: {
                const B &s = *r[o.src];
                b          = s;
                break;
            }
            case K::MoveAssign: b = static_cast<B &&>(*r[o.src]); break;
            case K::CopyCtor: {
                B *n = new B(static_cast<const B &>(*r[o.src]));
                delete r[o.reg];
                r[o.reg] = n;
                break;
            }
            case K::MoveCtor: {
                B *n = new B(static_cast<B &&>(*r[o.src]));
                delete r[o.reg];
                r[o.reg] = n;
                break;
            }
            default: break;
        }
    }

    void snapshot(int reg, uint64_t probe_word, Snap &s) const override {
        const B &b = *r[reg];
        s.index    = b.Index();
        s.words.resize(B::MaxIndex() + 1u);
        const T *st = b.Storage();
        for (unsigned i = 0; i <= B::MaxIndex(); ++i) {
            s.words[i] = uint64_t(st[i]);
        }
        s.is_zero  = b.IsZero();
        s.not_zero = b.NotZero();
        s.is_big   = b.IsBig();
        s.number   = uint64_t(b.Number());
        const T pw = T(probe_word);
        s.eq_low   = (b == pw);
        s.lt_low   = (b < pw);
        s.gt_low   = (b > pw);
    }
};

const int kWidths[] = {64, 100, 128, 192, 256, 320, 512, 1000, 1024, 2048};

template <typename T>
IDev *make_dev_w(int bits) {
    switch (bits) {
        case 64: return new Dev<T, 64>;
        case 100: return new Dev<T, 100>;
        case 128: return new Dev<T, 128>;
        case 192: return new Dev<T, 192>;
        case 256: return new Dev<T, 256>;
        case 320: return new Dev<T, 320>;
        case 512: return new Dev<T, 512>;
        case 1000: return new Dev<T, 1000>;
        case 1024: return new Dev<T, 1024>;
        case 2048: return new Dev<T, 2048>;
        default: return nullptr;
    }
}
IDev *make_dev(int word, int bits) {
    switch (word) {
        case 8: return make_dev_w<unsigned char>(bits);
        case 16: return make_dev_w<unsigned short>(bits);
        case 32: return make_dev_w<unsigned int>(bits);
        case 64: return make_dev_w<unsigned long long>(bits);
        default: return nullptr;
    }
}

// ---------------------------------------------------------------------------------------------------------------
// Case and decoder
// ---------------------------------------------------------------------------------------------------------------
struct Case {
    std::vector<uint8_t> bytes;
    int                  word{64};
    int                  bits{128};
    // double-word helper cases (enumeration / replay): dw 0 none, 1 Multiply(a, b), 2 Divide(high=a, low=b, divisor=c)
    int      dw{0};
    uint64_t a{0}, b{0}, c{0};
};

struct Params {
    unsigned tw{64}, bits{128}, total{128}, max_index{1};
};
Params params_of(const Case &c) {
    Params p;
    p.tw        = unsigned(c.word);
    p.bits      = unsigned(c.bits);
    p.total     = ((p.bits + p.tw - 1) / p.tw) * p.tw; // whole words that hold Width_T bits
    p.max_index = p.total / p.tw - 1;
    return p;
}

struct Step {
    Op       op;
    bool     has_ret{false};
    uint64_t ret{0};
    bool     target_was_zero{false};
    bool     carry_across{false};  // add whose carry leaves the operand's words
    bool     borrow_across{false}; // subtract whose borrow leaves the operand's words
    bool     top_bit_divisor{false};
    bool     div64_carry{false}; // 64-bit words, odd divisor, some long-division step has (r*2^64 mod d) + (word mod d) >= 2^64
    bool     preamble{false};
};

struct Decoder {
    Params      p;
    jm::Entropy e;
    Nat         m[2]; // reference values of the two registers (after the last decoded step)
    bool        started{false};
    unsigned    main_count{0};
    // preamble: "<<= chunk; |= word" repeated, builds a multi-word value with a chosen word pattern
    unsigned pre_left{0};
    int      pre_pat{0};
    int      pre_ty{3};
    bool     pre_or_next{false};
    uint64_t prng{0};

    Decoder(const Case &c, const Params &pp) : p(pp), e(c.bytes) {}

    int word_ty() const { return p.tw == 8 ? 0 : p.tw == 16 ? 1 : p.tw == 32 ? 2 : 3; }

    uint64_t next_prng() {
        prng += 0x9E3779B97F4A7C15ULL;
        uint64_t z = prng;
        z          = (z ^ (z >> 30)) * 0xBF58476D1CE4E5B9ULL;
        z          = (z ^ (z >> 27)) * 0x94D049BB133111EBULL;
        return z ^ (z >> 31);
    }

    uint64_t scalar(unsigned bits, const Nat &cur) {
        const uint64_t mk = mask_bits(bits);
        switch (e.below(13)) {
            case 0: return 0;
            case 1: return 1;
            case 2: return mk;
            case 3: return 1ULL << e.below(bits);
            case 4: return mask_bits(1 + e.below(bits));
            case 5: return ((1ULL << (bits - 1)) | e.u64()) & mk;
            case 6: return (((1ULL << (bits - 1)) | e.u64()) & mk) | 1ULL;
            case 7: return (e.u64() & mk) | 1ULL;
            case 8: return (e.u64() & mk) & ~1ULL;
            case 9: return 2 + e.below(9);
            case 10: return mk - e.below(4);
            case 11: return (e.u64() & mk) >> e.below(bits);
            default: return cur.low64() & mk;
        }
    }
    uint64_t max_pow(uint64_t base) const { // largest power of base that fits one word
        uint64_t v = base, lim = mask_bits(p.tw);
        while (v <= lim / base) {
            v *= base;
        }
        return v;
    }
    uint64_t word_operand(const Nat &cur, bool divisor) {
        const uint64_t mk  = mask_bits(p.tw);
        const uint64_t top = 1ULL << (p.tw - 1);
        uint64_t       v;
        switch (e.below(16)) {
            case 0: v = 1; break;
            case 1: v = 2; break;
            case 2: v = 3; break;
            case 3: v = 10; break;
            case 4: v = mk; break;
            case 5: v = mk - 1; break;
            case 6: v = top; break;
            case 7: v = top + 1; break;
            case 8: v = ((top | e.u64()) & mk) | 1ULL; break;
            case 9: v = ((top | e.u64()) & mk) & ~1ULL; break;
            case 10: v = max_pow(10); break;
            case 11: v = max_pow(5); break;
            case 12: v = 0; break;
            case 13: { // top word of the current value, or one more (quotient top word becomes 1 / 0)
                unsigned bl = cur.bitlen();
                v           = bl == 0 ? 0 : cur.word((bl - 1) / p.tw, p.tw);
                if (e.chance(50)) {
                    v = (v + 1) & mk;
                }
                break;
            }
            default: v = scalar(p.tw, cur); break;
        }
        if (divisor && v == 0) {
            v = mk;
        }
        return v;
    }
    int pick_ty() {
        // the word's own type half of the time, any of the four otherwise
        return e.chance(50) ? word_ty() : int(e.below(4));
    }
    unsigned top_index(const Nat &v) const {
        unsigned bl = v.bitlen();
        return bl == 0 ? 0 : (bl - 1) / p.tw;
    }

    // -- reference semantics + preconditions; fills s.op (possibly with a replaced operand) and updates m[] --
    void do_set(Step &s, K k, int reg, int ty, uint64_t n) {
        s.op.k   = k;
        s.op.reg = uint8_t(reg);
        s.op.ty  = uint8_t(ty);
        s.op.n   = n & mask_bits(ty_bits(ty));
        m[reg]   = Nat::u64(s.op.n);
    }
    void do_add(Step &s, int reg, int ty, uint64_t n, bool alt) {
        n &= mask_bits(ty_bits(ty));
        Nat sum = m[reg];
        sum.add(Nat::u64(n));
        if (sum.bitlen() > p.bits) { // would not fit: add exactly the room that is left (fills the width with ones)
            Nat room = Nat::pow2(p.bits);
            room.sub(Nat::u64(1));
            room.sub(m[reg]);
            n   = room.low64(); // room < n
            sum = m[reg];
            sum.add(Nat::u64(n));
        }
        unsigned tb = ty_bits(ty);
        if (tb < p.tw) {
            tb = p.tw;
        }
        { // carry out of the words covered by the operand?
            Nat lowpart = m[reg];
            Nat hi      = m[reg];
            hi.shr(tb);
            hi.shl(tb);
            lowpart.sub(hi);
            lowpart.add(Nat::u64(n));
            s.carry_across = lowpart.bitlen() > tb;
        }
        s.op.k   = K::Add;
        s.op.reg = uint8_t(reg);
        s.op.ty  = uint8_t(ty);
        s.op.n   = n;
        s.op.alt = alt && ty == word_ty(); // Add(word) exists for the word's own type only
        m[reg]   = sum;
    }
    void do_sub(Step &s, int reg, int ty, uint64_t n, bool alt) {
        n &= mask_bits(ty_bits(ty));
        if (Nat::u64(n).cmp(m[reg]) > 0) { // below zero: subtract the whole value instead (result zero)
            n = m[reg].low64();
        }
        unsigned tb = ty_bits(ty);
        if (tb < p.tw) {
            tb = p.tw;
        }
        {
            Nat hi = m[reg];
            hi.shr(tb);
            hi.shl(tb);
            Nat lowpart = m[reg];
            lowpart.sub(hi);
            s.borrow_across = lowpart.cmp(Nat::u64(n)) < 0;
        }
        s.op.k   = K::Sub;
        s.op.reg = uint8_t(reg);
        s.op.ty  = uint8_t(ty);
        s.op.n   = n;
        s.op.alt = alt && ty == word_ty();
        m[reg].sub(Nat::u64(n));
    }

    bool next(Step &s) {
        s = Step{};
        if (!started) {
            started = true;
            int ty  = e.chance(60) ? 3 : int(e.below(4));
            do_set(s, e.chance(50) ? K::Ctor : K::Assign, 0, ty, scalar(ty_bits(ty), m[0]));
            if (e.chance(55)) {
                unsigned k;
                switch (e.below(8)) {
                    case 0: k = 1; break;
                    case 1: k = 2; break;
                    case 2: k = 3; break;
                    case 3: k = p.max_index / 2; break;
                    case 4: k = p.max_index > 0 ? p.max_index - 1 : 0; break;
                    case 5:
                    case 6: k = p.max_index; break;
                    default: k = e.below(p.max_index + 1); break;
                }
                pre_ty = e.chance(70) ? word_ty() : 3;
                if (pre_ty == 3 && p.tw < 64) {
                    k = (k * p.tw + 63) / 64;
                }
                pre_left    = k;
                pre_pat     = int(e.below(6));
                pre_or_next = false;
                prng        = e.u64();
            }
            return true;
        }
        if (pre_left != 0) {
            const unsigned chunk = ty_bits(pre_ty);
            s.preamble           = true;
            if (!pre_or_next) {
                if (m[0].bitlen() + chunk <= p.bits) {
                    s.target_was_zero = m[0].zero();
                    s.op.k            = K::Shl;
                    s.op.reg          = 0;
                    s.op.sh           = chunk;
                    s.op.alt          = (pre_left & 1u) != 0;
                    m[0].shl(chunk);
                    pre_or_next = true;
                    return true;
                }
                pre_left = 0; // no room left: fall through to the main sequence
            } else {
                uint64_t w;
                switch (pre_pat) {
                    case 0: w = ~0ULL; break;
                    case 1: w = 0; break;
                    case 2: w = next_prng(); break;
                    case 3: w = (pre_left & 1u) ? ~0ULL : 0; break;
                    case 4: w = 1; break;
                    default: w = 1ULL << (chunk - 1); break;
                }
                w &= mask_bits(chunk);
                s.target_was_zero = m[0].zero();
                s.op.k            = K::Or;
                s.op.reg          = 0;
                s.op.ty           = uint8_t(pre_ty);
                s.op.n            = w;
                m[0].or64(w);
                pre_or_next = false;
                --pre_left;
                return true;
            }
        }
        if (e.exhausted() || main_count >= 40) {
            return false;
        }
        ++main_count;
        const int reg     = e.chance(80) ? 0 : 1;
        const int other   = 1 - reg;
        s.op.reg          = uint8_t(reg);
        s.target_was_zero = m[reg].zero();
        Nat           &v  = m[reg];
        uint32_t       pick = e.below(100);
        if (v.zero() && pick >= 29 && e.chance(55)) {
            // a zero register stays zero under most operations: give it a value again more often than not
            static const uint32_t regrow[] = {2, 8, 25, 36};
            pick                           = regrow[e.below(4)];
        }
        if (pick < 4) {
            int ty = pick_ty();
            do_set(s, e.chance(30) ? K::Ctor : K::Assign, reg, ty, scalar(ty_bits(ty), v));
        } else if (pick < 14) {
            int ty = pick_ty();
            do_add(s, reg, ty, scalar(ty_bits(ty), v), e.chance(30));
        } else if (pick < 23) {
            int ty = pick_ty();
            do_sub(s, reg, ty, scalar(ty_bits(ty), v), e.chance(30));
        } else if (pick < 29) {
            int ty   = pick_ty();
            s.op.k   = K::Or;
            s.op.ty  = uint8_t(ty);
            s.op.n   = scalar(ty_bits(ty), v);
            v.or64(s.op.n);
        } else if (pick < 34) {
            int ty   = pick_ty();
            s.op.k   = K::And;
            s.op.ty  = uint8_t(ty);
            s.op.n   = scalar(ty_bits(ty), v);
            v        = Nat::u64(v.low64() & s.op.n);
        } else if (pick < 38) { // Add(word, index)
            uint64_t w   = scalar(p.tw, v);
            unsigned ti  = top_index(v);
            unsigned idx;
            switch (e.below(5)) {
                case 0: idx = 0; break;
                case 1: idx = ti; break;
                case 2: idx = ti + 1; break;
                case 3: idx = p.max_index; break;
                default: idx = e.below(p.max_index + 1); break;
            }
            if (idx > p.max_index) {
                idx = p.max_index;
            }
            auto sum_at = [&](uint64_t ww, unsigned ii) {
                Nat t = Nat::u64(ww);
                t.shl(ii * p.tw);
                t.add(v);
                return t;
            };
            Nat sum = sum_at(w, idx);
            if (sum.bitlen() > p.bits) {
                idx = 0;
                sum = sum_at(w, idx);
                if (sum.bitlen() > p.bits) {
                    Nat room = Nat::pow2(p.bits);
                    room.sub(Nat::u64(1));
                    room.sub(v);
                    w   = room.low64();
                    sum = sum_at(w, idx);
                }
            }
            {
                Nat wordv = Nat::u64(v.word(idx, p.tw));
                wordv.add(Nat::u64(w));
                s.carry_across = wordv.bitlen() > p.tw;
            }
            s.op.k  = K::AddAt;
            s.op.n  = w;
            s.op.sh = idx;
            v       = sum;
        } else if (pick < 42) { // Subtract(word, index)
            uint64_t w  = scalar(p.tw, v);
            unsigned ti = top_index(v);
            unsigned idx;
            switch (e.below(4)) {
                case 0: idx = 0; break;
                case 1: idx = ti; break;
                case 2: idx = ti > 0 ? ti - 1 : 0; break;
                default: idx = e.below(ti + 1); break;
            }
            auto term = [&](uint64_t ww, unsigned ii) {
                Nat t = Nat::u64(ww);
                t.shl(ii * p.tw);
                return t;
            };
            if (e.chance(30)) { // remove exactly the top word (the index has to fall over every zero word below it)
                idx = ti;
                w   = v.word(ti, p.tw);
            }
            if (term(w, idx).cmp(v) > 0) {
                idx = ti;
                w   = v.word(ti, p.tw);
                if (e.chance(50) && w > 1) {
                    w = 1 + (w - 1) / 2;
                }
            }
            s.borrow_across = v.word(idx, p.tw) < w;
            s.op.k          = K::SubAt;
            s.op.n          = w;
            s.op.sh         = idx;
            v.sub(term(w, idx));
        } else if (pick < 54) { // multiply by a word
            uint64_t w = word_operand(v, false);
            Nat      t = v;
            t.mul64(w);
            if (t.bitlen() > p.bits) { // does not fit: a power of two that does
                unsigned k = p.bits - v.bitlen();
                if (k > p.tw - 1) {
                    k = p.tw - 1;
                }
                w = 1ULL << k;
                t = v;
                t.mul64(w);
            }
            s.op.k   = K::Mul;
            s.op.n   = w;
            s.op.alt = e.chance(50);
            v        = t;
        } else if (pick < 66) { // divide by a word
            uint64_t d          = word_operand(v, true);
            s.top_bit_divisor   = (d >> (p.tw - 1)) != 0;
            s.op.n              = d;
            if (p.tw == 64 && (d & 1) != 0 && s.top_bit_divisor && !v.zero()) {
                unsigned ti = top_index(v);
                uint64_t r  = v.word(ti, 64) % d;
                for (unsigned i = ti; i-- > 0;) {
                    const uint64_t wd   = v.word(i, 64);
                    const u128     part = ((u128(r) << 64) % d) + (wd % d);
                    s.div64_carry       = s.div64_carry || (part >> 64) != 0;
                    r                   = uint64_t(((u128(r) << 64) | wd) % d);
                }
            }
            uint64_t rem        = v.divmod64(d);
            if (e.chance(75)) {
                s.op.k    = K::Div;
                s.has_ret = true;
                s.ret     = rem;
            } else {
                s.op.k = K::DivAssign;
            }
        } else if (pick < 75) { // shift left
            const unsigned bl   = v.bitlen();
            const unsigned room = p.bits - bl;
            unsigned       sh;
            switch (e.below(10)) {
                case 0: sh = 0; break;
                case 1: sh = 1; break;
                case 2: sh = p.tw - 1; break;
                case 3: sh = p.tw; break;
                case 4: sh = p.tw + 1; break;
                case 5: sh = p.tw * e.below(p.max_index + 2); break;
                case 6: sh = room; break;
                case 7: sh = (room / p.tw) * p.tw; break;
                case 8: sh = p.total + e.below(2 * p.tw + 1); break;
                default: sh = e.below(p.total + 1); break;
            }
            if (bl != 0 && sh > room) {
                sh = room; // the largest shift that still fits
            }
            s.op.k   = K::Shl;
            s.op.sh  = sh;
            s.op.alt = e.chance(50);
            v.shl(sh);
        } else if (pick < 83) { // shift right
            const unsigned bl = v.bitlen();
            unsigned       sh;
            switch (e.below(12)) {
                case 0: sh = 0; break;
                case 1: sh = 1; break;
                case 2: sh = p.tw - 1; break;
                case 3: sh = p.tw; break;
                case 4: sh = p.tw + 1; break;
                case 5: sh = p.tw * e.below(p.max_index + 2); break;
                case 6: sh = bl > 0 ? bl - 1 : 0; break;
                case 7: sh = bl; break;
                case 8: sh = bl + 1; break;
                case 9: sh = p.total; break;
                case 10: sh = p.total + e.below(2 * p.tw + 1); break;
                default: sh = e.below(p.total + 1); break;
            }
            s.op.k   = K::Shr;
            s.op.sh  = sh;
            s.op.alt = e.chance(50);
            v.shr(sh);
        } else if (pick < 89 && !v.zero()) { // bit scans: documented precondition 'value should be bigger than zero'
            if (pick < 86) {
                s.op.k = K::FFB;
                s.ret  = v.ctz();
            } else {
                s.op.k = K::FLB;
                s.ret  = v.bitlen() - 1;
            }
            s.has_ret = true;
        } else if (pick < 93) { // comparisons with a word (also the replacement for a bit scan of zero)
            const uint64_t mk = mask_bits(p.tw);
            uint64_t       w;
            switch (e.below(6)) {
                case 0: w = v.low64() & mk; break;
                case 1: w = (v.low64() + 1) & mk; break;
                case 2: w = (v.low64() - 1) & mk; break;
                case 3: w = 0; break;
                case 4: w = mk; break;
                default: w = scalar(p.tw, v); break;
            }
            int      c    = v.cmp(Nat::u64(w)); // value ? w
            uint64_t mask = 0;
            mask |= uint64_t(c == 0) << 0;
            mask |= uint64_t(c != 0) << 1;
            mask |= uint64_t(c < 0) << 2;
            mask |= uint64_t(c <= 0) << 3;
            mask |= uint64_t(c > 0) << 4;
            mask |= uint64_t(c >= 0) << 5;
            mask |= uint64_t(c == 0) << 6;
            mask |= uint64_t(c != 0) << 7;
            mask |= uint64_t(c > 0) << 8;  // w <  value
            mask |= uint64_t(c >= 0) << 9; // w <= value
            mask |= uint64_t(c < 0) << 10; // w >  value
            mask |= uint64_t(c <= 0) << 11;
            s.op.k    = K::Cmp;
            s.op.n    = w;
            s.has_ret = true;
            s.ret     = mask;
        } else if (pick < 96) { // narrowing conversion: value mod 2^N
            int ty    = int(e.below(4));
            s.op.k    = K::Conv;
            s.op.ty   = uint8_t(ty);
            s.has_ret = true;
            s.ret     = v.low64() & mask_bits(ty_bits(ty));
        } else if (pick < 97) {
            s.op.k = K::Clear;
            v      = Nat{};
        } else {
            const uint32_t which = e.below(6);
            s.op.src             = uint8_t(other);
            if (which < 3) {
                s.op.k = K::CopyAssign;
                if (e.chance(10)) {
                    s.op.src = uint8_t(reg); // self assignment
                }
                v = m[s.op.src];
            } else if (which == 3) {
                s.op.k   = K::MoveAssign;
                v        = m[other];
                m[other] = Nat{}; // the moved-from object is cleared
            } else if (which == 4) {
                s.op.k = K::CopyCtor;
                v      = m[other];
            } else {
                s.op.k   = K::MoveCtor;
                v        = m[other];
                m[other] = Nat{};
            }
        }
        return true;
    }
};

// ---------------------------------------------------------------------------------------------------------------
// Double-word helper checks
// ---------------------------------------------------------------------------------------------------------------
template <typename T, unsigned TW>
void check_dw(const Case &c, pbt::Ctx &ctx) {
    const uint64_t mk = mask_bits(TW);
    if (c.dw == 1) {
        T       n  = T(c.a);
        const T hi = DoubleSize<T, TW>::Multiply(n, T(c.b));
        u128    ex = u128(c.a & mk) * u128(c.b & mk);
        u128    got = (u128(hi) << TW) | u128(n);
        if (got != ex) {
            ctx.deviation("dw" + std::to_string(TW) + "-multiply",
                          "DoubleSize<" + std::to_string(TW) + ">::Multiply(" + hx(c.a) + ", " + hx(c.b) + ") high:low = " + hx(uint64_t(hi)) + ":" +
                              hx(uint64_t(n)) + " expected " + hx(uint64_t(ex >> TW)) + ":" + hx(uint64_t(ex) & mk));
        }
    } else {
        // contract as used by BigInt::Divide: high is the running remainder (< divisor), divisor != 0
        T       high = T(c.a), low = T(c.b);
        const T d    = T(c.c);
        SizeT32 shift = 0;
        if (TW == 64) {
            shift = (TW - 1U) - Platform::FindLastBit(d); // exactly what BigInt::Divide passes
        }
        DoubleSize<T, TW>::Divide(high, low, d, shift);
        u128 num = (u128(c.a & mk) << TW) | u128(c.b & mk);
        u128 q = num / (c.c & mk), r = num % (c.c & mk);
        if (u128(low) != q || u128(high) != r) {
            std::string cls = "dw" + std::to_string(TW) + "-divide";
            if (TW == 64 && (c.c & 1) != 0) {
                // narrow class: odd divisor and (high * 2^64 mod divisor) + (low mod divisor) >= 2^64 (only possible above 2^63)
                const u128 part = ((u128(c.a) << 64) % c.c) + (c.b % c.c);
                if ((part >> 64) != 0) {
                    cls = "divide64-odd-divisor-remainder-carry";
                }
            }
            ctx.deviation(cls, "DoubleSize<" + std::to_string(TW) + ">::Divide(high=" + hx(c.a) + ", low=" + hx(c.b) + ", divisor=" + hx(c.c) +
                                   ") quotient:remainder = " + hx(uint64_t(low)) + ":" + hx(uint64_t(high)) + " expected " + hx(uint64_t(q)) + ":" +
                                   hx(uint64_t(r)));
        }
    }
    ctx.nontrivial();
}

void run_dw(const Case &c, pbt::Ctx &ctx) {
    if (c.dw == 2 && ((c.c & mask_bits(unsigned(c.word))) == 0 || (c.a & mask_bits(unsigned(c.word))) >= (c.c & mask_bits(unsigned(c.word))))) {
        ctx.fail("bad-case", "double-word divide case outside the helper's domain (needs high < divisor, divisor != 0)");
    }
    switch (c.word) {
        case 8: check_dw<unsigned char, 8>(c, ctx); break;
        case 16: check_dw<unsigned short, 16>(c, ctx); break;
        case 32: check_dw<unsigned int, 32>(c, ctx); break;
        default: check_dw<unsigned long long, 64>(c, ctx); break;
    }
}

// ---------------------------------------------------------------------------------------------------------------
// Sequence check
// ---------------------------------------------------------------------------------------------------------------
// Runs f in a forked child; true when the child finished normally. Used only for shifts of a zero value (see top).
bool survives(const std::function<void()> &f, std::string &how) {
    fflush(stdout);
    fflush(stderr);
    pid_t pid = fork();
    if (pid < 0) {
        return true; // cannot probe: execute in-process
    }
    if (pid == 0) {
        pbt::global_ctx() = nullptr; // the child must not overwrite the statistics file from the death callback
        int fd            = ::open("/dev/null", O_WRONLY);
        if (fd >= 0) {
            dup2(fd, 2);
        }
        f();
        _exit(0);
    }
    int st = 0;
    while (waitpid(pid, &st, 0) < 0 && errno == EINTR) {
    }
    if (WIFEXITED(st) && WEXITSTATUS(st) == 0) {
        return true;
    }
    how = WIFSIGNALED(st) ? ("signal " + std::to_string(WTERMSIG(st))) : ("exit status " + std::to_string(WEXITSTATUS(st)) + " (sanitizer report)");
    return false;
}

std::string words_text(const Snap &s, unsigned tw) {
    std::string o = "index=" + std::to_string(s.index) + " words(low..high)=[";
    char        b[24];
    size_t      last = 0;
    for (size_t i = 0; i < s.words.size(); ++i) {
        if (s.words[i] != 0) {
            last = i;
        }
    }
    if (last < s.index) {
        last = s.index;
    }
    for (size_t i = 0; i <= last && i < s.words.size(); ++i) {
        snprintf(b, sizeof b, "%s%0*llx", i ? " " : "", int(tw / 4), (unsigned long long)s.words[i]);
        o += b;
        if (i == 40 && last > 44) {
            o += " ...";
            i = last - 3;
        }
    }
    return o + "]";
}

void run_seq(const Case &c, pbt::Ctx &ctx) {
    static bool selftest_done = false;
    if (!selftest_done) {
        model_selftest();
        selftest_done = true;
    }
    const Params p = params_of(c);
    std::unique_ptr<IDev> dev(make_dev(c.word, c.bits));
    if (!dev) {
        ctx.fail("bad-case", "unsupported word size / width");
    }
    // The storage the library declares for this width: whole words, at least Width_T bits.
    if (dev->tw() != p.tw || dev->total_bits() != p.total || dev->max_index() != p.max_index) {
        ctx.fail("geometry", "TypeWidth/TotalBits/MaxIndex = " + std::to_string(dev->tw()) + "/" + std::to_string(dev->total_bits()) + "/" +
                                 std::to_string(dev->max_index()) + " expected " + std::to_string(p.tw) + "/" + std::to_string(p.total) + "/" +
                                 std::to_string(p.max_index));
    }

    // -- pass 1: reference only; labels and the non-triviality rule --
    {
        Decoder  d(c, p);
        Step     s;
        unsigned ops = 0;
        bool     multi = false, zero_op = false, carry = false, borrow = false, topdiv = false, pre = false;
        bool     kinds[int(K::Count)] = {false};
        while (d.next(s)) {
            ++ops;
            kinds[int(s.op.k)] = true;
            multi              = multi || d.m[0].bitlen() > p.tw || d.m[1].bitlen() > p.tw;
            bool arith         = !(s.op.k == K::Ctor || s.op.k == K::Assign || s.op.k == K::Cmp || s.op.k == K::Clear || s.op.k == K::CopyAssign ||
                           s.op.k == K::MoveAssign || s.op.k == K::CopyCtor || s.op.k == K::MoveCtor);
            zero_op            = zero_op || (arith && s.target_was_zero);
            carry              = carry || s.carry_across;
            borrow             = borrow || s.borrow_across;
            topdiv             = topdiv || s.top_bit_divisor;
            pre                = pre || s.preamble;
        }
        ctx.label("word=" + std::to_string(c.word));
        ctx.label("width=" + std::to_string(c.bits));
        ctx.label(ops <= 2 ? "ops:1-2" : ops <= 9 ? "ops:3-9" : ops <= 29 ? "ops:10-29" : ops <= 99 ? "ops:30-99" : "ops:100+");
        for (int k = 0; k < int(K::Count); ++k) {
            ctx.label(std::string("has-op:") + k_name(K(k)), kinds[k]);
        }
        ctx.label("multi-word-value", multi);
        ctx.label("op-on-zero-value", zero_op);
        ctx.label("carry-across-words", carry);
        ctx.label("borrow-across-words", borrow);
        ctx.label("divisor-with-top-bit", topdiv);
        ctx.label("built-by-preamble", pre);
        if (ops >= 3 && multi) {
            ctx.nontrivial();
        }
    }

    // -- pass 2: the library --
    static const bool                 no_probe = getenv("VERIF_C19_NOPROBE") != nullptr;
    // Probe results per (word, width, operation, amount, state flags). A clean zero object (all words zero, Index 0) is
    // one single state, so a crash observed for it once is reported for the identical operation without forking again.
    static std::set<std::string>              probe_survived;
    static std::map<std::string, std::string> probe_crashed;
    Decoder                           d(c, p);
    Step                              s;
    unsigned                          step_no = 0;
    // Attribution only (never asserted): the operation after which non-zero words above Index() / a zero top word
    // with Index() > 0 were first seen.
    struct Origin {
        bool        set{false};
        K           kind{K::Clear};
        std::string where;
    };
    Origin stale_origin[2], unnorm_origin[2];
    Snap   snap;

    auto where = [&](const Step &st) { return "step " + std::to_string(step_no) + " " + op_text(st.op) + " [" + k_name(st.op.k) + "]"; };

    while (d.next(s)) {
        ++step_no;
        const Origin stale_before  = stale_origin[s.op.reg];
        const Origin unnorm_before = unnorm_origin[s.op.reg];

        if ((s.op.k == K::Shl || s.op.k == K::Shr) && s.target_was_zero && !no_probe) {
            const std::string key = std::to_string(c.word) + "/" + std::to_string(c.bits) + "/" + k_name(s.op.k) + "/" + std::to_string(s.op.sh) +
                                    (stale_before.set ? "/stale" : "") + (unnorm_before.set ? "/unnorm" : "");
            if (probe_survived.count(key) == 0) {
                std::string how;
                bool        ok        = true;
                const bool  clean     = !stale_before.set && !unnorm_before.set;
                auto        crashed_b = probe_crashed.find(key);
                if (clean && crashed_b != probe_crashed.end()) {
                    ok  = false;
                    how = crashed_b->second;
                } else {
                    ok = survives(
                        [&]() {
                            Ret r;
                            dev->apply(s.op, r);
                        },
                        how);
                    if (!ok && clean) {
                        probe_crashed[key] = how;
                    }
                }
                if (!ok) {
                    ctx.deviation(std::string(s.op.k == K::Shl ? "shift-left" : "shift-right") + "-of-zero-crashes",
                                  where(s) + ": shifting a zero value (storage " + std::to_string(p.max_index + 1) + " words of " + std::to_string(p.tw) +
                                      " bits) ended the probing child process with " + how);
                }
                probe_survived.insert(key);
            }
        }

        Ret r;
        dev->apply(s.op, r);

        if (s.op.k == K::CopyCtor || s.op.k == K::MoveCtor || s.op.k == K::Ctor) { // a new object: nothing inherited
            stale_origin[s.op.reg]  = Origin{};
            unnorm_origin[s.op.reg] = Origin{};
        }

        // returned values
        if (s.has_ret && (!r.has || r.v != s.ret)) {
            std::string cls, exp = hx(s.ret), got = hx(r.v), extra;
            switch (s.op.k) {
                case K::Div: cls = s.div64_carry ? "divide64-odd-divisor-remainder-carry" : "remainder-wrong"; break;
                case K::FFB: cls = "find-first-bit-wrong"; break;
                case K::FLB: cls = "find-last-bit-wrong"; break;
                case K::Cmp: cls = "comparison-wrong"; break;
                default: cls = "conversion-wrong"; break;
            }
            if (s.op.k == K::FFB || s.op.k == K::FLB) {
                exp = std::to_string(s.ret);
                got = std::to_string(r.v);
            }
            if (unnorm_before.set) {
                cls   = std::string("zero-top-word-after-") + k_name(unnorm_before.kind);
                extra = " (Index() > 0 with a zero top word since " + unnorm_before.where + ")";
            }
            dev->snapshot(s.op.reg, 0, snap);
            ctx.deviation(cls, where(s) + ": returned " + got + " expected " + exp + extra + "; " + words_text(snap, p.tw));
        }

        for (int reg = 0; reg < 2; ++reg) {
            const Nat     &exp = d.m[reg];
            const uint64_t lw  = exp.low64() & mask_bits(p.tw);
            dev->snapshot(reg, lw, snap);
            const std::string rs = "r" + std::to_string(reg);
            if (snap.index > p.max_index) {
                ctx.fail("index-out-of-range", where(s) + ": " + rs + ".Index()=" + std::to_string(snap.index) + " > MaxIndex()=" + std::to_string(p.max_index));
            }
            const Nat got = Nat::from_words(snap.words, size_t(snap.index) + 1, p.tw);
            if (got != exp) {
                std::string cls = std::string("value-wrong-after-") + k_name(s.op.k);
                std::string extra;
                if ((s.op.k == K::Div || s.op.k == K::DivAssign) && s.div64_carry && reg == s.op.reg) {
                    cls = "divide64-odd-divisor-remainder-carry";
                }
                if (reg == s.op.reg && stale_before.set) {
                    cls   = std::string("stale-words-after-") + k_name(stale_before.kind);
                    extra = " (non-zero words above Index() were left behind by " + stale_before.where + ")";
                } else if (reg == s.op.reg && unnorm_before.set) {
                    cls   = std::string("zero-top-word-after-") + k_name(unnorm_before.kind);
                    extra = " (Index() > 0 with a zero top word since " + unnorm_before.where + ")";
                }
                ctx.deviation(cls, where(s) + ": " + rs + " holds " + got.hex() + " expected " + exp.hex() + extra + "; " + words_text(snap, p.tw));
            }
            // predicates
            const bool  big = exp.bitlen() > p.tw;
            std::string bad;
            if (snap.is_zero != exp.zero()) {
                bad += " IsZero()=" + std::to_string(snap.is_zero);
            }
            if (snap.not_zero != !exp.zero()) {
                bad += " NotZero()=" + std::to_string(snap.not_zero);
            }
            if (snap.is_big != big) {
                bad += " IsBig()=" + std::to_string(snap.is_big);
            }
            if (snap.number != lw) {
                bad += " Number()=" + hx(snap.number);
            }
            if (snap.eq_low != !big) {
                bad += " (==low word)=" + std::to_string(snap.eq_low);
            }
            if (snap.lt_low) {
                bad += " (<low word)=1";
            }
            if (snap.gt_low != big) {
                bad += " (>low word)=" + std::to_string(snap.gt_low);
            }
            const bool top_zero = snap.index > 0 && snap.words[snap.index] == 0;
            if (top_zero && !unnorm_origin[reg].set) {
                unnorm_origin[reg] = Origin{true, s.op.k, where(s)};
            } else if (!top_zero) {
                unnorm_origin[reg] = Origin{};
            }
            if (!bad.empty()) {
                std::string cls = "predicate-wrong";
                std::string extra;
                if (top_zero) {
                    cls   = std::string("zero-top-word-after-") + k_name(unnorm_origin[reg].kind);
                    extra = " (Index() > 0 with a zero top word since " + unnorm_origin[reg].where + ")";
                }
                ctx.deviation(cls, where(s) + ": " + rs + " value " + exp.hex() + " but" + bad + extra + "; " + words_text(snap, p.tw));
            }
            bool stale = false;
            for (size_t i = size_t(snap.index) + 1; i < snap.words.size(); ++i) {
                stale = stale || snap.words[i] != 0;
            }
            if (stale && !stale_origin[reg].set) {
                stale_origin[reg] = Origin{true, s.op.k, where(s)};
                ctx.label(std::string("observed:stale-words-above-index-after-") + k_name(s.op.k));
            } else if (!stale) {
                stale_origin[reg] = Origin{};
            }
        }
    }
}

std::string ops_text(const Case &c) {
    const Params p = params_of(c);
    Decoder      d(c, p);
    Step         s;
    std::string  o;
    unsigned     n = 0;
    while (d.next(s)) {
        if (n++ != 0) {
            o += "; ";
        }
        o += op_text(s.op);
    }
    return o;
}

uint64_t parse_u64(const std::string &s) { return strtoull(s.c_str(), nullptr, 0); }

// boundary-biased operand list for the double-word helper sweeps
std::vector<uint64_t> dw_values(unsigned tw) {
    std::set<uint64_t> v;
    const uint64_t     mk = mask_bits(tw);
    for (unsigned k = 0; k < tw; ++k) {
        uint64_t b = 1ULL << k;
        v.insert(b & mk);
        v.insert((b - 1) & mk);
        v.insert((b + 1) & mk);
        if (k % 4 == 0 || k + 3 >= tw) {
            v.insert((mk - b) & mk);
        }
    }
    for (uint64_t x : {0ULL, 1ULL, 2ULL, 3ULL, 5ULL, 7ULL, 9ULL, 10ULL, 100ULL, 255ULL, 256ULL, 1000ULL, 10000ULL, 65535ULL, 65536ULL, 1000000000ULL, 4294967295ULL,
                       4294967296ULL, 4294967297ULL, 10000000000000000000ULL, 7450580596923828125ULL, 1220703125ULL, 15625ULL, 0xAAAAAAAAAAAAAAAAULL,
                       0x5555555555555555ULL, 0x8000000080000000ULL, 0x80000000FFFFFFFFULL, 0xFFFFFFFF00000000ULL, 0xFFFFFFFF00000001ULL, 0x00000001FFFFFFFFULL,
                       0xFFFFFFFEFFFFFFFFULL, 0x7FFFFFFF80000000ULL, 0xFFFFFFFF80000000ULL, 0x8000000000000001ULL, 0xC000000000000001ULL}) {
        v.insert(x & mk);
    }
    uint64_t x = 0x243F6A8885A308D3ULL; // fixed stream (digits of pi), no clock, no rand()
    for (int i = 0; i < 20; ++i) {
        x ^= x << 13;
        x ^= x >> 7;
        x ^= x << 17;
        v.insert((x >> (i % 3 == 0 ? (x % tw) : 0)) & mk);
        v.insert((x | (1ULL << (tw - 1))) & mk);
    }
    return std::vector<uint64_t>(v.begin(), v.end());
}

struct H {
    using Case = ::Case;
    static const char *name() { return "C19 BigInt holds the exact integer after every operation that fits"; }
    static rc::Gen<Case> gen() {
        using namespace rc;
        std::vector<int> widths(std::begin(kWidths), std::end(kWidths));
        widths.push_back(64);
        widths.push_back(128);
        widths.push_back(256);
        return gen::map(gen::tuple(gen::resize(300, gen::container<std::vector<uint8_t>>(gen::arbitrary<uint8_t>())), pbt::pick<int>({8, 16, 32, 64, 64}),
                                   pbt::pick<int>(widths)),
                        [](std::tuple<std::vector<uint8_t>, int, int> t) {
                            Case c;
                            c.bytes = std::get<0>(t);
                            c.word  = std::get<1>(t);
                            c.bits  = std::get<2>(t);
                            return c;
                        });
    }
    // coverage-guided mode: selector bytes, then entropy
    static bool from_fuzz(const uint8_t *d, size_t n, Case &c) {
        pbt::FuzzBytes f(d, n);
        static const int wd[] = {8, 16, 32, 64};
        uint8_t          s    = f.sel();
        c.word = wd[s & 3];
        c.bits = kWidths[(s >> 2) % 10];
        c.bytes = f.rest();
        return true;
    }
    static std::string to_text(const Case &c) {
        pbt::KV kv;
        if (c.dw != 0) {
            kv.put("dw", c.dw == 1 ? "multiply" : "divide");
            kv.put("word", c.word);
            kv.put("a", hx(c.a));
            kv.put("b", hx(c.b));
            kv.put("c", hx(c.c));
            return kv.text();
        }
        std::string hex;
        char        b[4];
        for (uint8_t x : c.bytes) {
            snprintf(b, sizeof b, "%02x", x);
            hex += b;
        }
        kv.put("bytes", hex);
        kv.put("word", c.word);
        kv.put("bits", c.bits);
        kv.put("ops", ops_text(c)); // human-readable only; from_text ignores it
        return kv.text();
    }
    static Case from_text(const std::string &t) {
        pbt::KV kv = pbt::KV::parse(t);
        Case    c;
        c.word = int(kv.geti("word", 64));
        if (kv.has("dw")) {
            c.dw = kv.get("dw") == "multiply" ? 1 : 2;
            c.a  = parse_u64(kv.get("a"));
            c.b  = parse_u64(kv.get("b"));
            c.c  = parse_u64(kv.get("c"));
            return c;
        }
        std::string hex = kv.get("bytes");
        for (size_t i = 0; i + 1 < hex.size(); i += 2) {
            c.bytes.push_back(uint8_t(strtoul(hex.substr(i, 2).c_str(), nullptr, 16)));
        }
        c.bits = int(kv.geti("bits", 128));
        return c;
    }
    static void run(const Case &c, pbt::Ctx &ctx) {
        if (c.dw != 0) {
            run_dw(c, ctx);
        } else {
            run_seq(c, ctx);
        }
    }

    static void enumerate(pbt::Ctx &ctx, unsigned shard, unsigned nshards, const std::string &what) {
        ctx.distinct_by_construction = true;
        uint64_t idx                 = 0;
        Case     c;
        if (what == "dw8") {
            c.word = 8;
            c.dw   = 1;
            for (c.a = 0; c.a < 256; ++c.a) {
                for (c.b = 0; c.b < 256; ++c.b) {
                    if ((idx++ % nshards) == shard && pbt::exec_case_fast<H>(ctx, c) == pbt::Status::Fail) {
                        return;
                    }
                }
            }
            c.dw = 2;
            for (c.c = 1; c.c < 256; ++c.c) {       // divisor
                for (c.a = 0; c.a < c.c; ++c.a) {   // high word = running remainder < divisor
                    for (c.b = 0; c.b < 256; ++c.b) { // low word
                        if ((idx++ % nshards) == shard && pbt::exec_case_fast<H>(ctx, c) == pbt::Status::Fail) {
                            return;
                        }
                    }
                }
            }
            ctx.exhaustive      = true;
            ctx.exhaustive_what = "DoubleSize<unsigned char, 8>: Multiply on all 65,536 (number, multiplier) pairs; Divide on all 8,355,840 "
                                  "(high < divisor, low, divisor != 0) triples (sharded)";
            return;
        }
        if (what == "dw16" || what == "dw32" || what == "dw64") {
            c.word                        = atoi(what.c_str() + 2);
            const std::vector<uint64_t> v = dw_values(unsigned(c.word));
            c.dw                          = 1;
            for (uint64_t a : v) {
                for (uint64_t b : v) {
                    c.a = a;
                    c.b = b;
                    if ((idx++ % nshards) == shard && pbt::exec_case_fast<H>(ctx, c) == pbt::Status::Fail) {
                        return;
                    }
                }
            }
            c.dw = 2;
            for (uint64_t dv : v) {
                if (dv == 0) {
                    continue;
                }
                for (uint64_t hi : v) {
                    if (hi >= dv) {
                        continue;
                    }
                    for (uint64_t lo : v) {
                        c.a = hi;
                        c.b = lo;
                        c.c = dv;
                        if ((idx++ % nshards) == shard && pbt::exec_case_fast<H>(ctx, c) == pbt::Status::Fail) {
                            return;
                        }
                    }
                }
            }
            return; // a sample, not exhaustive
        }
        if (what.rfind("dwq", 0) == 0) {
            // "dwq<W>-<M>": M million divide cases per shard built backwards from the answer: dividend = q * divisor + r with a
            // divisor from a fixed pseudo-random stream (several shapes), a quotient whose half-word digits sit at the boundaries
            // where the schoolbook digit estimate is too large by one or two (all-ones digits, 2^h, 2^h +- 1, random), and a
            // remainder at either end of [0, divisor) - the operands a division's correction steps depend on, and which
            // independent random operands reach with probability ~2^-32.
            c.word            = atoi(what.c_str() + 3);
            const unsigned tw = unsigned(c.word);
            const size_t   dash = what.find('-');
            const uint64_t n  = (dash == std::string::npos ? 1 : strtoull(what.c_str() + dash + 1, nullptr, 10)) * 1000000ULL;
            const uint64_t mk = mask_bits(tw);
            const unsigned h  = tw / 2;
            const uint64_t hm = mask_bits(h);
            uint64_t       x  = 0x9E3779B97F4A7C15ULL * (uint64_t(shard) + 1) + tw;
            auto           next = [&x]() {
                x ^= x << 13;
                x ^= x >> 7;
                x ^= x << 17;
                return x;
            };
            c.dw = 2;
            for (uint64_t i = 0; i < n; ++i) {
                uint64_t r0 = next(), r1 = next(), r2 = next(), r3 = next();
                uint64_t d  = r1 & mk;
                switch (r0 & 7) {
                    case 0: d >>= (r0 >> 8) % tw; break;                  // any magnitude
                    case 1: d |= (1ULL << (tw - 1)); break;               // normalised
                    case 2: d = (d & ~hm) | hm; break;                    // low half all ones
                    case 3: d = (d & hm) | (hm << h); break;              // high half all ones
                    case 4: d = (d | hm) & ~(hm << h) | (1ULL << (tw - 1)); break; // 0x8000..FFFF..
                    default: break;
                }
                d &= mk;
                if (d == 0) {
                    d = 1;
                }
                auto digit = [&](uint64_t sel, uint64_t rnd) -> uint64_t {
                    switch (sel & 7) {
                        case 0: return hm;
                        case 1: return hm - 1;
                        case 2: return 0;
                        case 3: return 1;
                        case 4: return (1ULL << (h - 1));
                        case 5: return (1ULL << (h - 1)) - 1;
                        default: return rnd & hm;
                    }
                };
                const uint64_t q = ((digit(r0 >> 16, r2 >> 7) << h) | digit(r0 >> 19, r2 >> 29)) & mk;
                uint64_t       r;
                switch ((r0 >> 24) & 7) {
                    case 0: r = 0; break;
                    case 1: r = d - 1; break;
                    case 2: r = d - 1 - ((r3 & 0xFF) % d); break;
                    case 3: r = (r3 & hm) % d; break;
                    case 4: r = d - 1 - ((r3 & hm) % d); break;
                    default: r = r3 % d; break;
                }
                const u128 num = u128(q) * u128(d) + u128(r);
                c.a            = uint64_t(num >> tw) & mk;
                c.b            = uint64_t(num) & mk;
                c.c            = d;
                if (pbt::exec_case_fast<H>(ctx, c) == pbt::Status::Fail) {
                    return;
                }
            }
            return;
        }
        fprintf(stderr, "unknown enumeration '%s' (dw8, dw16, dw32, dw64, dwq<W>-<M>)\n", what.c_str());
        exit(3);
    }
};

} // namespace

PBT_MAIN(H)
