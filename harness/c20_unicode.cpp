// C20 — code points encode to standard UTF-8/16/32 and \u escapes decode to them.
// Oracle: an encoder written here from the Unicode standard (independent of Unicode.hpp).
#include "common/pbt.hpp"
#include <sys/mman.h>

using namespace Qentem;

namespace {

struct Case {
    uint32_t cp{0};    // scalar value
    int      width{1}; // 1,2,4 bytes per unit
    int      form{0};  // 0 direct ToUTF, 1 \u upper, 2 \u lower, 3 \u mixed case embedded in text
};

// ---- reference encoder (standard) ----
std::vector<uint32_t> ref_encode(uint32_t cp, int width) {
    std::vector<uint32_t> o;
    if (width == 4) {
        o.push_back(cp);
    } else if (width == 2) {
        if (cp < 0x10000) {
            o.push_back(cp);
        } else {
            uint32_t v = cp - 0x10000;
            o.push_back(0xD800 + (v >> 10));
            o.push_back(0xDC00 + (v & 0x3FF));
        }
    } else {
        if (cp <= 0x7F) {
            o.push_back(cp);
        } else if (cp <= 0x7FF) {
            o.push_back(0xC0 | (cp >> 6));
            o.push_back(0x80 | (cp & 0x3F));
        } else if (cp <= 0xFFFF) {
            o.push_back(0xE0 | (cp >> 12));
            o.push_back(0x80 | ((cp >> 6) & 0x3F));
            o.push_back(0x80 | (cp & 0x3F));
        } else {
            o.push_back(0xF0 | (cp >> 18));
            o.push_back(0x80 | ((cp >> 12) & 0x3F));
            o.push_back(0x80 | ((cp >> 6) & 0x3F));
            o.push_back(0x80 | (cp & 0x3F));
        }
    }
    return o;
}

template <typename Char_T>
uint32_t unit(Char_T c) {
    if (sizeof(Char_T) == 1) {
        return uint32_t((unsigned char)c);
    }
    if (sizeof(Char_T) == 2) {
        return uint32_t(uint16_t(c));
    }
    return uint32_t(c);
}

void hex4(std::string &o, uint32_t v, int style, uint32_t salt) {
    static const char *U = "0123456789ABCDEF";
    static const char *L = "0123456789abcdef";
    for (int i = 3; i >= 0; --i) {
        uint32_t    d = (v >> (4 * i)) & 0xF;
        const char *t = (style == 1) ? U : (style == 2) ? L : (((salt >> i) & 1) ? U : L);
        o.push_back(t[d]);
    }
}

std::string escape_text(uint32_t cp, int style) {
    std::string o;
    if (cp < 0x10000) {
        o += "\\u";
        hex4(o, cp, style, cp * 7 + 3);
    } else {
        uint32_t v  = cp - 0x10000;
        uint32_t hi = 0xD800 + (v >> 10), lo = 0xDC00 + (v & 0x3FF);
        o += "\\u";
        hex4(o, hi, style, cp * 5 + 1);
        o += "\\u";
        hex4(o, lo, style, cp * 3 + 2);
    }
    return o;
}

// form 5: the scalars that stand, escaped, directly against the escape of c.cp - one to four in front, one to four behind, drawn
// from the ranges whose escapes look alike at their first digits (D000-D7FF next to the surrogates D800-DFFF, astral pairs, E000.., ASCII)
std::vector<uint32_t> run_neighbours(uint32_t cp, unsigned salt) {
    std::vector<uint32_t> o;
    uint32_t              h = cp * 2654435761u + salt * 40503u + 17u;
    const unsigned        n = 1 + (h >> 28) % 4;
    for (unsigned i = 0; i < n; ++i) {
        h = h * 1664525u + 1013904223u;
        switch ((h >> 24) % 6) {
            case 0: o.push_back(0xD000 + (h >> 4) % 0x800); break;
            case 1: o.push_back(0x10000 + (h >> 4) % 0x100000); break;
            case 2: o.push_back(0xE000 + (h >> 4) % 0x1FFE); break;
            case 3: o.push_back(0x20 + (h >> 4) % 0x5F); break;
            case 4: o.push_back(0xD700 + (h >> 4) % 0x100); break;
            default: o.push_back((h >> 4) % 0xD800); break;
        }
    }
    return o;
}

// form 6: the escape of c.cp in front of a plain run, in a document that is mapped a multiple of 2^32 units (plus a few) away from the
// storage of the caller's scratch stream, which has to grow for the run: the decoded string is the scalar's encoding and the run, not
// the stream's own content (a pointer difference narrowed to the 32-bit size type takes the document for a part of the stream)
template <typename Char_T>
void run_far(const Case &c, pbt::Ctx &ctx) {
    std::string doc = "[\"" + escape_text(c.cp, 3);
    const unsigned run = 40 + (c.cp % 90);
    for (unsigned i = 0; i < run; ++i) {
        doc.push_back(char('a' + (i + c.cp) % 26));
    }
    doc += "\"]";
    std::vector<uint32_t> expect = ref_encode(c.cp, int(sizeof(Char_T)));
    for (unsigned i = 0; i < run; ++i) {
        expect.push_back(uint32_t('a' + (i + c.cp) % 26));
    }
    StringStream<Char_T> stream;
    for (int i = 0; i < 12; ++i) {
        stream += Char_T('s');
    }
    stream.Clear(); // storage of a dozen units, nothing in it
    if (stream.First() == nullptr && stream.Storage() == nullptr) {
        return;
    }
    const Char_T   *own  = stream.Storage();
    const uintptr_t want = uintptr_t(own) + (uintptr_t(1 + c.cp % 3) << 32) * sizeof(Char_T) - uintptr_t(2 + c.cp % 7) * sizeof(Char_T);
    const uintptr_t page = want & ~uintptr_t(4095);
    const size_t    len  = size_t((want - page) + doc.size() * sizeof(Char_T) + 4095) & ~size_t(4095);
    void           *map  = mmap(reinterpret_cast<void *>(page), len, PROT_READ | PROT_WRITE, MAP_PRIVATE | MAP_ANONYMOUS | MAP_FIXED_NOREPLACE, -1, 0);
    if (map == MAP_FAILED || map != reinterpret_cast<void *>(page)) {
        if (map != MAP_FAILED) {
            munmap(map, len);
        }
        ctx.label("far-document-address-taken");
        return;
    }
    Char_T *buf = reinterpret_cast<Char_T *>(want);
    for (size_t i = 0; i < doc.size(); ++i) {
        buf[i] = Char_T((unsigned char)doc[i]);
    }
    std::vector<uint32_t> got;
    bool                  shape = true;
    {
        Value<Char_T> v = JSON::Parse(stream, static_cast<const Char_T *>(buf), SizeT(doc.size()));
        shape           = v.IsArray() && v.Size() == 1 && v.GetValue(0) != nullptr && v.GetValue(0)->IsString();
        if (shape) {
            const Value<Char_T> *s = v.GetValue(0);
            for (SizeT i = 0; i < s->Length(); ++i) {
                got.push_back(unit(s->StringStorage()[i]));
            }
        }
    }
    munmap(map, len);
    ctx.label("far-document-parsed");
    if (!shape) {
        ctx.fail("escape-rejected", "document with \\u escape (mapped far from the scratch stream) was not parsed to [string]: " + doc);
    }
    if (got != expect) {
        ctx.deviation("encoding-mismatch-far-document", "got " + pbt::enc_units(got) + " expected " + pbt::enc_units(expect));
    }
}

// form 7: the escape at the end of the second of two huge strings (0.3 M units + an escape, then 5 M units + the escape + 'z'): the
// parser's scratch stream is already large when a run several times its capacity arrives
template <typename Char_T>
void run_huge(const Case &c, pbt::Ctx &ctx) {
    const size_t n1 = 300000 + (c.cp % 1000), n2 = 5000000 + (c.cp % 4096);
    std::string  doc = "[\"";
    doc.append(n1, 'a');
    doc += "\\u00e9\",\"";
    doc.append(n2, 'b');
    doc += escape_text(c.cp, 3);
    doc += "z\"]";
    Char_T *buf = static_cast<Char_T *>(malloc(doc.size() * sizeof(Char_T)));
    for (size_t i = 0; i < doc.size(); ++i) {
        buf[i] = Char_T((unsigned char)doc[i]);
    }
    Value<Char_T> v = JSON::Parse(buf, SizeT(doc.size()));
    free(buf);
    if (!v.IsArray() || v.Size() != 2 || v.GetValue(1) == nullptr || !v.GetValue(1)->IsString()) {
        ctx.fail("escape-rejected", "two huge strings with \\u escapes were not parsed to [string, string]");
    }
    const Value<Char_T>  *s      = v.GetValue(1);
    std::vector<uint32_t> expect = ref_encode(c.cp, int(sizeof(Char_T)));
    const size_t          want   = n2 + expect.size() + 1;
    bool                  ok     = size_t(s->Length()) == want;
    for (size_t i = 0; ok && i < n2; ++i) {
        ok = unit(s->StringStorage()[i]) == 'b';
    }
    for (size_t i = 0; ok && i < expect.size(); ++i) {
        ok = unit(s->StringStorage()[n2 + i]) == expect[i];
    }
    ok = ok && unit(s->StringStorage()[want - 1]) == 'z';
    if (!ok) {
        ctx.deviation("encoding-mismatch-huge-strings", "the second string (5 M units, the escape, 'z') came back with length " + std::to_string(s->Length()) + " or other content");
    }
}

template <typename Char_T>
void run_width(const Case &c, pbt::Ctx &ctx) {
    if (c.form == 6) {
        run_far<Char_T>(c, ctx);
        return;
    }
    if (c.form == 7) {
        run_huge<Char_T>(c, ctx);
        return;
    }
    std::vector<uint32_t> expect = ref_encode(c.cp, int(sizeof(Char_T)));
    std::vector<uint32_t> got;
    std::vector<uint32_t> pre, post;
    if (c.form == 0) {
        StringStream<Char_T> ss;
        Unicode::ToUTF<Char_T>(c.cp, ss);
        for (SizeT i = 0; i < ss.Length(); ++i) {
            got.push_back(unit(ss.First()[i]));
        }
    } else {
        std::string doc = "[\"";
        // form 3: the escape sits inside a longer string. What surrounds it varies with the scalar: plain letters, hex-digit
        // characters directly before and after the escape (they must not be taken for part of it), an escaped backslash in
        // front, another escape behind.
        static const char *pres[]  = {"ab", "0", "d8", "x\\\\", "", "F"};
        static const char *pres_u[] = {"ab", "0", "d8", "x\\", "", "F"};
        static const char *posts[] = {"yz", "abc", "09", "Ff", "e5x", "d", "\\u0041", ""};
        static const char *posts_u[] = {"yz", "abc", "09", "Ff", "e5x", "d", "A", ""};
        if (c.form == 4) { // the escape sits far into a long string (thousands of units in front of it), another one behind
            static const unsigned lens[] = {4000, 16383, 16384, 16385, 20000, 66000};
            const unsigned        L      = lens[(c.cp + (c.cp >> 8)) % 6];
            doc.append(L, 'a');
            pre.assign(L, 'a');
        }
        if (c.form == 3) {
            const unsigned a = (c.cp * 7 + 1) % 6;
            doc += pres[a];
            for (const char *q = pres_u[a]; *q; ++q) {
                pre.push_back((unsigned char)*q);
            }
        }
        if (c.form == 5) {
            for (uint32_t x : run_neighbours(c.cp, 1)) {
                doc += escape_text(x, 3);
                for (uint32_t u : ref_encode(x, int(sizeof(Char_T)))) {
                    pre.push_back(u);
                }
            }
        }
        doc += escape_text(c.cp, c.form == 5 ? 3 : c.form);
        if (c.form == 5) {
            for (uint32_t x : run_neighbours(c.cp, 2)) {
                doc += escape_text(x, 3);
                for (uint32_t u : ref_encode(x, int(sizeof(Char_T)))) {
                    post.push_back(u);
                }
            }
        }
        if (c.form == 4) {
            doc += " tail\\u0041";
            for (const char *q = " tailA"; *q; ++q) {
                post.push_back((unsigned char)*q);
            }
        }
        if (c.form == 3) {
            const unsigned b = (c.cp * 5 + (c.cp >> 10) + 3) % 8;
            doc += posts[b];
            for (const char *q = posts_u[b]; *q; ++q) {
                post.push_back((unsigned char)*q);
            }
        }
        doc += "\"]";
        // exact-size heap buffer, no terminator
        Char_T *buf = static_cast<Char_T *>(malloc(doc.size() * sizeof(Char_T)));
        for (size_t i = 0; i < doc.size(); ++i) {
            buf[i] = Char_T((unsigned char)doc[i]);
        }
        {
            Value<Char_T> v = JSON::Parse(buf, SizeT(doc.size()));
            free(buf);
            if (!v.IsArray() || v.Size() != 1 || v.GetValue(0) == nullptr || !v.GetValue(0)->IsString()) {
                ctx.fail("escape-rejected", "document with \\u escape was not parsed to [string]: " + doc);
            }
            const Value<Char_T> *s = v.GetValue(0);
            for (SizeT i = 0; i < s->Length(); ++i) {
                got.push_back(unit(s->StringStorage()[i]));
            }
        }
    }
    std::vector<uint32_t> full = pre;
    full.insert(full.end(), expect.begin(), expect.end());
    full.insert(full.end(), post.begin(), post.end());
    if (got != full) {
        std::string cls = "encoding-mismatch";
        if (c.form != 0 && c.cp >= 0x10000 && ((0xD800 + ((c.cp - 0x10000) >> 10)) >> 8) != 0xD8) {
            cls = "escape-high-surrogate-above-D8FF"; // narrow class: pair whose high half is D900..DBFF
        }
        ctx.deviation(cls, "got " + pbt::enc_units(got) + " expected " + pbt::enc_units(full));
    }
}

struct H {
    using Case = ::Case;
    static const char *name() { return "C20 unicode"; }

    static rc::Gen<Case> gen() {
        using namespace rc;
        // boundary-heavy mixture over the scalar range
        auto boundary = pbt::pick<uint32_t>({0, 1, 0x7F, 0x80, 0x7FF, 0x800, 0xFFF, 0x1000, 0xD7FF, 0xE000, 0xFFFD, 0xFFFE, 0xFFFF, 0x10000,
                                             0x10001, 0x103FF, 0x10400, 0x1FFFF, 0x20000, 0x3FFFF, 0x40000, 0x4FFFF, 0x50000, 0x8FFFF,
                                             0x90000, 0xFFFFF, 0x100000, 0x10FC00, 0x10FFFE, 0x10FFFF});
        auto near     = gen::map(gen::pair(boundary, pbt::range<int>(-3, 3)), [](std::pair<uint32_t, int> p) {
            long long v = (long long)p.first + p.second;
            if (v < 0) {
                v = 0;
            }
            if (v > 0x10FFFF) {
                v = 0x10FFFF;
            }
            return uint32_t(v);
        });
        auto uniform  = pbt::range<uint32_t>(0, 0x10FFFF);
        auto bmp      = pbt::range<uint32_t>(0, 0xFFFF);
        auto cp       = gen::map(gen::oneOf(near, uniform, uniform, bmp), [](uint32_t v) {
            if (v >= 0xD800 && v <= 0xDFFF) {
                v = 0xE000 + (v & 0x7FF); // surrogates are not scalar values
            }
            return v;
        });
        return gen::map(gen::tuple(cp, pbt::pick<int>({1, 2, 4, 3}), pbt::range<int>(0, 79)), [](std::tuple<uint32_t, int, int> t) {
            Case c;
            c.cp    = std::get<0>(t);
            c.width = std::get<1>(t);
            c.form  = (std::get<2>(t) == 79) ? 4 : (std::get<2>(t) >= 72) ? 6 : (std::get<2>(t) >= 64) ? 5 : std::get<2>(t) % 4; // one case in eighty: the long-string form; one in five: a run of escapes
            return c;
        });
    }

    static std::string to_text(const Case &c) {
        pbt::KV kv;
        kv.putu("cp", c.cp);
        kv.put("width", c.width);
        kv.put("form", c.form);
        return kv.text();
    }
    static Case from_text(const std::string &t) {
        pbt::KV kv = pbt::KV::parse(t);
        Case    c;
        c.cp    = uint32_t(kv.getu("cp"));
        c.width = int(kv.geti("width", 1));
        c.form  = int(kv.geti("form", 0));
        return c;
    }

    static void run(const Case &c, pbt::Ctx &ctx) {
        // non-trivial: anything that is not 7-bit ASCII through the direct path (multi-unit or escape decoding)
        if (c.cp > 0x7F || c.form != 0) {
            ctx.nontrivial();
        }
        ctx.label(c.form == 0 ? "direct" : c.form == 1 ? "escape-upper" : c.form == 2 ? "escape-lower" : c.form == 3 ? "escape-embedded-mixed" : c.form == 4 ? "escape-deep-in-a-long-string" : c.form == 5 ? "escape-in-a-run-of-escapes" : c.form == 6 ? "escape-in-a-far-document" : "escape-behind-huge-strings");
        ctx.label(c.cp < 0x80 ? "ascii" : c.cp < 0x800 ? "2-byte-range" : c.cp < 0x10000 ? "bmp" : "astral");
        switch (c.width) {
            case 1: run_width<char>(c, ctx); break;
            case 2: run_width<char16_t>(c, ctx); break;
            case 3: run_width<wchar_t>(c, ctx); break;
            default: run_width<char32_t>(c, ctx); break;
        }
    }

    // what = "all": every scalar value; "stride": every 97th + all boundaries
    static void enumerate(pbt::Ctx &ctx, unsigned shard, unsigned nshards, const std::string &what) {
        uint32_t step = (what == "all") ? 1 : 97;
        uint64_t idx  = 0;
        {   // six scalars behind two huge strings (form 7), spread over the shards
            static const uint32_t six[] = {0xE9, 0x1F600, 0xFFFF, 0x10000, 0x800, 0x7F};
            unsigned              k     = 0;
            for (uint32_t cp : six) {
                for (int width : {1, 2, 4}) {
                    if ((k++ % nshards) != shard) {
                        continue;
                    }
                    Case c;
                    c.cp    = cp;
                    c.width = width;
                    c.form  = 7;
                    if (pbt::exec_case<H>(ctx, c) == pbt::Status::Fail) {
                        return;
                    }
                }
            }
        }
        for (uint32_t cp = 0; cp <= 0x10FFFF; cp += step) {
            if (cp >= 0xD800 && cp <= 0xDFFF) {
                continue;
            }
            if ((idx++ % nshards) != shard) {
                continue;
            }
            for (int width : {1, 2, 4}) {
                if ((cp % 1009) == 7 || cp == 0x10000 || cp == 0xFFFF || cp == 0x10FFFF || cp == 0x80) { // a thin slice also in the long-string form
                    Case c;
                    c.cp    = cp;
                    c.width = width;
                    c.form  = 4;
                    if (pbt::exec_case<H>(ctx, c) == pbt::Status::Fail) {
                        return;
                    }
                }
                for (int form = 0; form < 7; ++form) {
                    if (form == 4 || (form == 5 && (cp % 13) != 5 && cp != 0x10000 && cp != 0xFFFF && cp != 0xD7FF && cp != 0xE000) || (form == 6 && (cp % 101) != 7)) {
                        continue; // (the run-of-escapes form for one scalar in thirteen, the far-document form for one in a hundred and one)
                    }
                    Case c;
                    c.cp    = cp;
                    c.width = width;
                    c.form  = form;
                    if (pbt::exec_case<H>(ctx, c) == pbt::Status::Fail) {
                        return;
                    }
                }
            }
        }
        if (what == "all") {
            ctx.exhaustive      = true;
            ctx.exhaustive_what = "all 1,112,064 scalar values x 3 widths x 4 forms, one in thirteen also inside a run of escapes (sharded)";
        }
    }
};

} // namespace

int main(int argc, char **argv) { return pbt::run_main<H>(argc, argv); }
