// C18 — grouping partitions an array of objects by key value, wherever the key sits.
// Oracle: a reference partition computed on the description the objects were built from; compared as canonical JSON
// text of Value::GroupBy's result, and as the text a <loop group=...> renders.
#include "common/pbt.hpp"
#include "common/jmodel.hpp"

using namespace Qentem;
using jm::Entropy;

namespace {

struct Case {
    std::vector<uint8_t> bytes;
    int                  width{1};
    int                  twins{0}; // 2: as 1, and the members have names of one hash (see kGroupKey); 1: numeric group values come from the table of numbers that share a 64-bit pattern across kinds
};

struct Member {
    std::string key;
    std::string json; // canonical JSON text of the value
    int         kind; // 0 int 1 string 2 true 3 false 4 null 5 real 6 array 7 object 8 unsigned
    std::string s;    // string payload
    long long   i{0};
    double      d{0};
};

struct Obj {
    std::vector<Member> members;      // live members in insertion order (includes the group key and "id")
    std::vector<std::string> removed_before; // keys inserted and removed again (tombstones), with their insertion position
    std::vector<size_t>      removed_pos;
    std::string group_text;           // textual value of the group key
};

const char *kGroupKey = "g"; // "year" in the twins == 2 mode, where the other members are named "pear", "near", ...: names of the same hash
                             // (StringUtils::Hash does not see the first character of a longer name)

Member gen_group_value(Entropy &e) {
    Member m;
    m.key = kGroupKey;
    switch (e.below(12)) {
        case 0:
        case 1:
        case 2: {
            static const char *s1[] = {"a", "b", "x y", "zz", "1"};
            // (twins == 2: two group names whose hash has no bit set but the top one - the value the library forces on, next to the removed-slot marker 0)
            static const char *s2[] = {"a", "c9xpkftaLi2gmsLp", "x y", "jnuroqnsjroafpiy", "1"};
            const char *const *s    = (kGroupKey[1] != 0 || kGroupKey[0] == 't') ? s2 : s1;
            m.kind                  = 1;
            m.s                     = s[e.below(5)];
            m.json                  = "\"" + m.s + "\"";
            break;
        }
        case 3:
        case 4: m.kind = 8; m.i = (long long)e.below(3) + 1; m.json = std::to_string(m.i); break;
        case 5: m.kind = 0; m.i = -(long long)e.below(3) - 1; m.json = std::to_string(m.i); break;
        case 6:
        case 7: {
            static const double d[] = {1.5, 0.25, 2.0, -0.5, 1e21};
            m.kind                  = 5;
            m.d                     = d[e.below(5)];
            char b[64];
            snprintf(b, sizeof b, "%.15g", m.d);
            m.json = b;
            break;
        }
        case 8: m.kind = 2; m.json = "true"; break;
        case 9: m.kind = 3; m.json = "false"; break;
        default: m.kind = 4; m.json = "null"; break;
    }
    return m;
}

// Numbers of different kinds whose stored 64-bit patterns coincide (-1 and 2^64-1, 2^62 and 2.0, the pattern of 1.0 as an
// integer and 1.0, -2^63 and 2^63), next to equal values of different kinds (2 and 2.0): distinct texts must stay distinct
// groups and equal texts one group, whatever sits in the slot before.
Member twin_value(unsigned k) {
    Member m;
    m.key = kGroupKey;
    switch (k % 12) {
        case 0: m.kind = 0; m.i = -1; m.json = "-1"; break;
        case 1: m.kind = 8; m.i = -1; m.json = "18446744073709551615"; break;
        case 2: m.kind = 8; m.i = (long long)(1ULL << 62); m.json = "4611686018427387904"; break;
        case 3: m.kind = 5; m.d = 2.0; m.json = "2"; break;
        case 4: m.kind = 8; m.i = 2; m.json = "2"; break;
        case 5: m.kind = 8; m.i = 4607182418800017408LL; m.json = "4607182418800017408"; break;
        case 6: m.kind = 5; m.d = 1.0; m.json = "1"; break;
        case 7: m.kind = 0; m.i = (long long)(1ULL << 63); m.json = "-9223372036854775808"; break;
        case 8: m.kind = 8; m.i = (long long)(1ULL << 63); m.json = "9223372036854775808"; break;
        case 9: m.kind = 8; m.i = 4609434218613702656LL; m.json = "4609434218613702656"; break;
        case 10: m.kind = 5; m.d = 1.5; m.json = "1.5"; break;
        default: m.kind = 0; m.i = 1; m.json = "1"; break;
    }
    return m;
}

std::string group_text_of(const Member &m) {
    switch (m.kind) {
        case 1: return m.s;
        default: return m.json; // numbers print as their text (real: %.15g), true/false/null as words
    }
}

Member gen_other(Entropy &e, const std::string &key) {
    Member m;
    m.key = key;
    switch (e.below(8)) {
        case 0:
        case 1: m.kind = 0; m.i = (long long)e.below(200) - 100; m.json = std::to_string(m.i); break;
        case 2: {
            static const char *s[] = {"s", "hello", "", "a b"};
            m.kind                  = 1;
            m.s                     = s[e.below(4)];
            m.json                  = "\"" + m.s + "\"";
            break;
        }
        case 3: m.kind = 2; m.json = "true"; break;
        case 4: m.kind = 4; m.json = "null"; break;
        case 5: m.kind = 5; m.d = 0.5; m.json = "0.5"; break;
        case 6: m.kind = 6; m.json = "[1,2]"; break;
        default: m.kind = 7; m.json = "{\"z\":1}"; break;
    }
    return m;
}

template <typename Char_T>
String<Char_T> wstr(const std::string &s) {
    jm::Units u;
    for (unsigned char c : s) {
        u.push_back(c);
    }
    jm::Buf<Char_T> b(u);
    return String<Char_T>{b.cp(), SizeT(b.n)};
}
template <typename Char_T>
std::string narrow(const Char_T *p, SizeT n) {
    std::string o;
    for (SizeT i = 0; i < n; ++i) {
        const uint32_t u = jm::unit_of(p[i]);
        o.push_back(u < 0x80 ? char(u) : '?');
    }
    return o;
}
template <typename Char_T>
void put_member(Value<Char_T> &o, const Member &m) {
    Value<Char_T> &v = o[wstr<Char_T>(m.key)];
    switch (m.kind) {
        case 0: v = SizeT64I(m.i); break;
        case 8: v = SizeT64(m.i); break;
        case 1: v = wstr<Char_T>(m.s); break;
        case 2: v = true; break;
        case 3: v = false; break;
        case 4: v = nullptr; break;
        case 5: v = m.d; break;
        case 6:
            v += 1;
            v += 2;
            break;
        default: v[wstr<Char_T>("z")] = 1; break;
    }
}

struct Scenario {
    std::vector<Obj> objs;
    bool             has_removed{false};
    bool             key_position_varies{false};
};

template <typename Char_T>
Scenario make_scenario(const Case &c, Value<Char_T> &arr) {
    Entropy  e(c.bytes);
    Scenario sc;
    kGroupKey  = (c.twins == 2) ? "year" : (c.twins == 3) ? "t" : "g";
    unsigned n = e.below(13);
    arr        = Value<Char_T>{ValueType::Array};
    size_t first_pos = size_t(-1);
    unsigned twin_counter = 0;
    for (unsigned i = 0; i < n; ++i) {
        Obj         o;
        Value<Char_T> v{ValueType::Object};
        // plan: other members (distinct keys), the group key at a random position, an id, optional removed members
        static const char *names1[] = {"m", "n", "p", "q", "y"};
        static const char *names2[] = {"pear", "jnuroqnsjroafpiy", "dear", "q", "fear"};
        // twins == 3: the grouping member is "t" and a sibling is named "ti" - the grouping key plus one unit, with the same hash
        static const char *names3[] = {"ti", "tj", "m", "q", "tix"};
        const char *const *names    = (c.twins == 2) ? names2 : (c.twins == 3) ? names3 : names1;
        unsigned           others   = e.below(5);
        std::vector<Member> plan;
        for (unsigned k = 0; k < others; ++k) {
            // (in the twins mode one of the other members is named by the empty string: a legal member name)
            plan.push_back(gen_other(e, (c.twins != 0 && k == 3) ? "" : names[k]));
        }
        Member idm;
        idm.key  = "id";
        idm.kind = 0;
        idm.i    = (long long)i;
        idm.json = std::to_string(i);
        plan.insert(plan.begin() + long(e.below(unsigned(plan.size()) + 1)), idm);
        Member g   = gen_group_value(e);
        if (c.twins != 0 && (g.kind == 0 || g.kind == 8 || g.kind == 5)) {
            // neighbours in the table are the pairs that share a pattern: walk it mostly forwards from a case-dependent start
            g = twin_value(unsigned(c.bytes.empty() ? 0 : c.bytes[0]) + twin_counter);
            twin_counter += (g.i & 1) ? 1 : (i % 3 == 2 ? 11 : 1);
        }
        size_t pos = e.below(unsigned(plan.size()) + 1);
        plan.insert(plan.begin() + long(pos), g);
        if (first_pos == size_t(-1)) {
            first_pos = pos;
        } else if (pos != first_pos) {
            sc.key_position_varies = true;
        }
        // removed members: inserted at some point of the plan and removed afterwards (leaves a tombstone slot)
        unsigned rm = e.chance(25) ? 1 + e.below(2) : 0;
        std::vector<size_t> rm_at;
        for (unsigned r = 0; r < rm; ++r) {
            rm_at.push_back(e.below(unsigned(plan.size()) + 1));
        }
        size_t rcount = 0;
        for (size_t k = 0; k <= plan.size(); ++k) {
            for (size_t r = 0; r < rm_at.size(); ++r) {
                if (rm_at[r] == k) {
                    std::string rk = "gone" + std::to_string(rcount++);
                    v[wstr<Char_T>(rk)] = 7;
                }
            }
            if (k < plan.size()) {
                put_member(v, plan[k]);
                o.members.push_back(plan[k]);
            }
        }
        for (size_t r = 0; r < rcount; ++r) {
            std::string rk = "gone" + std::to_string(r);
            { String<Char_T> rks = wstr<Char_T>(rk); v.Remove(rks); }
            sc.has_removed = true;
        }
        o.group_text = group_text_of(g);
        sc.objs.push_back(o);
        arr += Memory::Move(v);
    }
    return sc;
}

std::string obj_text_without_key(const Obj &o) {
    std::string t = "{";
    bool        first = true;
    for (auto &m : o.members) {
        if (m.key == kGroupKey) {
            continue;
        }
        if (!first) {
            t += ",";
        }
        first = false;
        t += "\"" + m.key + "\":" + m.json;
    }
    return t + "}";
}

struct H {
    using Case = ::Case;
    static const char *name() { return "C18 group by"; }
    static rc::Gen<Case> gen() {
        using namespace rc;
        return gen::map(gen::tuple(gen::resize(200, gen::container<std::vector<uint8_t>>(gen::arbitrary<uint8_t>())), pbt::pick<int>({0, 0, 1, 2, 3}), pbt::pick<int>({1, 1, 2, 4, 3})),
                        [](std::tuple<std::vector<uint8_t>, int, int> t) {
                            Case c;
                            c.bytes = std::get<0>(t);
                            c.width = std::get<2>(t);
                            c.twins = std::get<1>(t);
                            return c;
                        });
    }
    // coverage-guided mode: selector byte, then entropy
    static bool from_fuzz(const uint8_t *d, size_t n, Case &c) {
        pbt::FuzzBytes f(d, n);
        const uint8_t sel = f.sel();
        c.twins = (sel % 3) == 0 ? 1 : ((sel % 3) == 1 && (sel & 0x40) != 0) ? 2 : ((sel % 3) == 2 && (sel & 0x40) != 0) ? 3 : 0;
        c.width = ((sel >> 4) & 3) == 1 ? 2 : ((sel >> 4) & 3) == 2 ? 4 : 1;
        c.bytes = f.rest();
        return true;
    }
    static std::string to_text(const Case &c) {
        pbt::KV     kv;
        std::string hex;
        char        b[4];
        for (uint8_t x : c.bytes) {
            snprintf(b, sizeof b, "%02x", x);
            hex += b;
        }
        kv.put("bytes", hex);
        kv.put("twins", c.twins);
        kv.put("width", c.width);
        Value<char> arr;
        make_scenario<char>(c, arr);
        String<char> s = arr.Stringify();
        kv.put("array", pbt::enc_bytes(std::string(s.First() ? s.First() : "", s.Length())));
        return kv.text();
    }
    static Case from_text(const std::string &t) {
        pbt::KV     kv = pbt::KV::parse(t);
        Case        c;
        std::string hex = kv.get("bytes");
        for (size_t i = 0; i + 1 < hex.size(); i += 2) {
            c.bytes.push_back(uint8_t(strtoul(hex.substr(i, 2).c_str(), nullptr, 16)));
        }
        c.twins = int(kv.geti("twins", 0));
        c.width = int(kv.geti("width", 1));
        return c;
    }

    static void run(const Case &c, pbt::Ctx &ctx) {
        ctx.label("units:" + std::to_string(c.width) + "-byte");
        switch (c.width) {
            case 2: run_width<char16_t>(c, ctx); break;
            case 3: run_width<wchar_t>(c, ctx); break;
            case 4: run_width<char32_t>(c, ctx); break;
            default: run_width<char>(c, ctx); break;
        }
    }
    template <typename Char_T>
    static void run_width(const Case &c, pbt::Ctx &ctx) {
        Value<Char_T> root;
        Value<Char_T> arr;
        Scenario      sc = make_scenario<Char_T>(c, arr);
        root[wstr<Char_T>("arr")] = Memory::Move(arr);
        const String<Char_T> arr_key = wstr<Char_T>("arr");
        const Value<Char_T> &src     = *root.GetValue(arr_key.First(), arr_key.Length());
        if (sc.objs.size() >= 2) {
            ctx.nontrivial();
        }
        ctx.label("key-position-varies", sc.key_position_varies);
        ctx.label("numeric-twins", c.twins != 0);
        ctx.label("has-removed-members", sc.has_removed);
        ctx.label("empty-array", sc.objs.empty());

        // reference partition
        std::vector<std::string>              order;
        std::vector<std::vector<const Obj *>> groups;
        for (auto &o : sc.objs) {
            size_t gi = 0;
            for (; gi < order.size(); ++gi) {
                if (order[gi] == o.group_text) {
                    break;
                }
            }
            if (gi == order.size()) {
                order.push_back(o.group_text);
                groups.emplace_back();
            }
            groups[gi].push_back(&o);
        }
        ctx.label("distinct-groups>=3", order.size() >= 3);
        std::string expect = "{";
        for (size_t gi = 0; gi < order.size(); ++gi) {
            if (gi != 0) {
                expect += ",";
            }
            expect += "\"" + order[gi] + "\":[";
            for (size_t k = 0; k < groups[gi].size(); ++k) {
                if (k != 0) {
                    expect += ",";
                }
                expect += obj_text_without_key(*groups[gi][k]);
            }
            expect += "]";
        }
        expect += "}";

        auto text_of = [](const Value<Char_T> &v) {
            StringStream<Char_T> ss;
            v.Stringify(ss, 15U);
            return narrow(ss.First(), ss.Length());
        };
        const std::string before = text_of(root);

        auto classify = [&](const std::string &base) {
            if (sc.has_removed) {
                return std::string("groupby-with-removed-members");
            }
            if (sc.key_position_varies) {
                return std::string("groupby-key-position");
            }
            return base;
        };

        Value<Char_T> grouped;
        // what the destination holds before the call must not show in the result: nothing, an earlier grouping of the same array by
        // another key, an array, a string, a number, an object (chosen by the case bytes; the first render of every case is into a
        // fresh destination through the template path below)
        {
            unsigned pre = 0;
            for (uint8_t x : c.bytes) {
                pre = pre * 31 + x;
            }
            switch (pre % 7) {
                case 1: { String<Char_T> k_ = wstr<Char_T>("id"); (void)src.GroupBy(grouped, k_.First(), k_.Length()); } break;
                case 2: { String<Char_T> k_ = wstr<Char_T>(kGroupKey); (void)src.GroupBy(grouped, k_.First(), k_.Length()); } break;
                case 3: grouped += 1; grouped += wstr<Char_T>("two"); break;
                case 4: grouped = wstr<Char_T>("a string that owns its storage, longer than any inline buffer"); break;
                case 5: grouped = 12.5; break;
                case 6: grouped[wstr<Char_T>("old")] = 1; grouped[wstr<Char_T>("g")] = nullptr; break;
                default: break;
            }
            static const char *pn[] = {"fresh", "earlier-grouping-other-key", "earlier-grouping-same-key", "array", "string", "number", "object"};
            ctx.label(std::string("destination:") + pn[pre % 7]);
        }
        const String<Char_T> gk_ = wstr<Char_T>(kGroupKey);
        // (the NUL-terminated overload and the (pointer, length) overload in turn)
        bool        ok = (c.bytes.size() & 1) ? src.GroupBy(grouped, gk_.First()) : src.GroupBy(grouped, gk_.First(), gk_.Length());
        if (sc.objs.empty()) {
            // nothing to group: either outcome with an empty object is a partition of nothing
            if (ok && grouped.Size() != 0) {
                ctx.fail("groupby-empty", "grouping an empty array produced members");
            }
        } else {
            if (!ok) {
                ctx.deviation(classify("groupby-refused"), "GroupBy returned false for an array whose objects all contain the key: " + before);
            }
            std::string got = text_of(grouped);
            if (got != expect) {
                ctx.deviation(classify("groupby-wrong-partition"), "GroupBy result " + got + " expected " + expect + " for " + before);
            }
        }
        if (text_of(root) != before) {
            ctx.fail("groupby-modified-source", "the source array changed");
        }

        // the loop's group= attribute iterates the same partition
        std::string tpl = "<loop set=\"arr\" group=\"" + std::string(kGroupKey) + "\" value=\"G\">[{var:G}:<loop set=\"G\" value=\"it\">({var:it[id]})</loop>]</loop>";
        std::string want;
        for (size_t gi = 0; gi < order.size(); ++gi) {
            want += "[" + order[gi] + ":";
            for (auto *o : groups[gi]) {
                for (auto &m : o->members) {
                    if (m.key == "id") {
                        want += "(" + m.json + ")";
                    }
                }
            }
            want += "]";
        }
        jm::Units          tu(tpl.begin(), tpl.end());
        jm::Buf<Char_T>      tb(tu);
        StringStream<Char_T> out;
        Template::Render(tb.cp(), SizeT(tb.n), root, out);
        std::string got = narrow(out.First(), out.Length());
        if (got != want) {
            ctx.deviation(classify("loop-group-differs"), "<loop group> rendered '" + got + "' expected '" + want + "' for " + before);
        }
        if (text_of(root) != before) {
            ctx.fail("groupby-modified-source", "rendering a grouped loop changed the value");
        }
        // the grouping is a value of its own (members that are arrays or objects included): its source is changed and released, then it is
        // read again - through a copy too - and says what it said before
        {
            const std::string got_before = text_of(grouped);
            Value<Char_T>     arr2       = Memory::Move(root[wstr<Char_T>("arr")]);
            for (SizeT i = 0; i < arr2.Size(); ++i) {
                Value<Char_T> *o = arr2.GetValue(i);
                if (o != nullptr && o->IsObject()) {
                    for (SizeT k = 0; k < o->Size(); ++k) {
                        Value<Char_T> *mv = o->GetValue(k);
                        if (mv != nullptr && (mv->IsArray() || mv->IsObject())) {
                            *mv = wstr<Char_T>("replaced");
                        }
                    }
                }
            }
            if (text_of(grouped) != got_before) {
                ctx.fail("groupby-result-shares-source", "the grouping changed when members of its source were overwritten: " + text_of(grouped) + " was " + got_before);
            }
            arr2.Reset();
            root.Reset();
            Value<Char_T> copy = grouped;
            if (text_of(grouped) != got_before || text_of(copy) != got_before) {
                ctx.fail("groupby-result-shares-source", "the grouping changed when its source was released: " + text_of(grouped) + " was " + got_before);
            }
        }
    }
};

} // namespace

PBT_MAIN(H)
