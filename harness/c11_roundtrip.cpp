// C11 — every finite double survives format(17 significant digits) -> parse bit for bit; every float survives 9 digits.
// Oracle: round trip (bit identity).
#include "common/pbt.hpp"
#include <algorithm>
#include "common/numgen.hpp"

#include <cmath>

using namespace Qentem;

namespace {

struct Case {
    int         kind{0}; // 0 double, 1 float
    uint64_t    bits{0};
    int         width{1};
    int         cycles{1}; // number of format->parse cycles (property: any number of cycles)
    std::string cls;
};

template <typename Char_T>
bool parse_back(const StringStream<Char_T> &ss, double &out, std::string &why) {
    QNumber64   num;
    SizeT       offset = 0;
    QNumberType t      = Digit::StringToNumber(num, ss.First(), offset, ss.Length());
    if (offset != ss.Length()) {
        why = "text not consumed completely";
        return false;
    }
    switch (t) {
        case QNumberType::Real: out = num.Real; return true;
        case QNumberType::Natural: out = double(num.Natural); return true; // exact for the integers %.17g prints without exponent
        case QNumberType::Integer: out = double(num.Integer); return true;
        default: why = "text rejected"; return false;
    }
}

template <typename Char_T>
std::string text_of(const StringStream<Char_T> &ss) {
    std::string o;
    for (SizeT i = 0; i < ss.Length(); ++i) {
        o.push_back(char(ss.First()[i]));
    }
    return o;
}

template <typename Char_T>
void run_width(const Case &c, pbt::Ctx &ctx) {
    if (c.kind == 0) {
        double d;
        memcpy(&d, &c.bits, 8);
        double cur = d;
        for (int i = 0; i < c.cycles; ++i) {
            StringStream<Char_T> ss;
            Digit::NumberToString(ss, cur, Digit::RealFormatInfo{17U});
            double      back = 0;
            std::string why;
            if (!parse_back(ss, back, why)) {
                ctx.fail("roundtrip-parse", why + ": '" + text_of(ss) + "'");
            }
            uint64_t bb;
            memcpy(&bb, &back, 8);
            if (bb != c.bits) {
                char b[200];
                snprintf(b, sizeof b, "double %.17g (%016llx) -> '%s' -> %016llx (cycle %d)", d, (unsigned long long)c.bits, text_of(ss).c_str(),
                         (unsigned long long)bb, i + 1);
                ctx.fail("roundtrip-bits", b);
            }
            cur = back;
        }
    } else {
        float    f;
        uint32_t fb = uint32_t(c.bits);
        memcpy(&f, &fb, 4);
        float cur = f;
        for (int i = 0; i < c.cycles; ++i) {
            StringStream<Char_T> ss;
            Digit::NumberToString(ss, cur, Digit::RealFormatInfo{9U});
            double      back = 0;
            std::string why;
            if (!parse_back(ss, back, why)) {
                ctx.fail("roundtrip-parse", why + ": '" + text_of(ss) + "'");
            }
            float    fr = float(back);
            uint32_t rb;
            memcpy(&rb, &fr, 4);
            if (rb != fb) {
                char b[200];
                snprintf(b, sizeof b, "float %.9g (%08x) -> '%s' -> %08x", double(f), fb, text_of(ss).c_str(), rb);
                ctx.fail("roundtrip-bits-float", b);
            }
            cur = fr;
        }
    }
}

struct H {
    using Case = ::Case;
    static const char *name() { return "C11 format/parse round trip"; }

    static rc::Gen<Case> gen() {
        using namespace rc;
        auto d = gen::map(gen::tuple(numgen::double_gen(), pbt::pick<int>({1, 1, 2, 4, 3}), pbt::pick<int>({1, 1, 1, 3})),
                          [](std::tuple<numgen::Real, int, int> t) {
                              Case c;
                              c.kind   = 0;
                              c.bits   = std::get<0>(t).bits;
                              c.cls    = std::get<0>(t).cls;
                              c.width  = std::get<1>(t);
                              c.cycles = std::get<2>(t);
                              return c;
                          });
        auto f = gen::map(gen::tuple(numgen::float_gen(), pbt::pick<int>({1, 2, 4, 3})), [](std::tuple<numgen::Real, int> t) {
            Case c;
            c.kind  = 1;
            c.bits  = std::get<0>(t).bits;
            c.cls   = std::get<0>(t).cls;
            c.width = std::get<1>(t);
            return c;
        });
        return gen::oneOf(d, d, d, f);
    }

    // coverage-guided mode: byte 0: width (2 bits) | cycles | kind; 8 bytes: bit pattern
    static bool from_fuzz(const uint8_t *d, size_t n, Case &c) {
        pbt::FuzzBytes f(d, n);
        uint8_t        b0 = f.sel();
        static const int w[] = {1, 2, 4, 3};
        c.width  = w[b0 & 3];
        c.cycles = (b0 & 4) ? 3 : 1;
        c.kind   = (b0 & 8) ? 1 : 0;
        c.bits   = 0;
        for (int i = 0; i < (c.kind == 0 ? 8 : 4); ++i) {
            c.bits = (c.bits << 8) | f.sel();
        }
        c.cls = "coverage-guided";
        return true;
    }
    static std::string to_text(const Case &c) {
        pbt::KV kv;
        kv.put("kind", c.kind);
        char b[40];
        snprintf(b, sizeof b, "%016llx", (unsigned long long)c.bits);
        kv.put("bits", b);
        double d;
        if (c.kind == 0) {
            memcpy(&d, &c.bits, 8);
        } else {
            float    f;
            uint32_t fb = uint32_t(c.bits);
            memcpy(&f, &fb, 4);
            d = f;
        }
        snprintf(b, sizeof b, "%.17g", d);
        kv.put("value", b);
        kv.put("width", c.width);
        kv.put("cycles", c.cycles);
        kv.put("class", c.cls);
        return kv.text();
    }
    static Case from_text(const std::string &t) {
        pbt::KV kv = pbt::KV::parse(t);
        Case    c;
        c.kind   = int(kv.geti("kind"));
        c.bits   = strtoull(kv.get("bits").c_str(), nullptr, 16);
        c.width  = int(kv.geti("width", 1));
        c.cycles = int(kv.geti("cycles", 1));
        c.cls    = kv.get("class");
        return c;
    }

    static void run(const Case &c, pbt::Ctx &ctx) {
        double d;
        if (c.kind == 0) {
            memcpy(&d, &c.bits, 8);
        } else {
            float    f;
            uint32_t fb = uint32_t(c.bits);
            memcpy(&f, &fb, 4);
            d = f;
        }
        if (!std::isfinite(d)) {
            ctx.discard(); // the property quantifies over finite values
        }
        ctx.label("class:" + c.cls);
        // non-trivial: not an integer below 2^53 (those print as plain digit strings)
        if (!(d == std::floor(d) && std::fabs(d) < 9007199254740992.0)) {
            ctx.nontrivial();
        }
        switch (c.width) {
            case 1: run_width<char>(c, ctx); break;
            case 2: run_width<char16_t>(c, ctx); break;
            case 3: run_width<wchar_t>(c, ctx); break;
            default: run_width<char32_t>(c, ctx); break;
        }
    }

    // "floats": all 2^32 float bit patterns (non-finite skipped); "doubles-stride": doubles at a fixed bit stride
    static void enumerate(pbt::Ctx &ctx, unsigned shard, unsigned nshards, const std::string &what) {
        Qentem::MemoryRecord::data().enabled = false;
        ctx.max_samples                      = 4;
        if (what == "floats") {
            for (uint64_t b = shard; b <= 0xFFFFFFFFULL; b += nshards) {
                if (((b >> 23) & 0xFF) == 0xFF) {
                    continue;
                }
                Case c;
                c.kind = 1;
                c.bits = b;
                c.cls  = "all-floats";
                if (pbt::exec_case_fast<H>(ctx, c) == pbt::Status::Fail) {
                    return;
                }
            }
            ctx.exhaustive      = true;
            ctx.exhaustive_what = "all finite float bit patterns, 9 significant digits";
        } else if (what == "short-decimals") {
            // Doubles whose 17-digit text collapses to a few digits: m x 10^k for every k from -330 to 310 and m below 10,000 (below 100,000
            // in the subnormal range and around the top of the range), positive and negative. Short texts take the parser's short paths.
            uint64_t idx = 0;
            for (int k = -330; k <= 310; ++k) {
                const unsigned top = (k <= -300 || k >= 300) ? 100000u : 10000u;
                for (unsigned m = 1; m < top; ++m) {
                    if ((idx++ % nshards) != shard) {
                        continue;
                    }
                    char b[48];
                    snprintf(b, sizeof b, "%ue%d", m, k);
                    const double d = strtod(b, nullptr);
                    if (!(d > 0) || std::isinf(d)) {
                        continue;
                    }
                    Case c;
                    c.kind = 0;
                    memcpy(&c.bits, &d, 8);
                    if ((m & 1) != 0) {
                        c.bits |= 0x8000000000000000ULL;
                    }
                    c.cls = "short-decimal";
                    if (pbt::exec_case_fast<H>(ctx, c) == pbt::Status::Fail) {
                        return;
                    }
                }
            }
            ctx.exhaustive      = true;
            ctx.exhaustive_what = "m x 10^k for k = -330..310, m < 10,000 (m < 100,000 for k <= -300 and k >= 300), 17 significant digits";
        } else if (what.compare(0, 12, "least-slack-") == 0) {
            // Where 17 digits have the least room: a binade whose top lies just above a power of ten (2^k = 1.00x * 10^m). The doubles
            // in [10^m, 2^k) are spaced almost as widely as 17-digit decimals with leading digit 1, so the correctly rounded text of
            // some of them lies within ~5 * 10^-18 (relative) of the midpoint to a neighbouring double - the text-to-double step has
            // no slack there. The slivers are found by a scan over all k (no table); the 12 tightest are walked with an even stride,
            // M million doubles per shard in total.
            struct Sliver {
                double   ratio;
                uint64_t lo, hi;
            };
            std::vector<Sliver> sl;
            for (int k = -1021; k <= 1023; ++k) {
                const double p = std::ldexp(1.0, k);
                const int    m = int(std::floor(std::log10(p)));
                char         b[32];
                snprintf(b, sizeof b, "1e%d", m);
                const double t = strtod(b, nullptr);
                if (t <= 0 || t > p) {
                    continue;
                }
                const double r = p / t;
                if (r < 1.04) {
                    Sliver x;
                    x.ratio = r;
                    memcpy(&x.lo, &t, 8);
                    memcpy(&x.hi, &p, 8);
                    if (x.hi > x.lo) {
                        sl.push_back(x);
                    }
                }
            }
            std::sort(sl.begin(), sl.end(), [](const Sliver &a, const Sliver &b) { return a.ratio < b.ratio; });
            if (sl.size() > 12) {
                sl.resize(12);
            }
            const uint64_t total = strtoull(what.c_str() + 12, nullptr, 10) * 1000000ULL;
            const uint64_t per   = total / (sl.empty() ? 1 : sl.size());
            for (const Sliver &x : sl) {
                const uint64_t span   = x.hi - x.lo;
                const uint64_t stride = span / (per * nshards) + 1;
                for (uint64_t bts = x.lo + stride * shard % span, n = 0; n < per && bts < x.hi; bts += stride * nshards, ++n) {
                    Case c;
                    c.kind = 0;
                    c.bits = bts;
                    c.cls  = "least-slack";
                    if (pbt::exec_case_fast<H>(ctx, c) == pbt::Status::Fail) {
                        return;
                    }
                    c.bits |= 0x8000000000000000ULL;
                    if ((n & 15) == 0 && pbt::exec_case_fast<H>(ctx, c) == pbt::Status::Fail) {
                        return;
                    }
                }
            }
            ctx.labels["least-slack:slivers"] += sl.size();
        } else {
            // a lattice over the finite double bit patterns: fixed odd stride, each shard its own phase, both signs
            const uint64_t stride = 307445734561ULL;
            for (uint64_t b = (stride / nshards) * shard; b < 0x7FF0000000000000ULL; b += stride) {
                Case c;
                c.kind = 0;
                c.bits = b;
                c.cls  = "double-lattice";
                if (pbt::exec_case_fast<H>(ctx, c) == pbt::Status::Fail) {
                    return;
                }
                c.bits |= 0x8000000000000000ULL;
                if (pbt::exec_case_fast<H>(ctx, c) == pbt::Status::Fail) {
                    return;
                }
            }
        }
    }
};

} // namespace

PBT_MAIN(H)
