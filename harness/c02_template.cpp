// C02 — rendering a well-formed template yields exactly the documented expansion.
// A template AST and a value tree are generated together; the template text is spelled from the AST and rendered by the
// library; the expected output comes from a reference interpreter of Documentation/Template.md that walks the AST (it never
// parses template text). C17 (-DVERIF_C17) reuses generator and reference to check cached / repeated / concurrent renders.
#include "common/pbt.hpp"
#include <atomic>
#include "common/jmodel.hpp"

#include <algorithm>
#include <cmath>
#include <memory>
#ifdef VERIF_C17
#include <deque>
#include <thread>
#endif

using namespace Qentem;
using jm::Entropy;
using jm::Units;

namespace {

struct Case {
    std::vector<uint8_t> bytes;
    int                  width{1};
    int                  alias{0}; // 1: phrases and text runs contain look-alike units (see g_alias); absent in older replay files
};

// ------------------------------------------------------------------------------------------------ value model
enum class VK { Null, True, False, UInt, Int, Real, Str, Arr, Obj };
struct VNode {
    VK                                        k{VK::Null};
    uint64_t                                  u{0};
    int64_t                                   i{0};
    double                                    d{0};
    std::string                               s; // ASCII
    std::vector<VNode>                        arr;
    std::vector<std::pair<std::string, VNode>> obj;
};

// Alias mode (Case::alias): phrases and text runs also contain bytes above 0x7F. In the wider instantiations such a byte stands for
// the unit U+0100 | low seven bits - a non-ASCII character whose LOW BYTE is an ASCII character ('{', '}', '<', ':', a digit ...).
// It is ordinary text: it must be copied through, never read as tag syntax or as a placeholder digit. For char it stays one byte.
static thread_local bool g_alias = false;
static thread_local bool g_ref_overflow = false; // the reference met an integer result that does not fit 64 bits (case discarded)
// alias == 2: the grouping member is named "year", not "g", and objects may carry a member "pear" - a name with the same hash
// (StringUtils::Hash does not see the first character of a longer name) - in any slot, also the one "year" had in the object before
static thread_local const char *g_gkey = "g";
template <typename Char_T>
inline uint32_t widen_unit(uint32_t byte) {
    return (sizeof(Char_T) > 1 && byte >= 0x80) ? (0x0100U | (byte & 0x7FU)) : byte;
}
template <typename Char_T>
inline char narrow_unit(uint32_t unit) {
    if (sizeof(Char_T) > 1 && unit >= 0x0100U && unit < 0x0180U) {
        return char(0x80U | (unit & 0x7FU));
    }
    return (unit > 0xFFU) ? '\x7F' : char(unit); // any other wide unit is not something this harness ever wrote
}

static const char *kStrings[] = {"plain", "a&b", "<i>x</i>", "it's", "say \"hi\"", "", "12", "x y", "-3.5", "&amp; done", "zeta", "alpha", "Beta"};
static const double kReals[]  = {0.5, 2.25, 3.0, 10.75, 1234.5678, -0.125, 11150.001, 0.005, 99.995, 1e15, 2.675};

VNode gen_scalar(Entropy &e) {
    VNode n;
    switch (e.below(9)) {
        case 0: n.k = VK::Null; break;
        case 1: n.k = VK::True; break;
        case 2: n.k = VK::False; break;
        case 3: n.k = VK::UInt; n.u = e.below(e.chance(70) ? 20 : 100000); break;
        case 4: n.k = VK::Int; n.i = -(int64_t)e.below(50) - 1; break;
        case 5: n.k = VK::Real; n.d = kReals[e.below(11)]; break;
        default: n.k = VK::Str; n.s = kStrings[e.below(13)]; break;
    }
    return n;
}

static const char *kKeys[] = {"a", "b", "c", "name", "id", "k1", "list", "x"};

VNode gen_value(Entropy &e, int depth) {
    if (depth <= 0 || e.chance(55)) {
        return gen_scalar(e);
    }
    VNode n;
    if (e.chance(50)) {
        n.k        = VK::Arr;
        unsigned c = e.below(4);
        for (unsigned i = 0; i < c; ++i) {
            n.arr.push_back(gen_value(e, depth - 1));
        }
    } else {
        n.k        = VK::Obj;
        unsigned c = e.below(4);
        for (unsigned i = 0; i < c; ++i) {
            std::string key = kKeys[e.below(8)];
            bool        dup = false;
            for (auto &kv : n.obj) {
                dup = dup || kv.first == key;
            }
            if (!dup) {
                n.obj.emplace_back(key, gen_value(e, depth - 1));
            }
        }
    }
    return n;
}

// root: an object with a controlled set of members so that every tag kind has something to work on
VNode gen_root(Entropy &e) {
    VNode r;
    r.k = VK::Obj;
    auto put = [&](const std::string &k, VNode v) { r.obj.emplace_back(k, std::move(v)); };
    VNode n;
    n.k = VK::UInt;
    n.u = e.below(30);
    put("num", n);
    n   = VNode{};
    n.k = VK::Int;
    n.i = -(int64_t)e.below(9) - 1;
    put("neg", n);
    n   = VNode{};
    n.k = VK::Real;
    n.d = kReals[e.below(11)];
    put("real", n);
    n   = VNode{};
    n.k = VK::Str;
    n.s = kStrings[e.below(13)];
    put("str", n);
    put("any", gen_value(e, 2));
    n   = VNode{};
    n.k = e.chance(50) ? VK::True : VK::False;
    put("flag", n);
    // a phrase for {svar:}
    n   = VNode{};
    n.k = VK::Str;
    {
        static const char *ph[] = {"Hello {0}, you have {1} items.", "{1} & {0} <{2}>", "no placeholders", "{0}{0}{1}", "end {3} {9} {0}", "brace { and {x} and {12}"};
        static const char *pa[] = {"Hello {\xB0}, you have {1} items {0}.", "{1} & {\xB1} <{2}> \xFB" "0\xFD", "no \xFB" "1} placeholders {\xB2}", "{0}{\xB0}{1}\xFB",
                                   "end {3} {\xB9} {0} {\xB0", "brace { and {\xF8} and {1\xB2} {0}"};
        n.s                     = (g_alias ? pa : ph)[e.below(6)];
    }
    put("phrase", n);
    // an array of distinct scalars of one kind (sortable)
    {
        VNode a;
        a.k        = VK::Arr;
        unsigned c = e.below(6);
        unsigned kind = e.below(3);
        std::vector<int> used;
        for (unsigned i = 0; i < c; ++i) {
            int v = int((e.below(6) * 7 + i * 5) % 42) + int(i) * 42; // distinct by construction (entropy may be exhausted)
            used.push_back(v);
            VNode x;
            if (kind == 0 && g_gkey[1] != 0 && (c & 1) != 0) {
                // alias == 2: signed integers of both signs (built through the API they are all of the signed kind)
                x.k = VK::Int;
                x.i = int64_t(v) - 100;
            } else if (kind == 0) {
                x.k = VK::UInt;
                x.u = uint64_t(v);
            } else if (kind == 1) {
                x.k = VK::Str;
                x.s = std::string(1, char('a' + v % 26)) + std::to_string(v);
            } else {
                x.k = VK::Real;
                x.d = v + 0.5;
            }
            a.arr.push_back(x);
        }
        put("set", a);
    }
    // an array of objects with a group key "g" at varying positions
    {
        VNode a;
        a.k        = VK::Arr;
        unsigned c = e.below(5);
        for (unsigned i = 0; i < c; ++i) {
            VNode o;
            o.k = VK::Obj;
            VNode g;
            if (e.chance(50)) {
                g.k = VK::UInt;
                g.u = e.below(3);
            } else {
                g.k = VK::Str;
                g.s = (g_alias ? (const char *[]){"x&y", "<z>", "it's \"q\""} : (const char *[]){"x", "y", "z"})[e.below(3)]; // group titles are printed through {var:}
            }
            VNode t;
            t.k = VK::Str;
            t.s = kStrings[e.below(13)];
            VNode idn;
            idn.k = VK::UInt;
            idn.u = i;
            std::vector<std::pair<std::string, VNode>> ms = {{"title", t}, {"id", idn}};
            ms.insert(ms.begin() + long(e.below(3)), std::make_pair(std::string(g_gkey), g));
            if (g_gkey[1] != 0 && e.chance(60)) {
                VNode tw;
                tw.k = VK::UInt;
                tw.u = 7 + e.below(3);
                ms.insert(ms.begin() + long(e.below(4)), std::make_pair(std::string("pear"), tw));
            }
            o.obj = ms;
            a.arr.push_back(o);
        }
        put("items", a);
    }
    // a two-element array for deep nesting (2^depth iterations stay small)
    {
        VNode a;
        a.k = VK::Arr;
        for (unsigned i = 0; i < 2; ++i) {
            VNode x;
            x.k = VK::UInt;
            x.u = e.below(5) + i * 5;
            a.arr.push_back(x);
        }
        put("pair", a);
    }
    // an object of scalars / containers (object loops, key printing)
    {
        VNode o;
        o.k        = VK::Obj;
        unsigned c = e.below(5);
        static const char *ks[] = {"one", "two", "k<3", "four", "a&b"};
        for (unsigned i = 0; i < c; ++i) {
            o.obj.emplace_back(ks[i], e.chance(70) ? gen_scalar(e) : gen_value(e, 1));
        }
        put("map", o);
    }
    return r;
}

template <typename Char_T>
String<Char_T> mkstr(const std::string &s) {
    Units u(s.begin(), s.end());
    for (auto &x : u) {
        x = widen_unit<Char_T>(x & 0xFF);
    }
    jm::Buf<Char_T> b(u);
    return String<Char_T>{b.cp(), SizeT(b.n)};
}

template <typename Char_T>
void to_value(const VNode &n, Value<Char_T> &v) {
    switch (n.k) {
        case VK::Null: v = nullptr; break;
        case VK::True: v = true; break;
        case VK::False: v = false; break;
        case VK::UInt: v = SizeT64(n.u); break;
        case VK::Int: v = SizeT64I(n.i); break;
        case VK::Real: v = n.d; break;
        case VK::Str: v = mkstr<Char_T>(n.s); break;
        case VK::Arr: {
            v = Value<Char_T>{ValueType::Array};
            for (auto &c : n.arr) {
                Value<Char_T> x;
                to_value(c, x);
                v += Memory::Move(x);
            }
            break;
        }
        case VK::Obj: {
            v = Value<Char_T>{ValueType::Object};
            for (auto &kv : n.obj) {
                Value<Char_T> x;
                to_value(kv.second, x);
                v[mkstr<Char_T>(kv.first)] = Memory::Move(x);
            }
            break;
        }
    }
}

#ifdef VERIF_C17
// The same tree with every second container below the root held through a pointer value (SetPointerToValue): what a caller
// who assembles a document from parts he owns hands to the renderer. The targets live in `pool` and outlive every render.
template <typename Char_T>
void to_value_ptr(const VNode &n, Value<Char_T> &v, std::deque<Value<Char_T>> &pool, unsigned &counter, int depth) {
    if (n.k != VK::Arr && n.k != VK::Obj) {
        to_value(n, v);
        return;
    }
    Value<Char_T> *dst = &v;
    if (depth > 0 && (counter++ % 2) == 0) {
        pool.emplace_back();
        dst = &pool.back();
        v.SetPointerToValue(dst);
    }
    if (n.k == VK::Arr) {
        *dst = Value<Char_T>{ValueType::Array};
        for (auto &c : n.arr) {
            Value<Char_T> x;
            to_value_ptr(c, x, pool, counter, depth + 1);
            *dst += Memory::Move(x);
        }
    } else {
        *dst = Value<Char_T>{ValueType::Object};
        for (auto &kv : n.obj) {
            Value<Char_T> x;
            to_value_ptr(kv.second, x, pool, counter, depth + 1);
            (*dst)[mkstr<Char_T>(kv.first)] = Memory::Move(x);
        }
    }
}
#endif

// ------------------------------------------------------------------------------------------------ reference helpers
std::string escape_html(const std::string &s) { // reference escaper (C03's specification)
    if (!Qentem::Config::AutoEscapeHTML) { // -DQENTEM_AUTO_ESCAPE_HTML=0: {var:} prints like {raw:}
        return s;
    }
    static const char *ents[] = {"&amp;", "&lt;", "&gt;", "&quot;", "&apos;"};
    std::string        o;
    for (size_t i = 0; i < s.size(); ++i) {
        char c = s[i];
        if (c == '&') {
            bool is_ent = false;
            for (const char *en : ents) {
                size_t l = strlen(en);
                if (s.compare(i, l, en) == 0) {
                    o.append(en);
                    i += l - 1;
                    is_ent = true;
                    break;
                }
            }
            if (!is_ent) {
                o += "&amp;";
            }
        } else if (c == '<') {
            o += "&lt;";
        } else if (c == '>') {
            o += "&gt;";
        } else if (c == '"') {
            o += "&quot;";
        } else if (c == '\'') {
            o += "&apos;";
        } else {
            o.push_back(c);
        }
    }
    return o;
}

std::string fmt_real(double d) { // SemiFixed with 2 digits: %.2f without trailing fractional zeros / bare point
    char b[400];
    snprintf(b, sizeof b, "%.2f", d);
    std::string s = b;
    if (s.find('.') != std::string::npos) {
        while (s.back() == '0') {
            s.pop_back();
        }
        if (s.back() == '.') {
            s.pop_back();
        }
    }
    return s;
}

bool scalar_text(const VNode &n, std::string &out) { // printable text of a scalar (unescaped)
    switch (n.k) {
        case VK::Null: out = "null"; return true;
        case VK::True: out = "true"; return true;
        case VK::False: out = "false"; return true;
        case VK::UInt: out = std::to_string(n.u); return true;
        case VK::Int: out = std::to_string(n.i); return true;
        case VK::Real: out = fmt_real(n.d); return true;
        case VK::Str: out = n.s; return true;
        default: return false;
    }
}

struct Num {
    bool   ok{false}, real{false};
    long long i{0};
    double r{0};
    double dbl() const { return real ? r : double(i); }
};
Num num_int(long long v) {
    Num n;
    n.ok = true;
    n.i  = v;
    return n;
}
Num num_real(double v) {
    Num n;
    n.ok   = true;
    n.real = true;
    n.r    = v;
    return n;
}
// numeric reading of a value (documented: numbers, numeric strings, booleans as 1/0, null as 0)
Num value_number(const VNode *n) {
    if (n == nullptr) {
        return Num{};
    }
    switch (n->k) {
        case VK::UInt: return num_int((long long)n->u);
        case VK::Int: return num_int(n->i);
        case VK::Real: return num_real(n->d);
        case VK::True: return num_int(1);
        case VK::False:
        case VK::Null: return num_int(0);
        case VK::Str: {
            const std::string &s = n->s;
            if (s == "12") {
                return num_int(12);
            }
            if (s == "-3.5") {
                return num_real(-3.5);
            }
            return Num{}; // the other generated strings are not numerals
        }
        default: return Num{};
    }
}

// ------------------------------------------------------------------------------------------------ template AST
struct Path {
    int                      loop{-1}; // -1: from the root; otherwise index into the loop-variable scope
    std::string              head;     // root member name, or the loop variable's name
    std::vector<std::string> steps;
    std::string text() const {
        std::string t = head;
        for (auto &s : steps) {
            t += "[" + s + "]";
        }
        return t;
    }
};

struct Expr { // arithmetic / condition expression
    enum K { LitInt, LitReal, Var, Text, Bin } k{LitInt};
    long long             i{0};
    std::string           lit; // spelling of a real literal / bare text
    Path                  p;
    std::string           op;
    std::unique_ptr<Expr> l, r;
};

struct TNode;
using TList = std::vector<std::unique_ptr<TNode>>;
struct TNode {
    enum K { Text, Var, Raw, Math, SVar, InlineIf, If, Loop } k{Text};
    std::string           text;
    Path                  path;
    std::unique_ptr<Expr> expr;
    TList                 subs;     // svar sub tags (Var/Raw/Math)
    // inline if
    TList                 t_parts, f_parts; // Text / Var / Raw / Math
    bool                  has_true{true}, has_false{true}, true_first{true};
    char                  quote{'"'};
    // if
    struct Branch {
        std::unique_ptr<Expr> cond; // null: else
        TList                 body;
        int                   spelling{0};
    };
    std::vector<Branch> branches;
    // loop
    bool        has_set{false}, has_value{true};
    std::string var;
    int         sort{0}; // 0 none 1 ascend 2 descend
    bool        group{false};
    TList       body;
};

// ------------------------------------------------------------------------------------------------ resolution
struct Frame {
    std::string  var;
    const VNode *value;
    bool         from_object;
    std::string  key;
};
struct Env {
    const VNode       *root;
    std::vector<Frame> frames;
};

const VNode *step_into(const VNode *n, const std::string &s) {
    if (n == nullptr) {
        return nullptr;
    }
    if (n->k == VK::Obj) {
        for (auto &kv : n->obj) {
            if (kv.first == s) {
                return &kv.second;
            }
        }
        return nullptr;
    }
    if (n->k == VK::Arr) {
        size_t idx = size_t(strtoul(s.c_str(), nullptr, 10)); // generated ids on arrays are numeric
        return idx < n->arr.size() ? &n->arr[idx] : nullptr;
    }
    return nullptr;
}
// A loop variable is found by its name, innermost loop first: an inner loop may reuse the name of an outer one (shadowing).
// With unique names this is the frame the generator's scope index points at.
const Frame &frame_of(const Path &p, const Env &env) {
    const std::string &name = env.frames[size_t(p.loop)].var;
    for (size_t i = env.frames.size(); i-- > 0;) {
        if (env.frames[i].var == name) {
            return env.frames[i];
        }
    }
    return env.frames[size_t(p.loop)];
}
const VNode *resolve(const Path &p, const Env &env) {
    const VNode *n;
    if (p.loop >= 0) {
        n = frame_of(p, env).value;
    } else {
        n = step_into(env.root, p.head);
    }
    for (auto &s : p.steps) {
        n = step_into(n, s);
    }
    return n;
}

// ------------------------------------------------------------------------------------------------ reference interpreter
struct Ref {
    Env          env;
    std::string  out;

    Num eval(const Expr &x, bool lone) {
        switch (x.k) {
            case Expr::LitInt: return num_int(x.i);
            case Expr::LitReal: return num_real(strtod(x.lit.c_str(), nullptr));
            case Expr::Text: return Num{};
            case Expr::Var: {
                const VNode *v = resolve(x.p, env);
                Num          n = value_number(v);
                if (!n.ok && lone) {
                    // a condition that is a single variable: true for a non-empty string, false otherwise
                    return num_int((v != nullptr && v->k == VK::Str && !v->s.empty()) ? 1 : 0);
                }
                return n;
            }
            default: break;
        }
        const std::string &op = x.op;
        if (op == "==" || op == "!=") {
            auto is_number = [&](const Expr &s) {
                if (s.k == Expr::LitInt || s.k == Expr::LitReal || s.k == Expr::Bin) {
                    return true;
                }
                if (s.k == Expr::Var) {
                    const VNode *v = resolve(s.p, env);
                    return v != nullptr && (v->k == VK::UInt || v->k == VK::Int || v->k == VK::Real);
                }
                return false;
            };
            bool eq;
            if (is_number(*x.l) || is_number(*x.r)) {
                Num a = eval(*x.l, false), b = eval(*x.r, false);
                if (!a.ok || !b.ok) {
                    return Num{};
                }
                eq = (a.real || b.real) ? a.dbl() == b.dbl() : a.i == b.i;
            } else {
                auto txt = [&](const Expr &s, std::string &o) {
                    if (s.k == Expr::Text) {
                        o = s.lit;
                        return true;
                    }
                    const VNode *v = resolve(s.p, env);
                    if (v == nullptr) {
                        return false;
                    }
                    if (v->k == VK::Str || v->k == VK::True || v->k == VK::False || v->k == VK::Null) {
                        return scalar_text(*v, o);
                    }
                    return false;
                };
                std::string a, b;
                if (!txt(*x.l, a) || !txt(*x.r, b)) {
                    return Num{};
                }
                eq = (a == b);
            }
            return num_int((op == "==") ? eq : !eq);
        }
        Num a = eval(*x.l, false), b = eval(*x.r, false);
        if (!a.ok || !b.ok) {
            return Num{};
        }
        bool real = a.real || b.real;
        // (a result that does not fit 64 bits is outside the documented arithmetic: the case is discarded, see g_ref_overflow)
        long long r = 0;
        if (op == "+") {
            if (!real && __builtin_add_overflow(a.i, b.i, &r)) {
                g_ref_overflow = true;
            }
            return real ? num_real(a.dbl() + b.dbl()) : num_int(r);
        }
        if (op == "-") {
            if (!real && __builtin_sub_overflow(a.i, b.i, &r)) {
                g_ref_overflow = true;
            }
            return real ? num_real(a.dbl() - b.dbl()) : num_int(r);
        }
        if (op == "*") {
            if (!real && __builtin_mul_overflow(a.i, b.i, &r)) {
                g_ref_overflow = true;
            }
            return real ? num_real(a.dbl() * b.dbl()) : num_int(r);
        }
        if (op == "/") {
            if (b.dbl() == 0) {
                return Num{};
            }
            return num_real(a.dbl() / b.dbl());
        }
        if (op == ">") {
            return num_int(real ? a.dbl() > b.dbl() : a.i > b.i);
        }
        if (op == "<") {
            return num_int(real ? a.dbl() < b.dbl() : a.i < b.i);
        }
        if (op == ">=") {
            return num_int(real ? a.dbl() >= b.dbl() : a.i >= b.i);
        }
        if (op == "<=") {
            return num_int(real ? a.dbl() <= b.dbl() : a.i <= b.i);
        }
        if (op == "&&") {
            return num_int(a.dbl() > 0 && b.dbl() > 0);
        }
        if (op == "||") {
            return num_int(a.dbl() > 0 || b.dbl() > 0);
        }
        return Num{};
    }

    void render_var(const TNode &t, const std::string &source, bool raw) {
        const VNode *v = resolve(t.path, env);
        std::string  s;
        if (v != nullptr && scalar_text(*v, s)) {
            out += raw ? s : escape_html(s);
            return;
        }
        // not printable: inside an object loop the loop variable itself prints the member's key ({var:} only)
        if (!raw && t.path.loop >= 0 && t.path.steps.empty()) {
            const Frame &f = frame_of(t.path, env);
            if (f.from_object && !f.key.empty()) {
                out += escape_html(f.key);
                return;
            }
        }
        out += raw ? source : escape_html(source);
    }
    void render_math(const TNode &t, const std::string &source) {
        Num n = eval(*t.expr, false);
        if (!n.ok) {
            out += source;
            return;
        }
        out += n.real ? fmt_real(n.r) : std::to_string(n.i);
    }
    void render_inline(const TNode &t); // Var / Raw / Math / Text
    void render_list(const TList &l);
    void render(const TNode &t);
};

// ------------------------------------------------------------------------------------------------ spelling
std::string spell_expr(const Expr &x, bool top = true) {
    switch (x.k) {
        case Expr::LitInt: return std::to_string(x.i);
        case Expr::LitReal:
        case Expr::Text: return x.lit;
        case Expr::Var: return "{var:" + x.p.text() + "}";
        default: {
            // parentheses only where the documented precedence does not already give this grouping:
            // (* /) bind tighter than (+ -), which bind tighter than comparisons, which bind tighter than && ||;
            // a left-nested chain of one and the same arithmetic operator is written without parentheses
            auto group = [](const std::string &op) { return (op == "*" || op == "/") ? 1 : (op == "+" || op == "-") ? 2 : (op == "&&" || op == "||") ? 5 : 4; };
            auto child = [&](const Expr &c, bool right) {
                std::string t = spell_expr(c, false);
                if (c.k != Expr::Bin) {
                    return t;
                }
                bool tighter = group(c.op) < group(x.op);
                bool chain   = (!right && c.op == x.op && group(x.op) <= 2);
                return (tighter || chain) ? t.substr(1, t.size() - 2) : t; // strip the parentheses spell_expr(false) added
            };
            std::string s = child(*x.l, false) + " " + x.op + " " + child(*x.r, true);
            if (top && g_alias) {
                // look-alike mode: the whole expression may stand in one or two pairs of parentheses ((E) means E)
                const size_t w = (s.size() * 7 + size_t(x.op[0])) % 5;
                return w == 1 ? "(" + s + ")" : w == 2 ? "((" + s + "))" : w == 3 ? "( " + s + " )" : s;
            }
            return top ? s : "(" + s + ")";
        }
    }
}
std::string spell(const TNode &t);
std::string spell_list(const TList &l) {
    std::string s;
    for (auto &n : l) {
        s += spell(*n);
    }
    return s;
}
std::string spell(const TNode &t) {
    switch (t.k) {
        case TNode::Text: return t.text;
        case TNode::Var: return "{var:" + t.path.text() + "}";
        case TNode::Raw: return "{raw:" + t.path.text() + "}";
        case TNode::Math: return "{math:" + spell_expr(*t.expr) + "}";
        case TNode::SVar: {
            std::string s = "{svar:" + t.path.text();
            for (auto &sub : t.subs) {
                s += ", " + spell(*sub);
            }
            if (t.subs.empty()) {
                s += (t.path.head.size() % 2) ? "," : ", ";
            }
            return s + "}";
        }
        case TNode::InlineIf: {
            std::string q(1, t.quote);
            std::string s   = "{if case=" + q + spell_expr(*t.expr) + q;
            std::string tr  = " true=" + q + spell_list(t.t_parts) + q;
            std::string fa  = " false=" + q + spell_list(t.f_parts) + q;
            if (t.true_first) {
                s += (t.has_true ? tr : "") + (t.has_false ? fa : "");
            } else {
                s += (t.has_false ? fa : "") + (t.has_true ? tr : "");
            }
            return s + "}";
        }
        case TNode::If: {
            std::string s;
            for (size_t i = 0; i < t.branches.size(); ++i) {
                auto &b = t.branches[i];
                if (i == 0) {
                    s += "<if case=\"" + spell_expr(*b.cond) + "\">";
                } else if (b.cond) {
                    static const char *pre[] = {"<else if case=\"", "<elseif case=\"", "<else if case=\"", "<elseif case=\""};
                    static const char *suf[] = {"\">", "\" />", "\" />", "\">"};
                    s += std::string(pre[b.spelling & 3]) + spell_expr(*b.cond) + suf[b.spelling & 3];
                } else {
                    s += (b.spelling & 1) ? "<else />" : "<else>";
                }
                s += spell_list(b.body);
            }
            return s + "</if>";
        }
        default: { // loop
            std::string q(1, t.quote);
            std::string s = "<loop";
            std::string a[4];
            if (t.has_set) {
                a[0] = " set=" + q + t.path.text() + q;
            }
            if (t.has_value) {
                a[1] = " value=" + q + t.var + q;
            }
            if (t.group) {
                a[2] = " group=" + q + g_gkey + q;
            }
            if (t.sort != 0) {
                a[3] = " sort=" + q + (t.sort == 1 ? "ascend" : "descend") + q;
            }
            // the attributes may come in any order (look-alike mode varies it; otherwise set, value, group, sort)
            static const int orders[6][4] = {{0, 1, 2, 3}, {1, 0, 2, 3}, {3, 2, 1, 0}, {2, 0, 3, 1}, {1, 3, 0, 2}, {0, 3, 2, 1}};
            const int       *ord          = orders[g_alias ? (t.var.size() * 3 + t.path.text().size() + size_t(t.sort)) % 6 : 0];
            for (int k = 0; k < 4; ++k) {
                s += a[ord[k]];
            }
            return s + ">" + spell_list(t.body) + "</loop>";
        }
    }
}

void Ref::render_inline(const TNode &t) { render(t); }
void Ref::render_list(const TList &l) {
    for (auto &n : l) {
        render(*n);
    }
}

bool sortable_scalars(const VNode &a) { // distinct scalars of one kind
    if (a.arr.empty()) {
        return true;
    }
    VK k = a.arr[0].k;
    if (k != VK::UInt && k != VK::Str && k != VK::Real && k != VK::Int) {
        return false;
    }
    for (size_t i = 0; i < a.arr.size(); ++i) {
        if (a.arr[i].k != k) {
            return false;
        }
        for (size_t j = 0; j < i; ++j) {
            std::string x, y;
            scalar_text(a.arr[i], x);
            scalar_text(a.arr[j], y);
            if (x == y) {
                return false;
            }
        }
    }
    return true;
}
bool less_scalar(const VNode &a, const VNode &b) {
    switch (a.k) {
        case VK::UInt: return a.u < b.u;
        case VK::Int: return a.i < b.i;
        case VK::Real: return a.d < b.d;
        default: return a.s < b.s; // ASCII
    }
}
bool groupable(const VNode &a) {
    if (a.k != VK::Arr || a.arr.empty()) {
        return false;
    }
    for (auto &o : a.arr) {
        if (o.k != VK::Obj) {
            return false;
        }
        bool has = false;
        for (auto &kv : o.obj) {
            std::string t;
            has = has || (kv.first == g_gkey && scalar_text(kv.second, t));
        }
        if (!has) {
            return false;
        }
    }
    return true;
}
VNode group_by_g(const VNode &a) {
    VNode g;
    g.k = VK::Obj;
    for (auto &o : a.arr) {
        std::string name;
        VNode       rest;
        rest.k = VK::Obj;
        for (auto &kv : o.obj) {
            if (kv.first == g_gkey) {
                scalar_text(kv.second, name);
                if (kv.second.k == VK::Real) { // GroupBy prints reals with the default format (not generated here)
                    name = fmt_real(kv.second.d);
                }
            } else {
                rest.obj.push_back(kv);
            }
        }
        VNode *slot = nullptr;
        for (auto &kv : g.obj) {
            if (kv.first == name) {
                slot = &kv.second;
            }
        }
        if (slot == nullptr) {
            VNode arr;
            arr.k = VK::Arr;
            g.obj.emplace_back(name, arr);
            slot = &g.obj.back().second;
        }
        slot->arr.push_back(rest);
    }
    return g;
}

void Ref::render(const TNode &t) {
    switch (t.k) {
        case TNode::Text: out += t.text; break;
        case TNode::Var: render_var(t, spell(t), false); break;
        case TNode::Raw: render_var(t, spell(t), true); break;
        case TNode::Math: render_math(t, spell(t)); break;
        case TNode::SVar: {
            const VNode *p = resolve(t.path, env);
            std::string  phrase;
            if (p == nullptr || !(p->k == VK::Str || p->k == VK::True || p->k == VK::False || p->k == VK::Null) || !scalar_text(*p, phrase)) {
                out += spell(t);
                break;
            }
            std::string lit;
            for (size_t i = 0; i < phrase.size();) {
                if (phrase[i] == '{' && i + 2 < phrase.size() && phrase[i + 1] >= '0' && phrase[i + 1] <= '9' && phrase[i + 2] == '}' &&
                    size_t(phrase[i + 1] - '0') < t.subs.size()) {
                    out += escape_html(lit);
                    lit.clear();
                    render(*t.subs[size_t(phrase[i + 1] - '0')]);
                    i += 3;
                } else {
                    lit.push_back(phrase[i]);
                    ++i;
                }
            }
            out += escape_html(lit);
            break;
        }
        case TNode::InlineIf: {
            Num n = eval(*t.expr, t.expr->k == Expr::Var);
            if (!n.ok) {
                break; // a case that cannot be evaluated renders nothing
            }
            if (n.dbl() > 0) {
                if (t.has_true) {
                    render_list(t.t_parts);
                }
            } else if (t.has_false) {
                render_list(t.f_parts);
            }
            break;
        }
        case TNode::If: {
            for (auto &b : t.branches) {
                if (!b.cond) {
                    render_list(b.body);
                    break;
                }
                Num n = eval(*b.cond, b.cond->k == Expr::Var);
                if (n.ok && n.dbl() > 0) {
                    render_list(b.body);
                    break;
                }
            }
            break;
        }
        default: { // loop
            const VNode *set = t.has_set ? resolve(t.path, env) : env.root;
            if (set == nullptr || (set->k != VK::Arr && set->k != VK::Obj)) {
                break;
            }
            VNode work;
            if (t.group) {
                if (!groupable(*set)) {
                    break;
                }
                work = group_by_g(*set);
                set  = &work;
            }
            VNode sorted;
            if (t.sort != 0) {
                sorted = *set;
                if (sorted.k == VK::Arr) {
                    std::sort(sorted.arr.begin(), sorted.arr.end(), less_scalar);
                    if (t.sort == 2) {
                        std::reverse(sorted.arr.begin(), sorted.arr.end());
                    }
                } else {
                    std::sort(sorted.obj.begin(), sorted.obj.end(), [](const std::pair<std::string, VNode> &a, const std::pair<std::string, VNode> &b) { return a.first < b.first; });
                    if (t.sort == 2) {
                        std::reverse(sorted.obj.begin(), sorted.obj.end());
                    }
                }
                set = &sorted;
            }
            if (set->k == VK::Arr) {
                for (auto &el : set->arr) {
                    if (t.has_value) { // a loop without value= binds nothing (frame indices follow the generator's scope)
                        env.frames.push_back(Frame{t.var, &el, false, ""});
                    }
                    render_list(t.body);
                    if (t.has_value) {
                        env.frames.pop_back();
                    }
                }
            } else {
                for (auto &kv : set->obj) {
                    if (t.has_value) {
                        env.frames.push_back(Frame{t.var, &kv.second, true, kv.first});
                    }
                    render_list(t.body);
                    if (t.has_value) {
                        env.frames.pop_back();
                    }
                }
            }
        }
    }
}

// ------------------------------------------------------------------------------------------------ template generation
struct GenScope {
    struct LV {
        std::string  name;
        const VNode *sample; // a representative element (first one) to pick sub-paths from; may be null
        bool         from_object;
        bool         steps_ok{true}; // sub-paths only for loops over an array named from the root (elements of a set reached
                                     // through another loop variable can be arrays for one element and objects for the next)
    };
    std::vector<LV> loops;
    int             counter{0};
};

struct Gen {
    Entropy     &e;
    const VNode &root;
    int          tags{0}, resolved{0};
    unsigned     kinds_mask{0};
    int          max_depth{0};
    bool         loop_in_if{false}, uses_sort{false}, uses_group{false}, has_unresolved{false};

    // pick a path; prefer existing members, sometimes a missing one
    Path gen_path(const GenScope &sc, bool want_scalar, const VNode **target = nullptr) {
        Path         p;
        const VNode *n = nullptr;
        if (!sc.loops.empty() && e.chance(65)) {
            p.loop        = int(e.below(uint32_t(sc.loops.size())));
            for (size_t j = sc.loops.size(); j-- > size_t(p.loop) + 1;) { // the name may be reused further in: that loop is the one it names
                if (sc.loops[j].name == sc.loops[size_t(p.loop)].name) {
                    p.loop = int(j);
                    break;
                }
            }
            const auto &lv = sc.loops[size_t(p.loop)];
            p.head         = lv.name;
            n              = lv.sample;
            // sub-paths of object-loop variables are kept to printable members (what an unresolved one prints is undocumented)
            // the members of an object can be of different shapes and what an unresolved sub-path of an object-loop variable
            // prints is not documented (the code prints the member's key): object-loop variables are used without sub-path
            unsigned steps = (lv.from_object || !lv.steps_ok) ? 0 : e.below(3);
            for (unsigned i = 0; i < steps && n != nullptr; ++i) {
                if (n->k == VK::Obj && !n->obj.empty()) {
                    auto &kv = n->obj[e.below(uint32_t(n->obj.size()))];
                    if (lv.from_object && (kv.second.k == VK::Arr || kv.second.k == VK::Obj)) {
                        break;
                    }
                    p.steps.push_back(kv.first);
                    n = &kv.second;
                } else if (n->k == VK::Arr && !n->arr.empty()) {
                    size_t idx = e.below(uint32_t(n->arr.size()));
                    if (lv.from_object && (n->arr[idx].k == VK::Arr || n->arr[idx].k == VK::Obj)) {
                        break;
                    }
                    p.steps.push_back(std::to_string(idx));
                    n = &n->arr[idx];
                } else {
                    break;
                }
            }
            if (!lv.from_object && lv.steps_ok && e.chance(8)) {
                // an unresolvable step: a key no object has, or a numeric id past the end (ids on arrays are numeric by the documentation)
                p.steps.push_back("99"); // past the end of any generated array, and no object has such a key
                n = nullptr;
            }
        } else {
            auto &kv = root.obj[e.below(uint32_t(root.obj.size()))];
            p.head   = kv.first;
            n        = &kv.second;
            if (e.chance(7)) {
                p.head = "missing";
                n      = nullptr;
            }
            unsigned steps = e.below(3);
            for (unsigned i = 0; i < steps && n != nullptr; ++i) {
                if (n->k == VK::Obj && !n->obj.empty()) {
                    auto &c = n->obj[e.below(uint32_t(n->obj.size()))];
                    p.steps.push_back(c.first);
                    n = &c.second;
                } else if (n->k == VK::Arr && !n->arr.empty()) {
                    size_t idx = e.below(uint32_t(n->arr.size()));
                    p.steps.push_back(std::to_string(idx));
                    n = &n->arr[idx];
                } else {
                    if (e.chance(10)) {
                        p.steps.push_back("99");
                        n = nullptr;
                    }
                    break;
                }
            }
        }
        (void)want_scalar;
        if (target != nullptr) {
            *target = n;
        }
        if (n == nullptr) {
            has_unresolved = true;
        } else {
            ++resolved;
        }
        return p;
    }

    std::unique_ptr<Expr> gen_operand(const GenScope &sc) {
        auto x = std::make_unique<Expr>();
        switch (e.below(6)) {
            case 0:
            case 1: x->k = Expr::LitInt; x->i = e.below(30); break;
            case 2: x->k = Expr::LitReal; x->lit = (const char *[]){"0.5", "2.5", "10.25", "1.005"}[e.below(4)]; break;
            default: x->k = Expr::Var; x->p = gen_path(sc, true); break;
        }
        return x;
    }
    std::unique_ptr<Expr> gen_arith(const GenScope &sc, int depth) {
        if (depth <= 0 || e.chance(35)) {
            return gen_operand(sc);
        }
        auto x = std::make_unique<Expr>();
        x->k   = Expr::Bin;
        x->op  = (const char *[]){"+", "-", "*", "/", "+", "*"}[e.below(6)];
        x->l   = gen_arith(sc, depth - 1);
        x->r   = gen_arith(sc, depth - 1);
        return x;
    }
    std::unique_ptr<Expr> gen_cond(const GenScope &sc, int depth) {
        auto x = std::make_unique<Expr>();
        switch (e.below(depth > 0 ? 7 : 5)) {
            case 0: // lone variable
                x->k = Expr::Var;
                x->p = gen_path(sc, true);
                return x;
            case 1: x->k = Expr::LitInt; x->i = e.below(2); return x;
            case 2:
            case 3: { // numeric comparison
                x->k  = Expr::Bin;
                x->op = (const char *[]){">", "<", ">=", "<=", "==", "!="}[e.below(6)];
                x->l  = gen_arith(sc, 1);
                x->r  = gen_operand(sc);
                return x;
            }
            case 4: { // textual equality
                x->k     = Expr::Bin;
                x->op    = e.chance(50) ? "==" : "!=";
                x->l     = std::make_unique<Expr>();
                x->l->k  = Expr::Var;
                x->l->p  = gen_path(sc, true);
                x->r     = std::make_unique<Expr>();
                x->r->k  = Expr::Text;
                x->r->lit = (const char *[]){"plain", "true", "zeta", "x y", "null", "alpha"}[e.below(6)];
                return x;
            }
            default: {
                x->k  = Expr::Bin;
                x->op = e.chance(50) ? "&&" : "||";
                x->l  = gen_cond(sc, depth - 1);
                x->r  = gen_cond(sc, depth - 1);
                // a lone variable inside && / || is an arithmetic operand (no string truthiness): make both sides comparisons or literals
                if (x->l->k == Expr::Var) {
                    x->l = gen_arith(sc, 0);
                }
                if (x->r->k == Expr::Var) {
                    x->r = gen_arith(sc, 0);
                }
                return x;
            }
        }
    }

    std::unique_ptr<TNode> gen_text() {
        static const char *t[] = {"", " ", "Hello, ", "a & b ", "1 < 2 ", "\n", "line\n", "<b>bold</b>", "100%", "(x) ", "q=\"1\" ", "it's ", "[", "]", ": ", ", "};
        // the same with look-alikes: {var:a}, <loop>, </if>, {math:1+1} ... spelled with units whose low bytes are the syntax characters
        static const char *a[] = {"", " ", "\xFBvar:a\xFD ", "a \xA6 b ", "\xBCif case=\xA2" "1\xA2\xBE", "\n", "\xBC/loop\xBE", "\xBC" "b>bold</b\xBE", "{\xF6" "ar:a}",
                                  "\xFBmath:1+1\xFD", "{raw\xBA" "a}", "\xFBsvar:phrase, \xFBvar:a\xFD\xFD", "\xDB", "\xDD", "\xBA ", "\xFBif case=\"1\" true=\"x\"\xFD"};
        // alias == 2: every other text run is a word that starts like a tag but is none (the documented tags are <if, <loop and <else)
        static const char *h[] = {"", "<iframe src=\"x\"></iframe>", " ", "<elsewhere>", "<loops>", "<ifx>", "\n", "<else-branch/>", "<b>bold</b>", "<loop2 a>",
                                  "</iframe>", "<if_a>", "<iffy case=\"1\">", "<looping>", "<elsew>", "<ifs>"};
        auto               n    = std::make_unique<TNode>();
        n->k                    = TNode::Text;
        const unsigned     idx  = e.below(16);
        n->text                 = (g_gkey[1] != 0 && (idx & 1) != 0) ? h[idx] : (g_alias ? a : t)[idx];
        return n;
    }
    std::unique_ptr<TNode> gen_simple(const GenScope &sc) { // Var / Raw / Math
        auto n = std::make_unique<TNode>();
        ++tags;
        switch (e.below(5)) {
            case 0:
            case 1: n->k = TNode::Var; n->path = gen_path(sc, true); kinds_mask |= 1; break;
            case 2: n->k = TNode::Raw; n->path = gen_path(sc, true); kinds_mask |= 2; break;
            default: n->k = TNode::Math; n->expr = gen_arith(sc, 3); kinds_mask |= 4;
                if (n->expr->k != Expr::Bin) { // a math tag holds an expression
                    auto b = std::make_unique<Expr>();
                    b->k   = Expr::Bin;
                    b->op  = "+";
                    b->l   = std::move(n->expr);
                    b->r   = std::make_unique<Expr>();
                    b->r->k = Expr::LitInt;
                    b->r->i = e.below(5);
                    n->expr = std::move(b);
                }
                break;
        }
        return n;
    }
    void gen_attr_parts(const GenScope &sc, TList &parts) { // inline-if attribute: text without quotes/braces + sub tags
        static const char *t[] = {"yes ", "no", "", "x=", " (ok) ", "A & B "};
        unsigned           n    = e.below(3);
        parts.push_back([&] {
            auto x  = std::make_unique<TNode>();
            x->k    = TNode::Text;
            x->text = t[e.below(6)];
            return x;
        }());
        for (unsigned i = 0; i < n; ++i) {
            parts.push_back(gen_simple(sc));
            auto x  = std::make_unique<TNode>();
            x->k    = TNode::Text;
            x->text = t[e.below(6)];
            parts.push_back(std::move(x));
        }
    }

    // "nested to any depth": a chain of 7..13 nested loops (over the two-element set) and ifs whose innermost body prints
    // the values of several enclosing loops; every enclosing loop has a second iteration after the deepest tag was rendered
    std::unique_ptr<TNode> gen_deep(GenScope &sc) {
        unsigned               levels = 7 + e.below(7);
        std::unique_ptr<TNode> top;
        TNode                 *cur = nullptr;
        std::vector<int>       vars;
        size_t                 pushed = 0;
        // one deep case in seven goes far beyond 255 open tags: a few loops with 250-262 <if> levels in front of the first and / or
        // between the first and the second (what the tag records count in 8 bits must not limit what is expanded)
        std::vector<int> forced; // 1 loop, 0 if; empty: drawn per level as before
        if (levels == 13) {
            const unsigned pre = (tags % 2 == 0) ? 250 + unsigned(tags) % 13 : 0;
            const unsigned mid = (pre == 0 || tags % 3 == 0) ? 250 + unsigned(sc.counter) % 13 : 0;
            forced.insert(forced.end(), pre, 0);
            forced.push_back(1);
            forced.insert(forced.end(), mid, 0);
            forced.push_back(1);
            forced.push_back(1);
            levels    = unsigned(forced.size());
            very_deep = true;
        }
        for (unsigned i = 0; i < levels; ++i) {
            auto n = std::make_unique<TNode>();
            ++tags;
            TList *body;
            if (forced.empty() ? (e.chance(75) || i + 1 == levels) : (forced[i] == 1)) {
                n->k            = TNode::Loop;
                n->has_set      = true;
                n->path.head    = "pair";
                n->has_value    = true;
                n->var          = "it" + std::to_string(++sc.counter);
                n->quote        = '"';
                kinds_mask |= 64;
                sc.loops.push_back(GenScope::LV{n->var, nullptr, false, false});
                ++pushed;
                vars.push_back(int(sc.loops.size()) - 1);
                body = &n->body;
            } else {
                n->k = TNode::If;
                kinds_mask |= 32;
                TNode::Branch b;
                b.cond    = std::make_unique<Expr>();
                b.cond->k = Expr::LitInt;
                b.cond->i = 1;
                n->branches.push_back(std::move(b));
                body = &n->branches[0].body;
            }
            TNode *raw = n.get();
            if (cur == nullptr) {
                top = std::move(n);
            } else {
                TList *pb = (cur->k == TNode::Loop) ? &cur->body : &cur->branches[0].body;
                pb->push_back(std::move(n));
            }
            cur = raw;
            (void)body;
        }
        // innermost body: print up to four of the enclosing loop values, outermost first
        TList *inner = (cur->k == TNode::Loop) ? &cur->body : &cur->branches[0].body;
        for (size_t k = 0; k < vars.size(); ++k) {
            if (k < 2 || k + 2 >= vars.size()) {
                auto v       = std::make_unique<TNode>();
                v->k         = TNode::Var;
                v->path.loop = vars[k];
                v->path.head = sc.loops[size_t(vars[k])].name;
                ++tags;
                ++resolved;
                inner->push_back(std::move(v));
                auto t  = std::make_unique<TNode>();
                t->k    = TNode::Text;
                t->text = ",";
                inner->push_back(std::move(t));
            }
        }
        auto t  = std::make_unique<TNode>();
        t->k    = TNode::Text;
        t->text = ";";
        inner->push_back(std::move(t));
        for (size_t k = 0; k < pushed; ++k) {
            sc.loops.pop_back();
        }
        if (int(levels) > max_depth) {
            max_depth = int(levels);
        }
        deep = true;
        return top;
    }
    bool deep{false}, very_deep{false};

    void gen_list(GenScope &sc, TList &out, int depth, bool inside_if) {
        if (depth > max_depth) {
            max_depth = depth;
        }
        if (depth == 1 && e.chance(7)) {
            out.push_back(gen_text());
            out.push_back(gen_deep(sc));
        }
        unsigned n = 1 + e.below(3);
        for (unsigned i = 0; i < n; ++i) {
            out.push_back(gen_text());
            out.push_back(gen_tag(sc, depth, inside_if));
        }
        out.push_back(gen_text());
    }

    std::unique_ptr<TNode> gen_tag(GenScope &sc, int depth, bool inside_if) {
        unsigned pick = e.below(depth < 4 ? 12 : 6);
        if (pick < 4) {
            return gen_simple(sc);
        }
        auto n = std::make_unique<TNode>();
        ++tags;
        if (pick == 4) { // super variable
            n->k = TNode::SVar;
            kinds_mask |= 8;
            n->path.head = e.chance(75) ? "phrase" : root.obj[e.below(uint32_t(root.obj.size()))].first;
            unsigned c   = 1 + e.below(3);
            for (unsigned i = 0; i < c; ++i) {
                n->subs.push_back(gen_simple(sc));
            }
            if (g_alias && (size_t(tags) + n->path.head.size()) % 4 == 0) {
                n->subs.clear(); // look-alike mode: a comma and no sub tag at all ({svar:phrase, }): the phrase is printed as it is
            }
            return n;
        }
        if (pick == 5) { // inline if
            n->k = TNode::InlineIf;
            kinds_mask |= 16;
            n->expr       = gen_cond(sc, 1);
            n->quote      = e.chance(50) ? '"' : '\'';
            n->has_true   = e.chance(85);
            n->has_false  = e.chance(70) || !n->has_true;
            n->true_first = e.chance(70);
            gen_attr_parts(sc, n->t_parts);
            gen_attr_parts(sc, n->f_parts);
            // the attribute text must not contain the quote in use
            for (auto *pl : {&n->t_parts, &n->f_parts}) {
                for (auto &p : *pl) {
                    if (p->k == TNode::Text) {
                        for (auto &ch : p->text) {
                            if (ch == n->quote) {
                                ch = '_';
                            }
                        }
                    }
                }
            }
            // expressions inside a quoted attribute must not contain the quote either (they never do: no quotes in expressions)
            return n;
        }
        if (pick <= 8) { // if / else if / else
            n->k = TNode::If;
            kinds_mask |= 32;
            unsigned extra = e.below(3);
            for (unsigned i = 0; i <= extra; ++i) {
                TNode::Branch b;
                b.cond     = gen_cond(sc, 1);
                b.spelling = int(e.below(4));
                gen_list(sc, b.body, depth + 1, true);
                n->branches.push_back(std::move(b));
            }
            if (e.chance(55)) {
                TNode::Branch b;
                b.spelling = int(e.below(2));
                gen_list(sc, b.body, depth + 1, true);
                n->branches.push_back(std::move(b));
            }
            return n;
        }
        // loop
        n->k = TNode::Loop;
        kinds_mask |= 64;
        if (inside_if) {
            loop_in_if = true;
        }
        n->quote        = e.chance(50) ? '"' : '\'';
        const VNode *set = nullptr;
        n->has_set       = e.chance(88);
        if (n->has_set) {
            // prefer containers
            for (int tries = 0; tries < 6; ++tries) {
                n->path = gen_path(sc, false, &set);
                if (set != nullptr && (set->k == VK::Arr || set->k == VK::Obj)) {
                    break;
                }
            }
        } else {
            set = &root;
        }
        n->has_value = e.chance(90);
        n->var       = "it" + std::to_string(++sc.counter);
        if (g_gkey[1] != 0) {
            // alias == 2: loop values are named by the first letter(s) of the root's members (num / neg, str / set, items, pair / phrase, flag, map):
            // {var:num} inside <loop value="n"> is still the root's member
            static const char *const pre[] = {"n", "s", "i", "p", "f", "ma", "it", "nu"};
            n->var = std::string(pre[sc.counter % 8]) + (sc.counter >= 8 ? std::to_string(sc.counter) : std::string());
        }
        if (g_alias && n->has_set && n->has_value && n->path.loop >= 0 && (sc.counter % 2) == 0) {
            // look-alike mode: an inner loop over a member of an outer loop's item reuses the outer loop's name
            // (<loop value="it1" set="it1[kids]">): its set still means the outer item, its body the inner one
            n->var = sc.loops[size_t(n->path.loop)].name;
        }
        const bool static_set = (!n->has_set || n->path.loop < 0); // sort / group only where the set is known: named from the root
        if (static_set && set != nullptr && set->k == VK::Arr && groupable(*set) && e.chance(50)) {
            n->group = true;
            uses_group = true;
        }
        const VNode *sample = nullptr;
        VNode        grouped;
        bool         from_object = false;
        if (set != nullptr) {
            if (n->group) {
                from_object = true; // iterates the groups (an object of arrays); the sample is not needed for sub-paths
            } else if (set->k == VK::Arr) {
                sample = set->arr.empty() ? nullptr : &set->arr[0];
                if (static_set && sortable_scalars(*set) && e.chance(45)) {
                    n->sort   = 1 + int(e.below(2));
                    uses_sort = true;
                }
            } else if (set->k == VK::Obj) {
                from_object = true;
                sample      = set->obj.empty() ? nullptr : &set->obj[0].second;
                if (static_set && e.chance(35)) {
                    n->sort   = 1 + int(e.below(2));
                    uses_sort = true;
                }
            }
            if (n->group && e.chance(40)) {
                n->sort   = 1 + int(e.below(2));
                uses_sort = true;
            }
        }
        if (n->has_value) {
            GenScope::LV lv{n->var, sample, from_object};
            bool same_shape = true; // a key on an array element / an id on an object element is outside the documented grammar
            if (set != nullptr && set->k == VK::Arr) {
                for (auto &el : set->arr) {
                    same_shape = same_shape && ((el.k == VK::Obj) == (set->arr[0].k == VK::Obj)) && ((el.k == VK::Arr) == (set->arr[0].k == VK::Arr));
                }
            }
            lv.steps_ok = (n->has_set && n->path.loop < 0 && set != nullptr && set->k == VK::Arr && !n->group && same_shape);
            sc.loops.push_back(lv);
        }
        if (n->group && n->has_value && e.chance(70)) {
            // the documented pattern: print the group, then loop over its members
            auto head   = std::make_unique<TNode>();
            head->k     = TNode::Var;
            head->path.loop = int(sc.loops.size()) - 1;
            head->path.head = n->var;
            ++tags;
            n->body.push_back(std::move(head));
            auto inner       = std::make_unique<TNode>();
            inner->k         = TNode::Loop;
            inner->has_set   = true;
            inner->path.loop = int(sc.loops.size()) - 1;
            inner->path.head = n->var;
            inner->has_value = true;
            inner->var       = "it" + std::to_string(++sc.counter);
            const VNode *member = (set != nullptr && !set->arr.empty()) ? &set->arr[0] : nullptr;
            sc.loops.push_back(GenScope::LV{inner->var, member, false, true});
            auto pv       = std::make_unique<TNode>();
            pv->k         = TNode::Var;
            pv->path.loop = int(sc.loops.size()) - 1;
            pv->path.head = inner->var;
            pv->path.steps.push_back(e.chance(50) ? "title" : "id");
            ++tags;
            inner->body.push_back(gen_text());
            inner->body.push_back(std::move(pv));
            sc.loops.pop_back();
            n->body.push_back(std::move(inner));
        } else {
            gen_list(sc, n->body, depth + 1, inside_if);
        }
        if (n->has_value) {
            sc.loops.pop_back();
        }
        return n;
    }
};

struct Scenario {
    VNode root;
    TList tpl;
    std::string text;
    std::string expect;
    int  tags{0}, resolved{0}, depth{0};
    unsigned kinds{0};
    bool loop_in_if{false}, sort{false}, group{false}, unresolved{false}, deep{false}, very_deep{false};
    bool pointers{false}; // C17 only: containers reached through pointer values (a function of the case bytes, no entropy is spent)
    bool big_root{false}; // C17 only: 24 more members in the root object (tables above 16 items, longer collision chains)
};

void make_scenario(const Case &c, Scenario &s) {
    Entropy e(c.bytes);
    g_alias = (c.alias != 0);
    g_gkey  = (c.alias == 2) ? "year" : "g";
    s.root = gen_root(e);
    Gen      g{e, s.root};
    GenScope sc;
    g.gen_list(sc, s.tpl, 1, false);
    s.text = spell_list(s.tpl);
    Ref r;
    r.env.root = &s.root;
    r.render_list(s.tpl);
    s.expect     = r.out;
    s.tags       = g.tags;
    s.resolved   = g.resolved;
    s.depth      = g.max_depth;
    s.kinds      = g.kinds_mask;
    s.loop_in_if = g.loop_in_if;
    s.sort       = g.uses_sort;
    s.group      = g.uses_group;
    s.unresolved = g.has_unresolved;
    s.deep       = g.deep;
    s.very_deep  = g.very_deep;
#ifdef VERIF_C17
    {
        std::string key(c.bytes.begin(), c.bytes.end());
        s.pointers = (pbt::fnv1a(key) % 3) == 0;
        s.big_root = ((pbt::fnv1a(key) >> 8) % 3) == 1;
    }
#endif
}

template <typename Char_T>
std::string render_with_library(const Scenario &s, pbt::Ctx &ctx) {
    (void)ctx;
    Value<Char_T> v;
#ifdef VERIF_C17
    std::deque<Value<Char_T>> pool;
    if (s.pointers) {
        unsigned counter = 0;
        to_value_ptr(s.root, v, pool, counter, 0);
    } else {
        to_value(s.root, v);
    }
    if (s.big_root && v.IsObject()) {
        // a bigger table: lookups walk collision chains, and whatever a lookup might cache or reorder would be shared by the threads
        for (int i = 0; i < 24; ++i) {
            v[mkstr<Char_T>("zz" + std::to_string(i * 7))] = i;
        }
    }
    StringStream<Char_T> value_before;
    v.Stringify(value_before, 17U);
#else
    to_value(s.root, v);
#endif
    Units               tu(s.text.begin(), s.text.end());
    for (auto &x : tu) {
        x = widen_unit<Char_T>(x & 0xFF);
    }
    jm::Buf<Char_T>      tb(tu);
    StringStream<Char_T> out;
#ifndef VERIF_C17
    Template::Render(tb.cp(), SizeT(tb.n), v, out);
#else
    using TC = TemplateCore<Char_T, Value<Char_T>, StringStream<Char_T>>;
    // fresh single render: the reference for every other way of rendering
    Template::Render(tb.cp(), SizeT(tb.n), v, out);
    {   // decided before the concurrent phase: a render that writes to the shared value makes that phase a data race (it can hang)
        StringStream<Char_T> value_now;
        v.Stringify(value_now, 17U);
        if (!(value_now == value_before)) {
            ctx.fail("render-modified-value", "a single render modified the value: " + s.text);
        }
    }
    Units tpl_before = jm::units_of(tb.cp(), tb.n);
    // one parsed cache, reused: repeated renders, streams that already hold content, a copy of the cache
    Array<Tags::TagBit> cache;
    TC::Parse(tb.cp(), SizeT(tb.n), cache);
    for (int round = 0; round < 3; ++round) {
        StringStream<Char_T> o2;
        o2 += Char_T('>');
        o2 += Char_T('>');
        TC tc{tb.cp(), SizeT(tb.n)};
        tc.Render(cache, v, o2);
        if (o2.Length() != out.Length() + 2 || o2.First()[0] != Char_T('>') || o2.First()[1] != Char_T('>') ||
            jm::units_of(o2.First() + 2, o2.Length() - 2) != jm::units_of(out.First(), out.Length())) {
            ctx.fail("cached-render-differs", "render #" + std::to_string(round + 1) + " through the shared cache differs from a fresh render: " + s.text);
        }
    }
    {
        Array<Tags::TagBit>  cache2{cache};
        StringStream<Char_T> o3;
        TC                   tc{tb.cp(), SizeT(tb.n)};
        tc.Render(cache2, v, o3);
        if (!(o3 == out)) {
            ctx.fail("copied-cache-render-differs", "render through a copy of the cache differs: " + s.text);
        }
    }
    {   // Template::Render with a caller-owned cache (parse on first use, reuse afterwards)
        Array<Tags::TagBit> cache3;
        for (int round = 0; round < 2; ++round) {
            StringStream<Char_T> o4;
            Template::Render(tb.cp(), SizeT(tb.n), v, o4, cache3);
            if (!(o4 == out)) {
                ctx.fail("cached-render-differs", "Template::Render with a tag cache, round " + std::to_string(round + 1) + ": " + s.text);
            }
        }
    }
    // one renderer object and one cache for a sequence of renders while the value - the same object - changes in between: its members
    // are taken out and put back in reverse order (other slots, other blocks), then half of them replaced. Each render equals a fresh one.
    if (!s.pointers) {
        TC            tc{tb.cp(), SizeT(tb.n)};
        Value<Char_T> v2 = v;
        for (int round = 0; round < 3; ++round) {
            StringStream<Char_T> o5, fresh;
            tc.Render(cache, v2, o5);
            Template::Render(tb.cp(), SizeT(tb.n), v2, fresh);
            if (!(o5 == fresh)) {
                ctx.fail("reused-renderer-differs", "render #" + std::to_string(round + 1) + " of one renderer object over a value that changed in between differs from a fresh render: " + s.text);
            }
            Value<Char_T> old = Memory::Move(v2);
            v2.Reset();
            if (old.IsObject()) {
                for (SizeT i = old.Size(); i != 0; --i) {
                    const String<Char_T> *k = old.GetKey(i - 1);
                    Value<Char_T>        *m = old.GetValue(i - 1);
                    if (k != nullptr && m != nullptr) {
                        if (round == 1 && (i & 1) != 0 && !m->IsArray() && !m->IsObject()) {
                            v2[*k] = mkstr<Char_T>("other" + std::to_string(i));
                        } else {
                            v2[*k] = Memory::Move(*m);
                        }
                    }
                }
            } else if (old.IsArray()) {
                for (SizeT i = old.Size(); i != 0; --i) {
                    Value<Char_T> *m = old.GetValue(i - 1);
                    if (m != nullptr) {
                        v2 += Memory::Move(*m);
                    }
                }
            } else {
                v2 = Memory::Move(old);
            }
        }
        ctx.label("one-renderer-changing-value");
    }
    // concurrent renders through the shared const cache and the shared value
    {
        const unsigned nthreads = 4;
        pbt::Watchdog                     dog(120, "the concurrent render phase");
        std::vector<std::thread>          th;
        std::vector<StringStream<Char_T>> outs(nthreads);
        const Array<Tags::TagBit>        &shared = cache;
        const Value<Char_T>              &sv     = v;
        for (unsigned t = 0; t < nthreads; ++t) {
            th.emplace_back([&, t]() {
                for (int k = 0; k < 8; ++k) {
                    outs[t].Clear();
                    TC tc{tb.cp(), SizeT(tb.n)};
                    tc.Render(shared, sv, outs[t]);
                }
            });
        }
        for (auto &x : th) {
            x.join();
        }
        for (unsigned t = 0; t < nthreads; ++t) {
            if (!(outs[t] == out)) {
                ctx.fail("concurrent-render-differs", "a concurrent render differs from a fresh single render: " + s.text);
            }
        }
    }
    // Template::Render with a caller-owned cache that other threads use at the same time, after a first render has filled it - for the
    // template itself, and for the template behind an unclosed <loop ...>: the parser drops that loop and all it holds, so nothing is
    // left to cache, and what is (not) cached must not be written again while others read it
    {
        Units tu2;
        for (const char *t = "<loop value=\"zq\">"; *t; ++t) {
            tu2.push_back(widen_unit<Char_T>((unsigned char)*t));
        }
        tu2.insert(tu2.end(), tu.begin(), tu.end());
        jm::Buf<Char_T> tb2(tu2);
        struct Shared {
            const Char_T        *p;
            SizeT                n;
            Array<Tags::TagBit>  cache;
            StringStream<Char_T> first;
        };
        Shared sh[2];
        sh[0].p = tb.cp(), sh[0].n = SizeT(tb.n);
        sh[1].p = tb2.cp(), sh[1].n = SizeT(tb2.n);
        for (Shared &x : sh) {
            Template::Render(x.p, x.n, v, x.first, x.cache);
        }
        if (!(sh[0].first == out)) {
            ctx.fail("cached-render-differs", "Template::Render with a fresh tag cache differs from a render without one: " + s.text);
        }
        pbt::Watchdog            dog(120, "the concurrent Template::Render phase");
        std::vector<std::thread> th;
        std::atomic<int>         bad{0};
        const Value<Char_T>     &sv = v;
        for (unsigned t = 0; t < 3; ++t) {
            th.emplace_back([&]() {
                for (int k = 0; k < 6; ++k) {
                    for (Shared &x : sh) {
                        StringStream<Char_T> o;
                        Template::Render(x.p, x.n, sv, o, x.cache);
                        if (!(o == x.first)) {
                            bad.fetch_add(1);
                        }
                    }
                }
            });
        }
        for (auto &x : th) {
            x.join();
        }
        if (bad.load() != 0) {
            ctx.fail("concurrent-render-differs", "a concurrent Template::Render through a shared tag cache differs from the first render: " + s.text);
        }
    }
    StringStream<Char_T> value_after;
    v.Stringify(value_after, 17U);
    if (!(value_after == value_before)) {
        ctx.fail("render-modified-value", "rendering modified the value: " + s.text);
    }
    if (jm::units_of(tb.cp(), tb.n) != tpl_before) {
        ctx.fail("render-modified-template", "rendering modified the template text");
    }
#endif
    std::string o;
    for (SizeT i = 0; i < out.Length(); ++i) {
        o.push_back(narrow_unit<Char_T>(jm::unit_of(out.First()[i])));
    }
    return o;
}

struct H {
    using Case = ::Case;
#ifndef VERIF_C17
    static const char *name() { return "C02 documented expansion"; }
#else
    static const char *name() { return "C17 render purity"; }
#endif
    static rc::Gen<Case> gen() {
        using namespace rc;
        return gen::map(gen::tuple(gen::resize(400, gen::container<std::vector<uint8_t>>(gen::arbitrary<uint8_t>())), pbt::pick<int>({1, 1, 2, 4, 3}),
                                   pbt::pick<int>({0, 0, 1, 2})),
                        [](std::tuple<std::vector<uint8_t>, int, int> t) {
                            Case c;
                            c.bytes = std::get<0>(t);
                            c.width = std::get<1>(t);
                            c.alias = std::get<2>(t);
                            return c;
                        });
    }
    // coverage-guided mode: selector byte, then entropy
    static bool from_fuzz(const uint8_t *d, size_t n, Case &c) {
        pbt::FuzzBytes f(d, n);
        static const int w[] = {1, 2, 4, 3};
        const uint8_t sel = f.sel();
        c.width = w[sel & 3];
        c.alias = ((sel >> 2) & 1) + ((sel >> 2) & (sel >> 3) & 1);
        c.bytes = f.rest();
        return true;
    }
    static std::string to_text(const Case &c) {
        pbt::KV     kv;
        std::string hex;
        char        b[4];
        for (uint8_t x : c.bytes) {
            snprintf(b, sizeof b, "%02x", x);
            hex += b;
        }
        kv.put("width", c.width);
        kv.put("alias", c.alias);
        kv.put("bytes", hex);
        Scenario s;
        make_scenario(c, s);
        kv.put("template", pbt::enc_bytes(s.text));
        Value<char> v;
        to_value(s.root, v);
        String<char> js = v.Stringify();
        kv.put("value", pbt::enc_bytes(std::string(js.First() ? js.First() : "", js.Length())));
        return kv.text();
    }
    static Case from_text(const std::string &t) {
        pbt::KV     kv = pbt::KV::parse(t);
        Case        c;
        std::string hex = kv.get("bytes");
        for (size_t i = 0; i + 1 < hex.size(); i += 2) {
            c.bytes.push_back(uint8_t(strtoul(hex.substr(i, 2).c_str(), nullptr, 16)));
        }
        c.width = int(kv.geti("width", 1));
        c.alias = int(kv.geti("alias", 0));
        return c;
    }
    static void run(const Case &c, pbt::Ctx &ctx) {
#if defined(VERIF_C17) && defined(__has_feature)
#if __has_feature(thread_sanitizer)
        // the ledger's mutex would add happens-before edges between rendering threads and could hide a race
        Qentem::MemoryRecord::data().enabled = false;
        ctx.check_ledger                     = false;
#endif
#endif
        Scenario s;
        g_ref_overflow = false;
        make_scenario(c, s);
        if (s.text.size() > (s.very_deep ? 16000u : 6000u)) {
            ctx.discard();
        }
        if (g_ref_overflow) {
            ctx.discard(); // an expression whose exact value leaves 64 bits: not the documented arithmetic (C04 draws the same line)
        }
        if (s.tags >= 2 && s.resolved >= 1) {
            ctx.nontrivial();
        }
        static const char *kn[] = {"var", "raw", "math", "svar", "inline-if", "if", "loop"};
        for (int i = 0; i < 7; ++i) {
            ctx.label(std::string("has-") + kn[i], (s.kinds >> i) & 1);
        }
        ctx.label("nesting>=3", s.depth >= 3);
        ctx.label("loop-in-if", s.loop_in_if);
        ctx.label("uses-sort", s.sort);
        ctx.label("uses-group", s.group);
        ctx.label("has-unresolved-path", s.unresolved);
        ctx.label("nesting>=8", s.depth >= 8);
        ctx.label("nesting>255", s.very_deep);
        ctx.label("look-alike-units", c.alias != 0 && c.width > 1);
        std::string got;
        switch (c.width) {
            case 1: got = render_with_library<char>(s, ctx); break;
            case 2: got = render_with_library<char16_t>(s, ctx); break;
            case 3: got = render_with_library<wchar_t>(s, ctx); break;
            default: got = render_with_library<char32_t>(s, ctx); break;
        }
        ctx.label("pointer-values", s.pointers);
        // (with pointer values only purity is decided: how sort= and group= treat a set held through a pointer is not documented)
        ctx.label("root-with-24-more-members", s.big_root);
        if (got != s.expect && !s.pointers && !s.big_root) {
            // first difference, for the reader
            size_t k = 0;
            while (k < got.size() && k < s.expect.size() && got[k] == s.expect[k]) {
                ++k;
            }
            ctx.fail("expansion-differs", "output differs from the documented expansion at offset " + std::to_string(k) + ": got ..." +
                                              pbt::enc_bytes(got.substr(k > 20 ? k - 20 : 0, 80)) + " expected ..." +
                                              pbt::enc_bytes(s.expect.substr(k > 20 ? k - 20 : 0, 80)) + " | template=" + pbt::enc_bytes(s.text));
        }
    }
};

} // namespace

PBT_MAIN(H)
