// C01 — rendering any template text with any value is memory-safe and terminates (also C16 for these inputs).
//   -DVERIF_FUZZ : libFuzzer target. byte 0: width (2 bits) | value tree (3 bits) | cached render (1 bit); rest: code units
//   default      : rapidcheck — documented / grammar-generated templates with generated mutations (see c01 section of DESIGN.md)
// Oracle: ASan/UBSan on exact-size heap buffers, no exception, allocation ledger, value unchanged, cached == uncached.
#include "common/pbt.hpp"
#include "common/jmodel.hpp"
#include "common/tvalues.hpp"
#ifndef VERIF_FUZZ
#include "common/tgen.hpp"
#endif

using namespace Qentem;
using jm::Units;

namespace {

struct Outcome {
    bool   has_tags{false};
    size_t out_len{0};
};

// work bound: rendering is exponential in the nesting depth of loops by design (each level multiplies the work), so
// inputs with more than kMaxLoops loop openers are outside the bounded-work domain of this check and are counted, not run
constexpr unsigned kMaxLoops = 5;
unsigned count_loops(const Units &u) {
    unsigned n = 0;
    for (size_t i = 0; i + 4 < u.size(); ++i) {
        if (u[i] == '<' && u[i + 1] == 'l' && u[i + 2] == 'o' && u[i + 3] == 'o' && u[i + 4] == 'p') {
            ++n;
        }
    }
    return n;
}

// Extra members for object roots (switched on by a field of the case, so older replay files keep their value): a string without
// storage, a short string next to a longer one that continues with NULs, and "T": the text of the template from its first "abc"
// to its end plus one more unit - a value aimed at the template, so that a comparison of the literal abc... with {var:T} that
// looked at characters before looking at lengths would walk off the end of the exact-size template buffer.
template <typename Char_T>
void add_extras(Value<Char_T> &value, const Units &units) {
    if (!value.IsObject()) {
        return;
    }
    value[tv::Key<Char_T>("q0").v()] = String<Char_T>{};
    {   // an object of arrays with long keys, an array of unprintable items, records to group: for loops that leave keys behind
        Value<Char_T> &oo = value[tv::Key<Char_T>("oo").v()];
        oo[tv::Key<Char_T>("zeta-key-number-one").v()] += 7;
        oo[tv::Key<Char_T>("alpha-key-number-two").v()] += 8;
        Value<Char_T> &aa = value[tv::Key<Char_T>("aa").v()];
        aa[0] += 1;
        aa[1] += 2;
        Value<Char_T> &rr = value[tv::Key<Char_T>("rr").v()];
        rr[0][tv::Key<Char_T>("kind").v()] = tv::str<Char_T>("a-rather-long-group-name");
        rr[0][tv::Key<Char_T>("n").v()] += 1;
        rr[1][tv::Key<Char_T>("kind").v()] = tv::str<Char_T>("another-long-group-name");
        rr[1][tv::Key<Char_T>("n").v()] += 2;
    }
    value[tv::Key<Char_T>("sh").v()] = tv::str<Char_T>("ab");
    {
        Units lg = {'a', 'b', 0, 0, 0, 0, 0, 0};
        jm::Buf<Char_T> b(lg);
        value[tv::Key<Char_T>("lg").v()] = String<Char_T>{b.cp(), SizeT(b.n)};
    }
    for (size_t k = 0; k + 2 < units.size(); ++k) {
        if (units[k] == 'a' && units[k + 1] == 'b' && units[k + 2] == 'c') {
            Units t(units.begin() + long(k), units.end());
            t.push_back('!');
            jm::Buf<Char_T> b(t);
            value[tv::Key<Char_T>("T").v()] = String<Char_T>{b.cp(), SizeT(b.n)};
            break;
        }
    }
}

template <typename Char_T>
Outcome render_units(const Units &units, int value_id, bool cached, pbt::Ctx &ctx, bool extras = false) {
    using V  = Value<Char_T>;
    using SS = StringStream<Char_T>;
    using TC = TemplateCore<Char_T, V, SS>;
    Outcome o;
    V       value;
    tv::build<Char_T>(value_id, value);
    if (extras) {
        add_extras<Char_T>(value, units);
    }
    SS before;
    value.Stringify(before, 17U);
    jm::Buf<Char_T> b(units);
    try {
        SS out1;
        out1 += Char_T('#'); // rendering only appends
        Template::Render(b.cp(), SizeT(b.n), value, out1);
        o.out_len = out1.Length();
        if (out1.Length() == 0 || out1.First()[0] != Char_T('#')) {
            ctx.fail("stream-prefix-disturbed", "rendering changed what the stream already held");
        }
        if (cached) {
            Array<Tags::TagBit> cache;
            TC::Parse(b.cp(), SizeT(b.n), cache);
            o.has_tags = cache.IsNotEmpty();
            for (int round = 0; round < 2; ++round) {
                SS out2;
                out2 += Char_T('#');
                TC tc{b.cp(), SizeT(b.n)};
                tc.Render(cache, value, out2);
                if (!(out2 == out1)) {
                    ctx.fail("cached-render-differs", "render through a parsed tag cache differs from a direct render: " + jm::show(units));
                }
            }
        } else {
            Array<Tags::TagBit> cache;
            TC::Parse(b.cp(), SizeT(b.n), cache);
            o.has_tags = cache.IsNotEmpty();
        }
    } catch (const pbt::Failure &) {
        throw;
    } catch (...) {
        ctx.fail("exception-escaped", "rendering threw");
    }
    SS after;
    value.Stringify(after, 17U);
    if (!(after == before)) {
        ctx.fail("value-modified", "rendering modified the value: " + jm::show(units));
    }
    return o;
}

Outcome render_width(const Units &u, int width, int value_id, bool cached, pbt::Ctx &ctx, bool extras = false) {
    switch (width) {
        case 1: return render_units<char>(u, value_id, cached, ctx, extras);
        case 2: return render_units<char16_t>(u, value_id, cached, ctx, extras);
        case 3: return render_units<wchar_t>(u, value_id, cached, ctx, extras);
        default: return render_units<char32_t>(u, value_id, cached, ctx, extras);
    }
}

#ifndef VERIF_FUZZ
struct Case {
    std::vector<uint8_t> bytes; // entropy: template (grammar or documented seed), mutations
    int                  width{1};
    int                  value_id{0};
    bool                 cached{false};
    Units                raw; // explicit units (hand-written regression cases), used when non-empty or raw_set
    bool                 raw_set{false};
    int                  gen2{0}; // 1: the value gets add_extras() and one template in twelve is an "aimed comparison" (absent in older files: 0)
                                  // 2: as 1, and about one template in eight is an "expression soup"
};

// expressions that compare a literal / a short or storage-less string with a value that is longer, as the last thing in the template
Units aimed_template(jm::Entropy &e, std::string *ops, int gen2 = 0) {
    static const char *t[] = {"{math:abc=={var:T}}", "{math:abc!={var:T}}", "x{if case=\"abc=={var:T}\" true=\"y\"}", "<if case=\"abc!={var:T}\">y</if>",
                              "{math:{var:q0}=={var:s}}", "{if case=\"{var:q0}!={var:ns}\" true=\"1\" false=\"0\"}", "{math:{var:sh}=={var:lg}}",
                              "<if case=\"{var:sh}!={var:lg}\">y<else />n</if>", "{math:{var:q0}=={var:T}}abc", "{math:(abc=={var:T})}", "{math:1+(abc=={var:T})}",
                              "<loop value=\"v\">{if case=\"{var:v}=={var:lg}\" true=\"=\"}</loop>{math:abc=={var:T}}",
                              // a loop whose value name is written before its set and is a prefix of (or equal to) the set's name, alone, after a
                              // sorted / grouped sibling loop, and nested under a loop of the same name
                              "<loop value=\"l\" set=\"l\">{var:l}</loop>", "<loop value=\"a\" set=\"arr\">{var:a}</loop>",
                              "<loop set=\"l\" value=\"x\" sort=\"descend\">{var:x}</loop><loop value=\"l\" set=\"l\">[{var:l}]</loop>",
                              "<loop set=\"o\" value=\"i\"><loop value=\"i\" set=\"i\">{var:i}</loop></loop>",
                              "<loop value=\"k\" set=\"k1\" sort=\"ascend\">{var:k}</loop><loop value=\"k\" set=\"k2\">{var:k}{var:k[0]}</loop>",
                              "<loop value=\"s\" sort=\"ascend\" set=\"s\">{raw:s}</loop>"};
    // gen2 >= 2: sequences of loops that leave something behind at a nesting level - a sorted / grouped loop over an object, a loop nested
    // deeper, then a sibling loop over unprintable items (which falls back to "the key", if one is left at its level)
    static const char *t2[] = {
        "<loop set=\"oo\" value=\"a\" sort=\"ascend\"><loop set=\"a\" value=\"n\">{var:n}</loop>;</loop><loop set=\"aa\" value=\"b\">[{var:b}]</loop>",
        "<loop set=\"rr\" value=\"g\" group=\"kind\"><loop set=\"g\" value=\"m\">-</loop></loop><loop set=\"aa\" value=\"b\">[{var:b}]</loop>",
        "<loop set=\"oo\" value=\"a\" sort=\"descend\">{var:a}<loop set=\"a\" value=\"n\"><loop set=\"aa\" value=\"c\">{var:c}</loop></loop></loop><loop set=\"rr\" value=\"b\">{var:b}{raw:b}</loop>",
        "<loop set=\"oo\" value=\"a\"><loop set=\"oo\" value=\"b\" sort=\"ascend\">{var:b}</loop></loop><loop set=\"aa\" value=\"a\">{var:a}<loop set=\"aa\" value=\"b\">{var:b}</loop></loop>"};
    const unsigned     k  = e.below(gen2 >= 2 ? 22 : 18);
    if (ops) *ops += "aimed-comparison=" + std::to_string(k) + ";";
    Units u;
    for (const char *p = (k < 18 ? t[k] : t2[k - 18]); *p; ++p) {
        u.push_back((unsigned char)*p);
    }
    return u;
}

// An expression of random tokens - numbers at the limits, variables, text, and text that starts like a number (what a numeral scan
// gives up on half way) - between random operators, in a math tag, an inline if or an <if>: every operator meets every kind of operand.
Units expression_soup(jm::Entropy &e, std::string *ops) {
    static const char *operand[] = {"1", "0", "2", "7", "10", "-1", "3.5", "0.5", "1e3", "9223372036854775807", "9223372036854775808", "18446744073709551615",
                                    "-9223372036854775808", "-9223372036854775807", "4294967296", "0.0", "-0", "1e308", "1e-320", "64", "63", "-64",
                                    "{var:n}", "{var:T}", "{var:q0}", "{var:s}", "{var:ns}", "{var:sh}", "{var:lg}", "{var:a}", "{var:l}", "{var:nope}",
                                    "2x", "3px", "1 0", "1.5.2", "0x1g", "-7q", "1e", "1e+", "5.", ".5", "abc", "T", "0x", "00", "1-", "9223372036854775808z", "-x", "{var:", "{var:a}b"};
    static const char *oper[]    = {"+", "-", "*", "/", "%", "^", "==", "!=", "<", ">", "<=", ">=", "&&", "||", "&", "|", "=", "!", "<<", ">>"};
    const unsigned     terms     = 2 + e.below(4);
    std::string        x;
    int                open = 0;
    for (unsigned i = 0; i < terms; ++i) {
        if (i != 0) {
            x += e.chance(30) ? " " : "";
            x += oper[e.below(e.chance(90) ? 16 : 20)];
            x += e.chance(30) ? " " : "";
        }
        if (e.chance(12)) {
            x += "(";
            ++open;
        }
        x += operand[e.below(sizeof(operand) / sizeof(operand[0]))];
        if (open > 0 && e.chance(40)) {
            x += ")";
            --open;
        }
    }
    for (; open > 0 && e.chance(85); --open) {
        x += ")";
    }
    std::string t;
    switch (e.below(4)) {
        case 0: t = "{math:" + x + "}"; break;
        case 1: t = "{if case=\"" + x + "\" true=\"T\" false=\"F\"}"; break;
        case 2: t = "<if case=\"" + x + "\">y<else />n</if>"; break;
        default: t = "<loop value=\"v\" set=\"l\">{math:{var:v} " + std::string(oper[e.below(16)]) + " " + x + "}</loop>"; break;
    }
    if (ops) *ops += "expression-soup;";
    Units u;
    for (unsigned char ch : t) {
        u.push_back(ch);
    }
    return u;
}

// templates built around the width of the scanner's offset / counter fields (8 and 16 bit) and around bracket edge cases
Units boundary_template(jm::Entropy &e, std::string *ops, int gen2 = 0) {
    std::string t;
    auto        rep = [](const std::string &x, unsigned n) {
        std::string o;
        for (unsigned i = 0; i < n; ++i) {
            o += x;
        }
        return o;
    };
    switch (e.below(gen2 >= 2 ? 9 : 7)) {
        case 7: { // an unclosed {var: / {raw: inside true= / false= whose body is 256*m + k units long with the attribute's closing quote
                  // as its (k+1)-th unit (names are kept modulo 256 in places), closed by "}" right behind the quote or not at all
            const unsigned m_ = 1 + e.below(2), k = e.below(6);
            std::string    body = std::string("abcdef").substr(0, k) + "\"" + rep("x", 256 * m_ - 1 - e.below(2)) ;
            t = std::string("{if case=\"") + (e.chance(50) ? "1" : "0") + "\" " + (e.chance(50) ? "true" : "false") + "=\"" + (e.chance(50) ? "{var:" : "{raw:") + body +
                (e.chance(70) ? "}\"}" : "}") + (e.chance(50) ? "tail{var:a}" : "");
            if (ops) *ops += "boundary:inline-if-unclosed-var-mod-256;";
            break;
        }
        case 8: { // names of exactly 255 / 256 / 257 / 511 / 512 / 513 units as loop value, loop set, group key and variable inside the loop
            static const unsigned Ls[] = {255, 256, 257, 511, 512, 513};
            const unsigned        L    = Ls[e.below(6)];
            const std::string     nm   = rep("k", L);
            t = "<loop value=\"" + nm + "\" set=\"l\">[{var:" + nm + "}{raw:" + nm + "[0]}]</loop><loop set=\"items\" group=\"" + nm + "\" value=\"g\">{var:g}</loop>";
            if (ops) *ops += "boundary:loop-names-around-256=" + std::to_string(L) + ";";
            break;
        }
        case 0: { // inline if with 254..258 sub tags in one attribute
            unsigned k = 254 + e.below(5);
            t          = std::string("{if case=\"") + (e.chance(50) ? "1" : "0") + "\" true=\"" + rep("{var:a}", k) + "\" false=\"{var:b}" + (e.chance(50) ? "{var:a}" : "") + "\"}";
            if (ops) *ops += "boundary:inline-if-subtags=" + std::to_string(k) + ";";
            break;
        }
        case 1: { // variable names around 255 / 511 units
            unsigned L = (e.chance(50) ? 250 : 508) + e.below(10);
            t          = "x{var:" + rep("n", L) + "}y{raw:" + rep("m", L) + "}z";
            if (ops) *ops += "boundary:name-length=" + std::to_string(L) + ";";
            break;
        }
        case 2: { // loop attributes further than 255 units from the tag start
            unsigned L = 245 + e.below(20);
            t          = "<loop set=\"" + rep("p", L) + "\" value=\"v\">{var:v}</loop><loop group=\"" + rep("g", L) + "\" value=\"w\" set=\"l\">{var:w}</loop>";
            if (ops) *ops += "boundary:loop-attribute-offset=" + std::to_string(L) + ";";
            break;
        }
        case 3: { // inline if longer than 65535 units
            unsigned L = 65500 + e.below(80);
            t          = "{if case=\"1\" true=\"" + rep("t", L) + "{var:a}\" false=\"{var:b}\"}tail";
            if (ops) *ops += "boundary:inline-if-length=" + std::to_string(L) + ";";
            break;
        }
        case 4: { // nesting depth around 255 / 256 (8-bit Level): loops that would share a slot, the inner one sorted (iterates a
                  // temporary copy), the outer value used again after the inner loop ended
            unsigned d = 250 + e.below(12);
            unsigned g = e.chance(50) ? 0 : 250 + e.below(12); // open tags between the two loops
            const char *attr = (const char *[]){" sort=\"ascend\"", " sort=\"descend\"", " group=\"g\"", ""}[e.below(4)];
            t = rep("<if case=\"1\">", d) + "<loop value=\"a\">[{var:a}" + rep("<if case=\"1\">", g) + "<loop value=\"b\"" + attr + ">{var:b}{var:a}</loop>" +
                rep("</if>", g) + "{var:a}]</loop>" + rep("</if>", d);
            if (ops) *ops += "boundary:nesting=" + std::to_string(d) + "+" + std::to_string(g) + ";";
            break;
        }
        case 5: { // more than ten sub tags in a super variable
            unsigned k = 9 + e.below(5);
            t          = "{svar:p" + rep(", {var:a}", k) + "}";
            if (ops) *ops += "boundary:svar-subtags=" + std::to_string(k) + ";";
            break;
        }
        default: { // bracket edge cases in names, also as the last thing in the template
            static const char *names[] = {"]", "a]", "[", "[]", "a[", "a[]", "a[b", "]]", "a[b]]", "[a]", "a][", "k1[", "0]", "a[b][", "][", "a[]]"};
            t = std::string(e.chance(50) ? "x" : "") + (e.chance(50) ? "{var:" : "{raw:") + names[e.below(16)] + "}";
            if (e.chance(40)) {
                t = "{math:{var:" + std::string(names[e.below(16)]) + "}+1}";
            }
            if (e.chance(35)) {
                // an attribute value may be quoted by any character: operator characters as quotes put an operator right at
                // the end of the expression, and expressions that end in an operator
                static const char *qs[] = {"=", "&", "|", "<", ">", "!", "+", "-", "*", "^", "%", "(", ")"};
                static const char *ex[] = {"1", "=1", "1=", "1&", "2>", "1|", "{var:a}<", "3!", "1+", "(1", "1)", "1 &", "5 >", "=", ""};
                std::string         q    = qs[e.below(13)];
                switch (e.below(3)) {
                    case 0: t = "<if case=" + q + ex[e.below(15)] + q + ">" + q + q + ">x</if>"; break;
                    case 1: t = "{if case=" + q + ex[e.below(15)] + q + " true=" + q + "T" + q + "}"; break;
                    default: t = "{math:" + std::string(ex[e.below(15)]) + "}"; break;
                }
            }
            if (ops) *ops += "boundary:bracket-name-or-operator-quote;";
        }
    }
    Units u;
    for (unsigned char ch : t) {
        u.push_back(ch);
    }
    return u;
}

Units make_template(const Case &c, std::string *ops = nullptr) {
    if (c.raw_set) {
        return c.raw;
    }
    jm::Entropy e(c.bytes);
    if (c.gen2 != 0 && !c.bytes.empty() && (c.bytes.back() % 12) == 0) { // decided by the last byte: the decoding below is untouched
        if (c.gen2 >= 2 && c.bytes.size() > 1 && (c.bytes[c.bytes.size() - 2] & 1) != 0) {
            return expression_soup(e, ops);
        }
        return aimed_template(e, ops, c.gen2);
    }
    if (c.gen2 >= 2 && !c.bytes.empty() && (c.bytes.back() % 12) == 1) {
        return expression_soup(e, ops);
    }
    if (e.chance(7)) {
        return boundary_template(e, ops, c.gen2);
    }
    Units       u = tgen::random_template_text(e, c.value_id);
    unsigned    n = e.below(7);
    for (unsigned i = 0; i < n && !u.empty(); ++i) {
        size_t pos = e.below(uint32_t(u.size()));
        switch (e.below(10)) {
            case 0: u.resize(pos); if (ops) *ops += "truncate;"; break;
            case 1: u.erase(u.begin() + long(pos)); if (ops) *ops += "delete;"; break;
            case 2: {
                size_t len = 1 + e.below(10);
                if (pos + len > u.size()) {
                    len = u.size() - pos;
                }
                Units slice(u.begin() + long(pos), u.begin() + long(pos + len));
                u.insert(u.begin() + long(e.below(uint32_t(u.size()))), slice.begin(), slice.end());
                if (ops) *ops += "duplicate-slice;";
                break;
            }
            case 3: {
                static const char *frag[] = {"{var:", "{raw:", "{math:", "{svar:", "{if case=\"", "<loop ", "</loop>", "<if case=\"", "</if>", "<else />",
                                             "<else if case=\"", "<elseif case=\"", "}", "\"", "'", " true=\"", " false=\"", " set=\"", " value=\"",
                                             " group=\"", " sort=\"", ">", "/>", "[", "]", "(", ")", "%", "^", "==", "&&", "||", "{0}", ", "};
                const char        *f      = frag[e.below(34)];
                Units              ins;
                for (; *f; ++f) {
                    ins.push_back((unsigned char)*f);
                }
                u.insert(u.begin() + long(pos), ins.begin(), ins.end());
                if (ops) *ops += "splice-fragment;";
                break;
            }
            case 4: u[pos] = (u[pos] == '"') ? '\'' : '"'; if (ops) *ops += "swap-quote;"; break;
            case 5: { // drop a closing tag
                static const char *closers[] = {"</loop>", "</if>", "}"};
                std::string        cl        = closers[e.below(3)];
                for (size_t k = pos; k + cl.size() <= u.size(); ++k) {
                    bool m = true;
                    for (size_t q = 0; q < cl.size(); ++q) {
                        m = m && u[k + q] == (unsigned char)cl[q];
                    }
                    if (m) {
                        u.erase(u.begin() + long(k), u.begin() + long(k + cl.size()));
                        break;
                    }
                }
                if (ops) *ops += "drop-closer;";
                break;
            }
            case 6: u.insert(u.begin() + long(pos), 0); if (ops) *ops += "insert-nul;"; break;
            case 7: u[pos] = e.below(0x80); if (ops) *ops += "replace;"; break;
            case 8: u.insert(u.begin() + long(pos), c.width == 1 ? 0x80 + e.below(0x80) : 0x100 + e.below(0xFE00)); if (ops) *ops += "insert-wide;"; break;
            default: { // cut right after an opener
                for (size_t k = pos; k < u.size(); ++k) {
                    if (u[k] == ':' || u[k] == '=' || u[k] == '<' || u[k] == '{') {
                        u.resize(k + 1);
                        break;
                    }
                }
                if (ops) *ops += "cut-after-opener;";
            }
        }
    }
    if (u.size() > 600) {
        u.resize(600);
    }
    return u;
}

struct H {
    using Case = ::Case;
    static const char *name() { return "C01 template rendering safety"; }
    static rc::Gen<Case> gen() {
        using namespace rc;
        return gen::map(gen::tuple(gen::resize(300, gen::container<std::vector<uint8_t>>(gen::arbitrary<uint8_t>())), pbt::pick<int>({1, 1, 1, 2, 4, 3}),
                                   pbt::range<int>(0, tv::kPalette - 1), gen::arbitrary<bool>(), pbt::pick<int>({0, 1, 2, 2})),
                        [](std::tuple<std::vector<uint8_t>, int, int, bool, int> t) {
                            Case c;
                            c.bytes    = std::get<0>(t);
                            c.width    = std::get<1>(t);
                            c.value_id = std::get<2>(t);
                            c.cached   = std::get<3>(t);
                            c.gen2     = std::get<4>(t);
                            return c;
                        });
    }
    static std::string to_text(const Case &c) {
        pbt::KV     kv;
        std::string hex;
        char        b[4];
        for (uint8_t x : c.bytes) {
            snprintf(b, sizeof b, "%02x", x);
            hex += b;
        }
        kv.put("width", c.width);
        kv.put("value", c.value_id);
        kv.put("cached", c.cached ? 1 : 0);
        kv.put("gen2", c.gen2);
        if (c.raw_set) {
            kv.put("raw", pbt::enc_units(c.raw));
        } else {
            kv.put("bytes", hex);
            std::string ops;
            Units       u = make_template(c, &ops);
            kv.put("mutations", ops);
            kv.put("template", pbt::enc_units(u));
        }
        return kv.text();
    }
    static Case from_text(const std::string &t) {
        pbt::KV     kv = pbt::KV::parse(t);
        Case        c;
        std::string hex = kv.get("bytes");
        for (size_t i = 0; i + 1 < hex.size(); i += 2) {
            c.bytes.push_back(uint8_t(strtoul(hex.substr(i, 2).c_str(), nullptr, 16)));
        }
        c.width    = int(kv.geti("width", 1));
        c.value_id = int(kv.geti("value"));
        c.cached   = kv.geti("cached") != 0;
        c.gen2     = int(kv.geti("gen2", 0));
        if (kv.has("raw")) {
            c.raw_set = true;
            c.raw     = pbt::dec_units(kv.get("raw"));
        }
        return c;
    }
    static void run(const Case &c, pbt::Ctx &ctx) {
        Units u = make_template(c);
        if (count_loops(u) > kMaxLoops) {
            ctx.discard();
        }
        Outcome o = render_width(u, c.width, c.value_id, c.cached, ctx, c.gen2 != 0);
        if (o.has_tags) {
            ctx.nontrivial();
        }
        ctx.label("value-with-aimed-extras", c.gen2 != 0);
        ctx.label(o.has_tags ? "has-tags" : "no-tags");
        ctx.label(c.cached ? "cached" : "direct");
    }
};
#endif

} // namespace

#ifndef VERIF_FUZZ
int main(int argc, char **argv) { return pbt::run_main<H>(argc, argv); }
#else
static pbt::Ctx g_ctx;
static void     flush_stats() { g_ctx.write_stats(); }

extern "C" int LLVMFuzzerInitialize(int *, char ***) {
    const char *out = getenv("VERIF_FUZZ_OUT");
    if (out != nullptr) {
        g_ctx.out_path = out;
    }
    pbt::global_ctx() = &g_ctx;
    atexit(flush_stats);
    if (__sanitizer_set_death_callback != nullptr) {
        __sanitizer_set_death_callback(pbt::death_cb);
    }
    return 0;
}

extern "C" int LLVMFuzzerTestOneInput(const uint8_t *data, size_t size) {
    if (size < 2) {
        return 0;
    }
    const int  sel      = data[0] & 3;
    const int  width    = sel == 0 ? 1 : sel == 1 ? 2 : sel == 2 ? 4 : 3;
    const int  value_id = (data[0] >> 2) & 7;
    const bool cached   = ((data[0] >> 5) & 1) != 0;
    Units      u;
    if (width == 1) {
        for (size_t i = 1; i < size; ++i) {
            u.push_back(data[i]);
        }
    } else {
        for (size_t i = 1; i < size; ++i) {
            if (data[i] == 0xFF && i + 2 < size) {
                u.push_back((uint32_t(data[i + 1]) << 8) | data[i + 2]);
                i += 2;
            } else {
                u.push_back(data[i]);
            }
        }
    }
    if (count_loops(u) > kMaxLoops) {
        ++g_ctx.discards;
        return 0;
    }
    Qentem::MemoryRecord::Reset();
    ++g_ctx.evaluations;
    try {
        Outcome o = render_width(u, width, value_id, cached, g_ctx, ((data[0] >> 6) & 1) != 0);
        g_ctx.label(o.has_tags ? "has-tags" : "no-tags");
        if (o.has_tags) {
            ++g_ctx.nontrivial_total;
            std::string key(reinterpret_cast<const char *>(data), size);
            if (g_ctx.nt.insert(pbt::fnv1a(key)).second && g_ctx.samples.size() < 6 && (g_ctx.nt.size() % 997) == 1) {
                g_ctx.samples.push_back("width=" + std::to_string(width) + "\nvalue=" + std::to_string(value_id) + "\ntemplate=" + pbt::enc_units(u) + "\n");
            }
        }
    } catch (const pbt::Failure &f) {
        fprintf(stderr, "ORACLE FAILURE class=%s %s\n", f.cls.c_str(), f.msg.c_str());
        g_ctx.failed   = true;
        g_ctx.fail_cls = f.cls;
        g_ctx.fail_msg = f.msg;
        g_ctx.write_stats();
        __builtin_trap();
    }
    if (Qentem::MemoryRecord::Live() != 0 || Qentem::MemoryRecord::BadFree() != 0 || Qentem::MemoryRecord::DoubleAdd() != 0) {
        fprintf(stderr, "ORACLE FAILURE class=ledger live=%zu bad_free=%llu\n", Qentem::MemoryRecord::Live(), (unsigned long long)Qentem::MemoryRecord::BadFree());
        g_ctx.failed   = true;
        g_ctx.fail_cls = "ledger";
        g_ctx.write_stats();
        __builtin_trap();
    }
    return 0;
}
#endif
