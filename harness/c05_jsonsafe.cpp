// C05 — parsing any code-unit string as JSON is memory-safe, terminates, survives 512 nesting levels and yields
// either a complete value or Undefined.
//   default build : rapidcheck — valid documents with generated mutations, and directed nesting classes
//   -DVERIF_FUZZ  : libFuzzer target (coverage-guided bytes -> width header + code units)
// Oracle: AddressSanitizer/UBSan on exact-size heap buffers (no terminator), the completeness predicate,
// the allocation ledger (C16), re-stringify/re-parse stability of whatever was accepted.
#include "common/pbt.hpp"
#include "common/jmodel.hpp"

using namespace Qentem;

namespace {

template <typename Char_T>
bool complete(const Value<Char_T> &v, int &depth, int level = 1) {
    if (level > depth) {
        depth = level;
    }
    if (v.IsArray() || v.IsObject()) {
        for (SizeT i = 0; i < v.Size(); ++i) {
            const Value<Char_T> *c = v.GetValue(i);
            if (c == nullptr) { // an Undefined member inside an accepted document = partially built tree
                return false;
            }
            if (v.IsObject() && v.GetKey(i) == nullptr) {
                return false;
            }
            if (!complete(*c, depth, level + 1)) {
                return false;
            }
        }
    }
    return !v.IsUndefined();
}

struct Outcome {
    bool accepted{false};
    int  depth{0};
};

template <typename Char_T>
Outcome parse_units(const jm::Units &units, pbt::Ctx &ctx, bool restringify = true) {
    Outcome         o;
    jm::Buf<Char_T> b(units);
    Value<Char_T>   v = JSON::Parse(b.p, SizeT(b.n));
    if (v.IsUndefined()) {
        return o;
    }
    o.accepted = true;
    if (!complete(v, o.depth)) {
        ctx.fail("partial-tree", "accepted document contains an Undefined member: " + jm::show(units));
    }
    if (restringify && (v.IsArray() || v.IsObject())) {
        // whatever was accepted must survive stringify -> parse without a crash and stay accepted
        StringStream<Char_T> ss;
        v.Stringify(ss, 17U);
        jm::Units       t2 = jm::units_of(ss.First(), ss.Length());
        jm::Buf<Char_T> b2(t2);
        Value<Char_T>   v2 = JSON::Parse(b2.p, SizeT(b2.n));
        (void)v2; // C08 decides equality; here only memory safety of the cycle on arbitrary accepted input
    }
    return o;
}

bool has_structural(const jm::Units &u) {
    for (uint32_t c : u) {
        if (c == '{' || c == '}' || c == '[' || c == ']' || c == '"' || c == ':' || c == ',') {
            return true;
        }
    }
    return false;
}

Outcome parse_width(const jm::Units &units, int width, pbt::Ctx &ctx) {
    switch (width) {
        case 1: return parse_units<char>(units, ctx);
        case 2: return parse_units<char16_t>(units, ctx);
        case 3: return parse_units<wchar_t>(units, ctx);
        default: return parse_units<char32_t>(units, ctx);
    }
}

void account(const jm::Units &units, const Outcome &o, pbt::Ctx &ctx) {
    ctx.label(o.accepted ? "accepted" : "rejected");
    if ((has_structural(units) && !o.accepted) || (o.accepted && o.depth >= 2)) {
        ctx.nontrivial();
    }
}

#ifndef VERIF_FUZZ
// ------------------------------------------------------------------------------------------- rapidcheck
struct Case {
    int                  kind{0}; // 0 mutated valid document, 1 nesting class
    std::vector<uint8_t> bytes;   // entropy (document + mutations)
    int                  width{1};
    // nesting class
    int depth{1};
    int form{0};   // 0 '[' , 1 '{"a":' , 2 alternating
    int closing{0}; // 0 closed, 1 unclosed, 2 half closed, 3 closed with a wrong bracket in the middle
    // size class (kind 3): depth = index into kSizes, form = shape, closing = 0 complete / 1 cut one unit short
};

// lengths and counts around the points where a representation or a buffer policy can switch (8/16 bits, 2^18, 2^20, 2^21)
const unsigned kSizes[] = {255, 256, 257, 4095, 4097, 65535, 65536, 65537, 262143, 262145, 300000, 1048575, 1048577, 2097153};
const int      kNSizes  = int(sizeof(kSizes) / sizeof(kSizes[0]));

jm::Units mutated_document(const Case &c, std::string *ops = nullptr) {
    jm::Entropy e(c.bytes);
    jm::Node    tree = jm::gen_tree(e, 6, true);
    jm::SpellOpts op;
    jm::SpellStats st;
    jm::Units     cps;
    jm::spell(tree, e, cps, op, st);
    jm::Units u = jm::encode(cps, c.width == 3 ? 4 : c.width);
    unsigned  n = 1 + e.below(4);
    for (unsigned i = 0; i < n && !u.empty(); ++i) {
        size_t pos = e.below(uint32_t(u.size()));
        switch (e.below(9)) {
            case 0: u.resize(pos); if (ops) *ops += "truncate;"; break;
            case 1: u.erase(u.begin() + long(pos)); if (ops) *ops += "delete;"; break;
            case 2: u[pos] = (uint32_t[]){'{', '}', '[', ']', '"', ':', ',', '\\'}[e.below(8)]; if (ops) *ops += "structural;"; break;
            case 3: u.insert(u.begin() + long(pos), 0); if (ops) *ops += "insert-nul;"; break;
            case 4: u.insert(u.begin() + long(pos), e.below(256)); if (ops) *ops += "insert-unit;"; break;
            case 5: { // cut right after a backslash / inside an escape / keyword / number
                for (size_t k = pos; k < u.size(); ++k) {
                    if (u[k] == '\\' || u[k] == 'u' || u[k] == 'e' || u[k] == '.' || u[k] == 'l' || u[k] == '-') {
                        u.resize(k + 1);
                        break;
                    }
                }
                if (ops) *ops += "cut-inside-token;";
                break;
            }
            case 6: { // duplicate a slice
                size_t len = 1 + e.below(8);
                if (pos + len > u.size()) {
                    len = u.size() - pos;
                }
                jm::Units slice(u.begin() + long(pos), u.begin() + long(pos + len));
                u.insert(u.begin() + long(pos), slice.begin(), slice.end());
                if (ops) *ops += "duplicate-slice;";
                break;
            }
            case 7: { // keyword followed by NULs (keyword literals are NUL-terminated in the library)
                const char *kw = (const char *[]){"null", "true", "false", "nul", "tru", "fals"}[e.below(6)];
                jm::Units   ins;
                for (const char *p = kw; *p; ++p) {
                    ins.push_back((unsigned char)*p);
                }
                unsigned z = e.below(4);
                for (unsigned q = 0; q < z; ++q) {
                    ins.push_back(0);
                }
                u.insert(u.begin() + long(pos), ins.begin(), ins.end());
                if (ops) *ops += "keyword-nul;";
                break;
            }
            default: u[pos] = e.below(0x80); if (ops) *ops += "replace;"; break;
        }
    }
    return u;
}

jm::Units nesting_document(const Case &c) {
    jm::Units   u;
    std::string closers;
    for (int i = 0; i < c.depth; ++i) {
        bool obj = (c.form == 1) || (c.form == 2 && (i & 1));
        if (obj) {
            for (char ch : std::string("{\"a\":")) {
                u.push_back((unsigned char)ch);
            }
            closers.push_back('}');
        } else {
            u.push_back('[');
            closers.push_back(']');
        }
    }
    size_t keep = closers.size();
    if (c.closing == 1) {
        keep = 0;
    } else if (c.closing == 2) {
        keep = closers.size() / 2;
    }
    if (c.form != 0 || c.closing != 0 || true) {
        // innermost value
        if (c.closing == 0 || c.closing == 3) {
            u.push_back('1');
        }
    }
    for (size_t k = 0; k < keep; ++k) {
        char ch = closers[closers.size() - 1 - k];
        if (c.closing == 3 && k == keep / 2) {
            ch = (ch == ']') ? '}' : ']';
        }
        u.push_back((unsigned char)ch);
    }
    return u;
}

// Valid documents that are simply big: one long string (plain, or with an escape at its start / middle / end, as an array
// element, an object value or an object key), an array / object with many members, a long number token.
jm::Units size_document(const Case &c) {
    const unsigned n = kSizes[unsigned(c.depth) % unsigned(kNSizes)];
    jm::Units      u;
    auto           add = [&u](const char *t) {
        for (; *t; ++t) {
            u.push_back((unsigned char)*t);
        }
    };
    auto long_string = [&](int esc) {
        u.push_back('"');
        for (unsigned i = 0; i < n; ++i) {
            if ((esc == 1 && i == 0) || (esc == 2 && i == n / 2) || (esc == 3 && i + 1 == n)) {
                add("\\n");
            } else {
                u.push_back('a' + (i % 23));
            }
        }
        u.push_back('"');
    };
    switch (c.form % 11) {
        case 0: add("["); long_string(0); add("]"); break;
        case 1: add("["); long_string(1); add("]"); break;
        case 2: add("[1,"); long_string(2); add(",2]"); break;
        case 3: add("{\"k\":"); long_string(3); add("}"); break;
        case 4: add("{"); long_string(2); add(":1}"); break;
        case 5: { // many array elements
            const unsigned m = n > 70000 ? 70000 : n;
            add("[");
            for (unsigned i = 0; i < m; ++i) {
                add(i == 0 ? "" : ",");
                add((i % 3) == 0 ? "1" : (i % 3) == 1 ? "\"x\"" : "[]");
            }
            add("]");
            break;
        }
        case 6: { // many distinct keys
            const unsigned m = n > 70000 ? 70000 : n;
            add("{");
            for (unsigned i = 0; i < m; ++i) {
                add(i == 0 ? "" : ",");
                add(("\"k" + std::to_string(i) + "\":" + std::to_string(i % 10)).c_str());
            }
            add("}");
            break;
        }
        case 7: { // long number token: 0.000...01e+(zeros+1) denotes 1
            const unsigned m = n > 120000 ? 120000 : n;
            add("[0.");
            u.insert(u.end(), m, '0');
            add(("1e" + std::to_string(m + 1) + "]").c_str());
            break;
        }
        case 9:
        case 10: { // two keys of different lengths that share their full 32-bit hash (long even runs of NUL units collapse to one hash
                   // value in StringUtils::Hash), the shorter one first, then the longer; form 10 puts a letter in front of both
            const unsigned l1 = 32 + 2 * (n % 5), l2 = l1 + 2 + 2 * (n % 3);
            add("{\"");
            if ((c.form % 11) == 10) {
                add("x");
            }
            u.insert(u.end(), l1, 0);
            add("\":1,\"");
            if ((c.form % 11) == 10) {
                add("x");
            }
            u.insert(u.end(), l2, 0);
            add("\":2,\"");
            u.insert(u.end(), l1, 0);
            add("\":3}");
            break;
        }
        default: { // long integer-looking token with a negative exponent: 1000...0e-zeros denotes 1
            const unsigned m = n > 120000 ? 120000 : n;
            add("[1");
            u.insert(u.end(), m, '0');
            add(("E-" + std::to_string(m) + "]").c_str());
            break;
        }
    }
    if (c.closing == 1 && !u.empty()) {
        u.pop_back();
    }
    return u;
}

struct H {
    using Case = ::Case;
    static const char *name() { return "C05 JSON parse safety"; }
    static rc::Gen<Case> gen() {
        using namespace rc;
        auto mut = gen::map(gen::tuple(gen::resize(250, gen::container<std::vector<uint8_t>>(gen::arbitrary<uint8_t>())), pbt::pick<int>({1, 1, 2, 4, 3})),
                            [](std::tuple<std::vector<uint8_t>, int> t) {
                                Case c;
                                c.kind  = 0;
                                c.bytes = std::get<0>(t);
                                c.width = std::get<1>(t);
                                return c;
                            });
        auto nest = gen::map(gen::tuple(pbt::pick<int>({1, 2, 3, 16, 100, 128, 511, 512}), pbt::range<int>(0, 2), pbt::range<int>(0, 3), pbt::pick<int>({1, 2, 4})),
                             [](std::tuple<int, int, int, int> t) {
                                 Case c;
                                 c.kind    = 1;
                                 c.depth   = std::get<0>(t);
                                 c.form    = std::get<1>(t);
                                 c.closing = std::get<2>(t);
                                 c.width   = std::get<3>(t);
                                 return c;
                             });
        auto size = gen::map(gen::tuple(pbt::range<int>(0, kNSizes - 1), pbt::range<int>(0, 10), pbt::pick<int>({0, 0, 0, 1}), pbt::pick<int>({1, 1, 2, 4})),
                             [](std::tuple<int, int, int, int> t) {
                                 Case c;
                                 c.kind    = 3;
                                 c.depth   = std::get<0>(t);
                                 c.form    = std::get<1>(t);
                                 c.closing = std::get<2>(t);
                                 c.width   = std::get<3>(t);
                                 return c;
                             });
        // the size class is expensive (up to 2 M units per document): one case in four hundred
        return gen::weightedOneOf<Case>({{360, mut}, {30, nest}, {1, size}});
    }
    static std::string to_text(const Case &c) {
        pbt::KV kv;
        kv.put("kind", c.kind);
        kv.put("width", c.width);
        if (c.kind == 0) {
            std::string hex;
            char        b[4];
            for (uint8_t x : c.bytes) {
                snprintf(b, sizeof b, "%02x", x);
                hex += b;
            }
            kv.put("bytes", hex);
            std::string ops;
            jm::Units   u = mutated_document(c, &ops);
            kv.put("mutations", ops);
            kv.put("units", pbt::enc_units(u));
        } else {
            kv.put("depth", c.depth);
            kv.put("form", c.form);
            kv.put("closing", c.closing);
        }
        return kv.text();
    }
    static Case from_text(const std::string &t) {
        pbt::KV kv = pbt::KV::parse(t);
        Case    c;
        c.kind  = int(kv.geti("kind"));
        c.width = int(kv.geti("width", 1));
        std::string hex = kv.get("bytes");
        for (size_t i = 0; i + 1 < hex.size(); i += 2) {
            c.bytes.push_back(uint8_t(strtoul(hex.substr(i, 2).c_str(), nullptr, 16)));
        }
        c.depth   = int(kv.geti("depth", 1));
        c.form    = int(kv.geti("form"));
        c.closing = int(kv.geti("closing"));
        if (kv.has("raw")) { // hand-written regression cases: explicit units
            c.kind = 2;
            c.bytes.clear();
            for (uint32_t u : pbt::dec_units(kv.get("raw"))) {
                c.bytes.push_back(uint8_t(u >> 24));
                c.bytes.push_back(uint8_t(u >> 16));
                c.bytes.push_back(uint8_t(u >> 8));
                c.bytes.push_back(uint8_t(u));
            }
        }
        return c;
    }
    // "sizes": every (size, shape, complete / cut, width) combination of the size class
    static void enumerate(pbt::Ctx &ctx, unsigned shard, unsigned nshards, const std::string &what) {
        if (what != "sizes") {
            fprintf(stderr, "unknown enumeration %s\n", what.c_str());
            exit(3);
        }
        unsigned idx = 0;
        static const int widths[] = {1, 2, 4};
        for (int si = 0; si < kNSizes; ++si) {
            for (int form = 0; form < 11; ++form) {
                for (int closing = 0; closing < 2; ++closing) {
                    for (int w : widths) {
                        if ((idx++ % nshards) != shard) {
                            continue;
                        }
                        Case c;
                        c.kind    = 3;
                        c.depth   = si;
                        c.form    = form;
                        c.closing = closing;
                        c.width   = w;
                        if (pbt::exec_case<H>(ctx, c) == pbt::Status::Fail) {
                            return;
                        }
                    }
                }
            }
        }
        ctx.exhaustive      = true;
        ctx.exhaustive_what = "size class: 14 sizes x 11 shapes x complete/cut x 3 unit widths (924 documents, sharded)";
    }
    static void run(const Case &c, pbt::Ctx &ctx) {
        jm::Units u;
        if (c.kind == 0) {
            u = mutated_document(c);
            ctx.label("mutated-document");
        } else if (c.kind == 1) {
            u = nesting_document(c);
            ctx.label("nesting-depth-" + std::to_string(c.depth));
        } else if (c.kind == 3) {
            u = size_document(c);
            static const char *sh[] = {"string", "string-escape-first", "string-escape-middle", "string-escape-last", "key-escape-middle", "array-members",
                                       "object-members", "number-fraction-zeros", "number-trailing-zeros", "equal-hash-keys", "equal-hash-keys-x"};
            ctx.label(std::string("size:") + sh[c.form % 11]);
            ctx.nontrivial();
        } else {
            for (size_t i = 0; i + 3 < c.bytes.size(); i += 4) {
                u.push_back((uint32_t(c.bytes[i]) << 24) | (uint32_t(c.bytes[i + 1]) << 16) | (uint32_t(c.bytes[i + 2]) << 8) | c.bytes[i + 3]);
            }
        }
        Outcome o = parse_width(u, c.width, ctx);
        if (c.kind == 3 && (c.form % 11) < 7 && (c.closing == 0) != o.accepted) {
            ctx.fail(c.closing == 0 ? "big-document-rejected" : "cut-big-document-accepted",
                     std::string("big document (") + std::to_string(u.size()) + " units, shape " + std::to_string(c.form % 11) + ")");
        }
        if (c.kind == 1 && c.closing == 0 && !o.accepted) {
            ctx.fail("deep-document-rejected", "well-formed document nested " + std::to_string(c.depth) + " levels was rejected");
        }
        if (c.kind == 1 && c.closing != 0 && o.accepted) {
            ctx.fail("damaged-nesting-accepted", "damaged nested document accepted");
        }
        account(u, o, ctx);
    }
};
#endif

} // namespace

#ifndef VERIF_FUZZ
int main(int argc, char **argv) { return pbt::run_main<H>(argc, argv); }
#else
// ------------------------------------------------------------------------------------------- libFuzzer
static pbt::Ctx g_ctx;
static void     flush_stats() { g_ctx.write_stats(); }

extern "C" int LLVMFuzzerInitialize(int *, char ***) {
    const char *out = getenv("VERIF_FUZZ_OUT");
    if (out != nullptr) {
        g_ctx.out_path = out;
    }
    pbt::global_ctx() = &g_ctx;
    atexit(flush_stats);
    if (__sanitizer_set_death_callback != nullptr) {
        __sanitizer_set_death_callback(pbt::death_cb);
    }
    return 0;
}

extern "C" int LLVMFuzzerTestOneInput(const uint8_t *data, size_t size) {
    if (size == 0) {
        return 0;
    }
    int       sel   = data[0] & 3;
    int       width = sel == 0 ? 1 : sel == 1 ? 2 : sel == 2 ? 4 : 3;
    jm::Units u;
    if (width == 1) {
        for (size_t i = 1; i < size; ++i) {
            u.push_back(data[i]);
        }
    } else {
        for (size_t i = 1; i < size; ++i) {
            if (data[i] == 0xFF && i + 2 < size) { // escape: arbitrary 16-bit unit (32-bit: shifted into the high planes too)
                uint32_t v = (uint32_t(data[i + 1]) << 8) | data[i + 2];
                if (width != 2 && (v & 1)) {
                    v <<= 5;
                }
                u.push_back(v);
                i += 2;
            } else {
                u.push_back(data[i]);
            }
        }
    }
    Qentem::MemoryRecord::Reset();
    ++g_ctx.evaluations;
    g_ctx.cur_nontrivial = false;
    try {
        Outcome o = parse_width(u, width, g_ctx);
        account(u, o, g_ctx);
    } catch (const pbt::Failure &f) {
        fprintf(stderr, "ORACLE FAILURE class=%s %s\n", f.cls.c_str(), f.msg.c_str());
        g_ctx.failed   = true;
        g_ctx.fail_cls = f.cls;
        g_ctx.fail_msg = f.msg;
        g_ctx.write_stats();
        __builtin_trap();
    }
    if (Qentem::MemoryRecord::Live() != 0 || Qentem::MemoryRecord::BadFree() != 0 || Qentem::MemoryRecord::DoubleAdd() != 0) {
        fprintf(stderr, "ORACLE FAILURE class=ledger live=%zu\n", Qentem::MemoryRecord::Live());
        g_ctx.failed   = true;
        g_ctx.fail_cls = "ledger";
        g_ctx.write_stats();
        __builtin_trap();
    }
    if (g_ctx.cur_nontrivial) {
        ++g_ctx.nontrivial_total;
        std::string key(reinterpret_cast<const char *>(data), size);
        if (g_ctx.nt.insert(pbt::fnv1a(key)).second && g_ctx.samples.size() < 6 && (g_ctx.nt.size() % 997) == 1) {
            g_ctx.samples.push_back("width=" + std::to_string(width) + "\nunits=" + pbt::enc_units(u) + "\n");
        }
    }
    return 0;
}
#endif
