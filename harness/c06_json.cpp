// C06 — every RFC 8259 document parses to the value it denotes        (default build)
// C07 — all-or-nothing: truncated / trailing / bracket-damaged input is rejected   (-DVERIF_C07)
// Oracle: the model tree the text was spelled from (jmodel.hpp); the strict reference parser validates the generator.
#include "common/pbt.hpp"
#include "common/jmodel.hpp"

using namespace Qentem;

namespace {

struct Case {
    std::vector<uint8_t> bytes; // entropy: tree shape, contents and spelling choices
    int                  width{1};
    int                  alias{0}; // 2: as 1, and the small key alphabet is made of equal-hash pairs (jm::hash_twin_keys); 1: strings also hold look-alike code points (jm::look_alike_cps); absent in older replay files
    int                  ls_n{0}, ls_esc{0}, ls_place{0}; // replay of a long-string enumeration case (ls_n > 0)
    jm::Units            raw;                             // C07: a text (ASCII code points) that must be rejected, from the "deep" enumeration
};

struct Doc {
    jm::Node       tree;
    jm::Units      cps; // document as code points
    jm::SpellStats st;
};

Doc make_doc(const Case &c) {
    jm::look_alike_cps() = (c.alias != 0);
    jm::hash_twin_keys() = (c.alias == 2);
#ifdef VERIF_C07
    jm::lone_low_surrogates() = (c.alias != 0);
#endif
    jm::Entropy e(c.bytes);
    Doc         d;
    d.tree = jm::gen_tree(e, 6, true);
    jm::SpellOpts op;
    op.whitespace = !e.chance(20);
    op.escapes    = !e.chance(20);
    jm::spell(d.tree, e, d.cps, op, d.st);
    return d;
}

template <typename Char_T>
bool parses_undefined(const jm::Units &units) {
    jm::Buf<Char_T> b(units);
    Value<Char_T>   v = JSON::Parse(b.p, SizeT(b.n));
    return v.IsUndefined();
}

#ifndef VERIF_C07
template <typename Char_T>
void run_width(const Case &c, pbt::Ctx &ctx) {
    Doc d = make_doc(c);
    if (d.st.escape || d.st.nonint || d.st.depth >= 2 || d.st.dupkey) {
        ctx.nontrivial();
    }
    ctx.label("has-escape", d.st.escape);
    ctx.label("has-non-integer-number", d.st.nonint);
    ctx.label("has-duplicate-key", d.st.dupkey);
    ctx.label("depth>=3", d.st.depth >= 3);
    const int       width = int(sizeof(Char_T));
    jm::Units       units = jm::encode(d.cps, width);
    // generator self-check: the strict reference parser must accept the text and agree with the tree
    {
        jm::RefParser rp(units, width);
        jm::Node      back;
        if (!rp.parse_document(back)) {
            ctx.fail("harness-generator-invalid", "reference parser rejects generated text: " + rp.err + " text=" + jm::show(units));
        }
        std::string df = jm::node_diff(back, d.tree);
        if (!df.empty()) {
            ctx.fail("harness-generator-mismatch", "reference parser disagrees with the generator: " + df);
        }
    }
    jm::Buf<Char_T> b(units);
    Value<Char_T>   v = JSON::Parse(b.p, SizeT(b.n));
    if (v.IsUndefined()) {
        ctx.fail("valid-document-rejected", "RFC 8259 document rejected: " + jm::show(d.cps));
    }
    jm::CmpOpts op;
    std::string df = jm::compare(v, jm::denoted(d.tree), op);
    if (!df.empty()) {
        ctx.fail("wrong-value", df + " text=" + jm::show(d.cps));
    }
    // One caller-owned scratch stream for a history of parses (as the repository's own tests use it): a rejected text first, whose
    // broken string had an escape, then the document, then the document again. What an earlier parse did must not show.
    uint32_t h = 2166136261u;
    for (uint8_t x : c.bytes) {
        h = (h ^ x) * 16777619u;
    }
    if ((h & 1U) != 0) {
        static const char *const broken[] = {"[\"xy\\tz", "{\"k\\n\":1,\"b\\u00e9", "[\"a\\qb\"]", "\"\\u00e9x", "[\"p\\u00zz\"]", "{\"q\\\"", "[1,\"ab\\", "[\"\\ud83d\\ude0"};
        const char             *bad      = broken[(h >> 1) % (sizeof(broken) / sizeof(broken[0]))];
        jm::Units               bu;
        for (const char *t = bad; *t; ++t) {
            bu.push_back((unsigned char)*t);
        }
        StringStream<Char_T> stream;
        {
            jm::Buf<Char_T> bb(bu);
            Value<Char_T>   r = JSON::Parse(stream, bb.p, SizeT(bb.n));
            if (!r.IsUndefined()) {
                ctx.fail("broken-text-accepted", std::string("accepted: ") + bad);
            }
        }
        for (int round = 0; round < 2; ++round) {
            Value<Char_T> v2 = JSON::Parse(stream, b.p, SizeT(b.n));
            if (v2.IsUndefined()) {
                ctx.fail("valid-document-rejected-after-history", std::string("document rejected when parsed with the stream a rejected text (") + bad + ") had used: " + jm::show(d.cps));
            }
            df = jm::compare(v2, jm::denoted(d.tree), op);
            if (!df.empty()) {
                ctx.fail("wrong-value-after-history", df + " (same stream as the rejected text " + bad + " before; round " + std::to_string(round) + ") text=" + jm::show(d.cps));
            }
        }
        ctx.label("stream-reused-after-rejected-text");
    }
}
#else
template <typename Char_T>
void run_width(const Case &c, pbt::Ctx &ctx) {
    Doc             d     = make_doc(c);
    const int       width = int(sizeof(Char_T));
    jm::Units       units = jm::encode(d.cps, width);
    uint64_t        variants = 0;
    if (parses_undefined<Char_T>(units)) {
        ctx.fail("c07-valid-document-rejected", "the undamaged document is rejected (guards against a vacuous pass): " + jm::show(d.cps));
    }
    if (d.st.depth >= 2 || d.st.escape || d.cps.size() > 8) {
        ctx.nontrivial();
    }
    auto must_reject = [&](const jm::Units &u, const char *cls, const std::string &what) {
        ++variants;
        if (!parses_undefined<Char_T>(u)) {
            ctx.fail(cls, what + ": accepted " + jm::show(u) + " (from " + jm::show(units) + ")");
        }
    };
    // every proper prefix (at unit level: also cuts inside multi-unit characters)
    // (documents longer than 1500 units - a numeral of thousands of digits - would make this quadratic: the first and last 300
    // prefixes and an even stride of about a thousand in between are taken instead, and the case is labelled)
    const size_t stride = units.size() > 1500 ? units.size() / 1000 + 1 : 1;
    ctx.label("prefix-variants-strided", stride > 1);
    for (size_t n = 0; n < units.size(); ++n) {
        if (stride > 1 && n > 300 && n + 300 < units.size() && (n % stride) != 0) {
            continue;
        }
        jm::Units p(units.begin(), units.begin() + long(n));
        must_reject(p, "prefix-accepted", "proper prefix of length " + std::to_string(n));
    }
    ctx.label("prefix-variants");
    // document followed by one non-whitespace unit
    jm::look_alike_cps() = (c.alias != 0);
#ifdef VERIF_C07
    jm::lone_low_surrogates() = (c.alias != 0);
#endif
    jm::Entropy e(c.bytes);
    e.pos = c.bytes.size() / 2;
    const uint32_t suffixes[] = {'x', ',', ']', '}', '[', '{', '"', '0', 0, ':', 'n', '-', 0x80 + e.below(0x70), 0x21 + e.below(0x5E)};
    std::vector<uint32_t> sfx(std::begin(suffixes), std::end(suffixes));
    if (width >= 2) { // units that are not whitespace although their low byte is a whitespace code, and other wide units
        for (uint32_t w : {0x0120u, 0x2020u, 0x0109u, 0x4E0Au, 0x010Du, 0x300Au, 0xFF0Du, 0x2009u, 0xFEFFu, 0x00A0u, 0x3000u, 0x0100u + e.below(0xFE00)}) {
            sfx.push_back(w);
        }
        if (width == 4) {
            sfx.push_back(0x1F620);
            sfx.push_back(0x1000A);
            sfx.push_back(0x10FF09);
        }
    } else {
        sfx.push_back(0xA0);
        sfx.push_back(0x85);
    }
    for (uint32_t s : sfx) {
        jm::Units u = units;
        u.push_back(s);
        must_reject(u, "trailing-accepted", "document + trailing unit");
        u.insert(u.end() - 1, ' ');
        must_reject(u, "trailing-accepted", "document + space + trailing unit");
        // the same unit in front of the document: not "one complete value optionally surrounded by whitespace" either
        jm::Units l = units;
        l.insert(l.begin(), s);
        if (s != '[' && s != '{' && s != '"' && s != '-' && s != '0') { // (these would start another value: a different malformed shape, still rejected)
            must_reject(l, "leading-accepted", "leading unit + document");
        }
    }
    // closing brackets: every structural closer replaced by the other kind; the final one also removed (= longest prefix)
    for (size_t pos : d.st.closers) {
        jm::Units m = d.cps;
        m[pos]      = (m[pos] == ']') ? '}' : ']';
        must_reject(jm::encode(m, width), "bracket-swap-accepted", "closing bracket at code point " + std::to_string(pos) + " replaced by the other kind");
        if (pos + 1 != d.cps.size()) {
            jm::Units r = d.cps;
            r.erase(r.begin() + long(pos));
            must_reject(jm::encode(r, width), "bracket-removed-accepted", "inner closing bracket at code point " + std::to_string(pos) + " removed");
        }
    }
    ctx.label("bracket-variants", !d.st.closers.empty());
    // ---- strings and their escapes (code-point level; the document is valid, so quotes delimit strings and a backslash starts an escape)
    struct Span {
        size_t              open, close;
        std::vector<size_t> uesc; // offsets of the backslash of every \uXXXX escape
    };
    std::vector<Span> spans;
    for (size_t i = 0; i < d.cps.size(); ++i) {
        if (d.cps[i] != '"') {
            continue;
        }
        Span sp;
        sp.open = i;
        for (++i; i < d.cps.size() && d.cps[i] != '"'; ++i) {
            if (d.cps[i] == '\\') {
                if (i + 1 < d.cps.size() && d.cps[i + 1] == 'u') {
                    sp.uesc.push_back(i);
                    i += 5;
                } else {
                    ++i;
                }
            }
        }
        sp.close = i;
        spans.push_back(sp);
    }
    auto slice = [&](size_t a, size_t b) { return jm::Units(d.cps.begin() + long(a), d.cps.begin() + long(std::min(b, d.cps.size()))); };
    auto cat   = [](jm::Units a, const jm::Units &b) {
        a.insert(a.end(), b.begin(), b.end());
        return a;
    };
    if (!spans.empty()) {
        // (a) one string of the document as a document of its own: complete it is a value; no proper prefix of it is
        const Span &sp  = spans[e.below(uint32_t(spans.size()))];
        jm::Units   str = slice(sp.open, sp.close + 1);
        if (parses_undefined<Char_T>(jm::encode(str, width))) {
            ctx.label("top-level-string-not-accepted");
        } else {
            for (size_t n = 1; n < str.size(); ++n) {
                if (str.size() > 300 && n > 150 && n + 150 < str.size()) {
                    continue;
                }
                must_reject(jm::encode(slice(sp.open, sp.open + n), width), "string-prefix-accepted", "unterminated string as the whole text (" + std::to_string(n) + " of " + std::to_string(str.size()) + " code points)");
            }
            ctx.label("top-level-string-variants");
        }
        static const char     hexd[] = "0123456789abcdefABCDEF";
        static const uint32_t bad[]  = {'"', 'g', ' ', ']', '\\', 'G', ':', '/', '@', '`', 'x', '}', ',', 0x0131, 0xFF11};
        auto                  filler = [&](size_t n) {
            jm::Units f;
            for (size_t i = 0; i < n; ++i) {
                f.push_back(e.chance(15) ? bad[e.below(13)] : uint32_t(hexd[e.below(22)]));
            }
            return f;
        };
        // (b) a \uXXXX escape with one digit replaced by something that is not a hex digit; and cut short after j digits with the
        //     text that follows its string (closing quote first) moved up against it, filler, and that text again - what a decoder that
        //     takes "four units" without looking at them would swallow and resynchronise on
        std::vector<std::pair<const Span *, size_t>> escapes;
        for (const Span &s2 : spans) {
            for (size_t p : s2.uesc) {
                escapes.push_back({&s2, p});
            }
        }
        for (int pick = 0; pick < 3 && !escapes.empty(); ++pick) {
            const auto  &es = escapes[e.below(uint32_t(escapes.size()))];
            const size_t p  = es.second;
            const size_t q  = es.first->close;
            {
                jm::Units m  = d.cps;
                uint32_t  bu = bad[e.below(width >= 2 ? 15 : 13)];
                m[p + 2 + e.below(4)] = bu;
                must_reject(jm::encode(m, width), "damaged-escape-accepted", "a hex digit of the escape at code point " + std::to_string(p) + " replaced by U+" + std::to_string(bu));
            }
            for (int rep = 0; rep < 4; ++rep) {
                const size_t j = e.below(4);
                const size_t k = 1 + e.below(6);
                jm::Units    t = cat(cat(cat(slice(0, p + 2 + j), slice(q, q + k)), filler(e.below(7))), slice(q, d.cps.size()));
                must_reject(jm::encode(t, width), "short-escape-accepted", "escape at code point " + std::to_string(p) + " cut after " + std::to_string(j) + " digits, then the string's end");
            }
        }
        ctx.label("escape-damage-variants", !escapes.empty());
        // (c) the first half of a surrogate pair alone at the end of a string, then the text that follows the string, filler, and that
        //     text again. Whether a lone half is taken or refused is not C07's business; the text around it is: without the escape the
        //     text must be one the reference parser refuses (then no reading of the escape makes it a complete value).
        jm::RefParser rp0(units, width);
        jm::Node      n0;
        if (rp0.parse_document(n0)) {
            size_t asked = 0;
            for (int rep = 0; rep < 6; ++rep) {
                const Span  &s3 = spans[e.below(uint32_t(spans.size()))];
                const size_t q  = s3.close;
                const size_t k  = 1 + e.below(6);
                jm::Units    hi = {'\\', e.chance(10) ? uint32_t('U') : uint32_t('u'), e.chance(50) ? uint32_t('d') : uint32_t('D'), uint32_t("89abAB"[e.below(6)]), uint32_t(hexd[e.below(22)]), uint32_t(hexd[e.below(22)])};
                jm::Units    fl = filler(e.below(7));
                jm::Units    rest = cat(cat(slice(q, q + k), fl), slice(q, d.cps.size()));
                jm::Units    without = jm::encode(cat(slice(0, q), rest), width);
                jm::RefParser rp(without, width);
                jm::Node      nn;
                if (rp.parse_document(nn)) {
                    continue;
                }
                ++asked;
                must_reject(jm::encode(cat(cat(slice(0, q), hi), rest), width), "lone-surrogate-swallows-text", "first half of a surrogate pair before the closing quote at code point " + std::to_string(q) + ", then trailing text");
            }
            ctx.label("lone-surrogate-variants", asked != 0);
        }
    }
    ctx.evaluations += variants; // every variant is one parse against the oracle
}
#endif

#ifndef VERIF_C07
// A long string (255 .. 1,048,577 units) with no escape, or one at its start / middle / end, as an array element, a member value or
// a member key: the parsed string must have exactly the decoded units.
template <typename Char_T>
bool long_string_case(unsigned n, int esc, int place, std::string &why) {
    jm::Units doc, want;
    auto      add = [&doc](const char *t) {
        for (; *t; ++t) {
            doc.push_back((unsigned char)*t);
        }
    };
    auto body = [&]() {
        doc.push_back('"');
        for (unsigned i = 0; i < n; ++i) {
            if ((esc == 1 && i == 0) || (esc == 2 && i == n / 2) || (esc == 3 && i + 1 == n)) {
                if (i % 2 == 0) {
                    add("\\n");
                    want.push_back('\n');
                } else {
                    add("\\u00e9");
                    if (sizeof(Char_T) == 1) {
                        want.push_back(0xC3);
                        want.push_back(0xA9);
                    } else {
                        want.push_back(0xE9);
                    }
                }
            } else {
                doc.push_back('a' + (i % 23));
                want.push_back('a' + (i % 23));
            }
        }
        doc.push_back('"');
    };
    if (place == 0) {
        add("[1,");
        body();
        add("]");
    } else if (place == 1) {
        add("{\"k\":");
        body();
        add("}");
    } else {
        add("{");
        body();
        add(":true}");
    }
    jm::Buf<Char_T> b(doc);
    Value<Char_T>   v = JSON::Parse(b.p, SizeT(b.n));
    if (v.IsUndefined()) {
        why = "document rejected";
        return false;
    }
    const Char_T *p   = nullptr;
    SizeT         len = 0;
    if (place == 0 && v.IsArray() && v.Size() == 2 && v.GetValue(1) != nullptr && v.GetValue(1)->IsString()) {
        p   = v.GetValue(1)->StringStorage();
        len = v.GetValue(1)->Length();
    } else if (place == 1 && v.IsObject() && v.Size() == 1 && v.GetValue(0) != nullptr && v.GetValue(0)->IsString()) {
        p   = v.GetValue(0)->StringStorage();
        len = v.GetValue(0)->Length();
    } else if (place == 2 && v.IsObject() && v.Size() == 1 && v.GetKey(0) != nullptr) {
        p   = v.GetKey(0)->First();
        len = v.GetKey(0)->Length();
    } else {
        why = "wrong structure";
        return false;
    }
    if (size_t(len) != want.size()) {
        why = "length " + std::to_string(len) + " instead of " + std::to_string(want.size());
        return false;
    }
    for (SizeT i = 0; i < len; ++i) {
        if (jm::unit_of(p[i]) != want[i]) {
            why = "unit " + std::to_string(i) + " differs";
            return false;
        }
    }
    return true;
}
#endif

struct H {
    using Case = ::Case;
#ifndef VERIF_C07
    // "long-strings": every (length, escape position, place, width) combination
    static void enumerate(pbt::Ctx &ctx, unsigned shard, unsigned nshards, const std::string &what) {
        if (what != "long-strings") {
            fprintf(stderr, "unknown enumeration %s\n", what.c_str());
            exit(3);
        }
        static const unsigned lens[] = {255, 256, 257, 4095, 4097, 16383, 16385, 65535, 65537, 262143, 262145, 300000, 1048577};
        unsigned              idx    = 0;
        for (unsigned n : lens) {
            for (int esc = 0; esc < 4; ++esc) {
                for (int place = 0; place < 3; ++place) {
                    for (int w : {1, 2, 4}) {
                        if ((idx++ % nshards) != shard) {
                            continue;
                        }
                        Qentem::MemoryRecord::Reset();
                        ctx.set_cur("long_string=" + std::to_string(n) + "," + std::to_string(esc) + "," + std::to_string(place) + "\nwidth=" + std::to_string(w) + "\nbytes=\n");
                        std::string why;
                        const bool  ok = w == 1 ? long_string_case<char>(n, esc, place, why) : w == 2 ? long_string_case<char16_t>(n, esc, place, why)
                                                                                                      : long_string_case<char32_t>(n, esc, place, why);
                        ++ctx.evaluations;
                        ++ctx.nontrivial_counted;
                        ++ctx.nontrivial_total;
                        if (!ok || Qentem::MemoryRecord::Live() != 0) {
                            ctx.failed    = true;
                            ctx.fail_cls  = ok ? "ledger" : "long-string-wrong";
                            ctx.fail_msg  = "string of " + std::to_string(n) + " units, escape position " + std::to_string(esc) + ", place " + std::to_string(place) +
                                            ", " + std::to_string(w) + "-byte units: " + (ok ? "blocks still live" : why);
                            ctx.fail_text = "long_string=" + std::to_string(n) + "," + std::to_string(esc) + "," + std::to_string(place) + "\nwidth=" + std::to_string(w) + "\nbytes=\n";
                            ctx.write_stats();
                            return;
                        }
                    }
                }
            }
        }
        ctx.distinct_by_construction = true;
        ctx.exhaustive               = true;
        ctx.exhaustive_what          = "long strings: 13 lengths x 4 escape positions x 3 places x 3 unit widths (468 documents, sharded)";
    }
    static const char *name() { return "C06 RFC 8259 documents parse to the denoted value"; }
#else
    // "deep": documents nested 250 .. 2000 levels (arrays, objects, alternating) around a small core. Whether the library takes that
    // depth is its own business (the undamaged document is only labelled); what is not one complete value is rejected all the same:
    // proper prefixes (the first and last 60 and a stride in between), the document followed by a closer or a letter, and malformed cores
    // at the deepest level - `[,]`, `{"a":}`, `[1,]`, `,`, nothing, `[}`, `{"a"}`, `{,}`, `[1 2]`, `[` - which the reference parser refuses.
    static jm::Units deep_doc(unsigned d, unsigned shape, const char *core) {
        jm::Units   u;
        std::string close;
        for (unsigned i = 0; i < d; ++i) {
            const bool obj = shape == 1 || (shape == 2 && (i & 1) != 0) || (shape == 3 && i + 1 == d);
            if (obj) {
                for (const char *t = "{\"k\":"; *t; ++t) {
                    u.push_back((unsigned char)*t);
                }
                close.push_back('}');
            } else {
                u.push_back('[');
                close.push_back(']');
            }
        }
        for (const char *t = core; *t; ++t) {
            u.push_back((unsigned char)*t);
        }
        for (size_t i = close.size(); i != 0; --i) {
            u.push_back((unsigned char)close[i - 1]);
        }
        return u;
    }
    static void enumerate(pbt::Ctx &ctx, unsigned shard, unsigned nshards, const std::string &what) {
        if (what != "deep") {
            fprintf(stderr, "unknown enumeration %s\n", what.c_str());
            exit(3);
        }
        static const unsigned depths[] = {250, 254, 255, 256, 257, 300, 511, 512, 513, 600, 999, 1000, 1001, 1002, 1003, 1023, 1024, 1025, 1026, 1027, 1500, 2000};
        static const char    *good[]   = {"1", "[]", "{}", "\"s\"", "[1,2]", "{\"a\":1}"};
        static const char    *bad[]    = {"[,]", "{\"a\":}", "[1,]", ",", "", "[}", "{\"a\"}", "{,}", "[1 2]", "[", "[,1]", "{\"a\":1,}", "[[,]]", "{\"a\":[,]}"};
        unsigned              idx      = 0;
        uint64_t              taken = 0, refused = 0;
        auto                  reject = [&](const jm::Units &u, const std::string &what_) -> bool {
            ++ctx.evaluations;
            ++ctx.nontrivial_counted;
            ++ctx.nontrivial_total;
            ctx.set_cur("raw=" + pbt::enc_units(u) + "\nwidth=1\nbytes=\n");
            Qentem::MemoryRecord::Reset();
            const bool ok = parses_undefined<char>(u) && parses_undefined<char16_t>(u);
            if (!ok || Qentem::MemoryRecord::Live() != 0) {
                ctx.failed    = true;
                ctx.fail_cls  = ok ? "ledger" : "deep-malformed-accepted";
                ctx.fail_msg  = what_ + (ok ? ": blocks still live" : ": accepted");
                ctx.fail_text = "raw=" + pbt::enc_units(u) + "\nwidth=1\nbytes=\n";
                ctx.write_stats();
                return false;
            }
            return true;
        };
        for (unsigned d : depths) {
            for (unsigned shape = 0; shape < 4; ++shape) {
                if ((idx++ % nshards) != shard) {
                    continue;
                }
                const std::string where = std::to_string(d) + " levels, shape " + std::to_string(shape);
                for (const char *core : good) {
                    jm::Units doc = deep_doc(d, shape, core);
                    {
                        jm::RefParser rp(doc, 1);
                        jm::Node      n;
                        if (!rp.parse_document(n)) {
                            fprintf(stderr, "c07: the reference parser refuses a deep document: %s\n", rp.err.c_str());
                            abort();
                        }
                    }
                    (parses_undefined<char>(doc) ? refused : taken) += 1;
                    const size_t stride = doc.size() / 40 + 1;
                    for (size_t n = 0; n < doc.size(); ++n) {
                        if (n > 60 && n + 60 < doc.size() && (n % stride) != 0) {
                            continue;
                        }
                        if (!reject(jm::Units(doc.begin(), doc.begin() + long(n)), "proper prefix (" + std::to_string(n) + " of " + std::to_string(doc.size()) + " units) of a document of " + where)) {
                            return;
                        }
                    }
                    for (uint32_t tail : {uint32_t(']'), uint32_t('}'), uint32_t('x'), uint32_t(','), uint32_t('1')}) {
                        jm::Units t = doc;
                        t.push_back(tail);
                        if (!reject(t, "document of " + where + " followed by a unit")) {
                            return;
                        }
                    }
                }
                for (const char *core : bad) {
                    jm::Units doc = deep_doc(d, shape, core);
                    jm::RefParser rp(doc, 1);
                    jm::Node      n;
                    if (rp.parse_document(n)) {
                        continue; // (a core that is fine in this position after all)
                    }
                    if (!reject(doc, std::string("malformed core ") + core + " under " + where)) {
                        return;
                    }
                }
            }
        }
        ctx.label("deep-document-taken", taken != 0);
        ctx.label("deep-document-refused", refused != 0);
        ctx.distinct_by_construction = true;
        ctx.exhaustive               = true;
        ctx.exhaustive_what          = "deep documents: 22 depths (250..2000) x 4 shapes x (6 cores: prefixes and trailing units; 14 malformed cores), sharded";
    }
    static const char *name() { return "C07 all-or-nothing parsing"; }
#endif
    static rc::Gen<Case> gen() {
        using namespace rc;
        return gen::map(gen::tuple(gen::resize(250, gen::container<std::vector<uint8_t>>(gen::arbitrary<uint8_t>())), pbt::pick<int>({1, 1, 2, 4, 3}), pbt::pick<int>({0, 1, 2})),
                        [](std::tuple<std::vector<uint8_t>, int, int> t) {
                            Case c;
                            c.bytes = std::get<0>(t);
                            c.width = std::get<1>(t);
                            c.alias = std::get<2>(t);
                            return c;
                        });
    }
    // coverage-guided mode: selector byte, then entropy
    static bool from_fuzz(const uint8_t *d, size_t n, Case &c) {
        pbt::FuzzBytes f(d, n);
        static const int w[] = {1, 2, 4, 3};
        const uint8_t sel = f.sel();
        c.width = w[sel & 3];
        c.alias = ((sel >> 2) & 1) + ((sel >> 2) & (sel >> 3) & 1);
        c.bytes = f.rest();
        return true;
    }
    static std::string to_text(const Case &c) {
        pbt::KV     kv;
        std::string hex;
        char        b[4];
        for (uint8_t x : c.bytes) {
            snprintf(b, sizeof b, "%02x", x);
            hex += b;
        }
        kv.put("bytes", hex);
        kv.put("width", c.width);
        kv.put("alias", c.alias);
        if (!c.raw.empty()) {
            kv.put("raw", pbt::enc_units(c.raw));
            return kv.text();
        }
        if (c.ls_n > 0) {
            kv.put("long_string", std::to_string(c.ls_n) + "," + std::to_string(c.ls_esc) + "," + std::to_string(c.ls_place));
            return kv.text();
        }
        kv.put("doc", pbt::enc_units(make_doc(c).cps)); // derived, for the reader (and the python cross-check)
        return kv.text();
    }
    static Case from_text(const std::string &t) {
        pbt::KV     kv = pbt::KV::parse(t);
        Case        c;
        std::string hex = kv.get("bytes");
        for (size_t i = 0; i + 1 < hex.size(); i += 2) {
            c.bytes.push_back(uint8_t(strtoul(hex.substr(i, 2).c_str(), nullptr, 16)));
        }
        c.width = int(kv.geti("width", 1));
        c.alias = int(kv.geti("alias", 0));
        if (kv.has("raw")) {
            c.raw = pbt::dec_units(kv.get("raw"));
        }
        if (kv.has("long_string")) {
            sscanf(kv.get("long_string").c_str(), "%d,%d,%d", &c.ls_n, &c.ls_esc, &c.ls_place);
        }
        return c;
    }
    static void run(const Case &c, pbt::Ctx &ctx) {
#ifndef VERIF_C07
        if (c.ls_n > 0) {
            std::string why;
            const bool  ok = c.width == 1 ? long_string_case<char>(unsigned(c.ls_n), c.ls_esc, c.ls_place, why)
                             : c.width == 2 ? long_string_case<char16_t>(unsigned(c.ls_n), c.ls_esc, c.ls_place, why)
                                            : long_string_case<char32_t>(unsigned(c.ls_n), c.ls_esc, c.ls_place, why);
            ctx.nontrivial();
            if (!ok) {
                ctx.fail("long-string-wrong", why);
            }
            return;
        }
#endif
#ifdef VERIF_C07
        if (!c.raw.empty()) {
            ctx.nontrivial();
            if (!parses_undefined<char>(c.raw) || !parses_undefined<char16_t>(c.raw)) {
                ctx.fail("deep-malformed-accepted", "a text that is not one complete value was accepted: " + jm::show(c.raw).substr(0, 200));
            }
            return;
        }
#endif
        ctx.label(c.width == 1 ? "utf-8" : c.width == 2 ? "utf-16" : "utf-32");
        switch (c.width) {
            case 1: run_width<char>(c, ctx); break;
            case 2: run_width<char16_t>(c, ctx); break;
            case 3: run_width<wchar_t>(c, ctx); break;
            default: run_width<char32_t>(c, ctx); break;
        }
    }
};

} // namespace

PBT_MAIN(H)
