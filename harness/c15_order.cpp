// C15 — comparisons form a consistent order; every Sort returns an ordered permutation.
// Oracle: order axioms (trichotomy, derived operators, transitivity), reference lexicographic / numeric order,
// multiset equality + adjacent ordering for sorts, lookups intact after HArray::Sort.
#include "common/pbt.hpp"
#include <pthread.h>
#include "common/jmodel.hpp"

#include <algorithm>
#include <memory>

using namespace Qentem;

namespace {

struct Case {
    int                  kind{0}; // 0 random string triple, 1 sort (entropy-driven), 2 explicit string pair, 3 universe value pair
    std::vector<uint8_t> bytes;
    std::string          a, b;
    size_t               i{0}, j{0};
};

using Str = std::string;

int ref_cmp(const Str &a, const Str &b) { // lexicographic by code unit, proper prefix first (all units < 0x80 here)
    size_t n = std::min(a.size(), b.size());
    for (size_t i = 0; i < n; ++i) {
        if ((unsigned char)a[i] != (unsigned char)b[i]) {
            return (unsigned char)a[i] < (unsigned char)b[i] ? -1 : 1;
        }
    }
    return a.size() == b.size() ? 0 : (a.size() < b.size() ? -1 : 1);
}

std::string q(const Str &s) { return "\"" + pbt::enc_bytes(s) + "\""; }

struct Ops {
    bool lt, le, gt, ge, eq, ne;
};

void check_pair_axioms(const Ops &o, int ref, const std::string &what, pbt::Ctx &ctx, bool have_ne = true) {
    int holds = int(o.lt) + int(o.eq) + int(o.gt);
    if (holds != 1) {
        std::string cls = "trichotomy";
        ctx.fail(cls, what + ": of <,==,> exactly one must hold, got <:" + std::to_string(o.lt) + " ==:" + std::to_string(o.eq) + " >:" + std::to_string(o.gt));
    }
    if (o.le != (o.lt || o.eq)) {
        ctx.fail("le-not-union", what + ": <= must equal (< or ==)");
    }
    if (o.ge != (o.gt || o.eq)) {
        ctx.fail("ge-not-union", what + ": >= must equal (> or ==)");
    }
    if (have_ne && o.ne == o.eq) {
        ctx.fail("ne-not-negation", what + ": != must be the negation of ==");
    }
    if (ref != 2) { // reference order known
        if (o.lt != (ref < 0) || o.eq != (ref == 0) || o.gt != (ref > 0)) {
            ctx.fail("differs-from-reference-order", what + ": expected " + (ref < 0 ? "<" : ref == 0 ? "==" : ">"));
        }
    }
}

// the same pair in a wider character type (units are the bytes widened: same order), and the pair stretched to 16-80 units by a common
// prefix (the comparison loops work on blocks in the SIMD builds: every position of a long operand has to count)
template <typename Char_T>
void check_wide_pair(const Str &a, const Str &b, pbt::Ctx &ctx) {
    auto widen = [](const Str &x) {
        jm::Units u;
        for (unsigned char c : x) {
            u.push_back(c);
        }
        return u;
    };
    auto run = [&](const Str &x, const Str &y, const char *tag) {
        const int          ref = ref_cmp(x, y);
        jm::Buf<Char_T>    bx(widen(x)), by(widen(y));
        String<Char_T>     sx{bx.cp(), SizeT(bx.n)}, sy{by.cp(), SizeT(by.n)};
        StringView<Char_T> vx{sx.First(), sx.Length()}, vy{sy.First(), sy.Length()};
        const std::string  what = std::string(tag) + " (" + std::to_string(sizeof(Char_T)) + "-byte units) " + q(x) + " vs " + q(y);
        check_pair_axioms(Ops{sx < sy, sx <= sy, sx > sy, sx >= sy, sx == sy, sx != sy}, ref, "String " + what, ctx);
        check_pair_axioms(Ops{vx < vy, vx <= vy, vx > vy, vx >= vy, vx == vy, vx != vy}, ref, "StringView " + what, ctx);
        if (x.size() == y.size() && StringUtils::IsEqual(bx.cp(), by.cp(), SizeT(bx.n)) != (ref == 0)) {
            ctx.fail("differs-from-reference-order", "StringUtils::IsEqual " + what);
        }
    };
    run(a, b, "widened");
    // common prefix of 13-76 units in front of both: the operands differ (if at all) only behind it
    const size_t k = 13 + (a.size() * 7 + b.size() * 11) % 64;
    Str          pre;
    for (size_t i = 0; i < k; ++i) {
        pre.push_back(char('a' + (i * 5 + a.size()) % 3));
    }
    run(pre + a, pre + b, "long");
    if (sizeof(Char_T) == 2) { // and behind both (the difference sits in front, the tail must not hide it)
        run(a + pre, b + pre, "long-tail");
    }
}

// all string-flavoured comparison surfaces for one ordered pair
void check_string_pair(const Str &a, const Str &b, pbt::Ctx &ctx) {
    if (a.find('\0') == Str::npos && b.find('\0') == Str::npos) {
        check_wide_pair<char16_t>(a, b, ctx);
        check_wide_pair<char32_t>(a, b, ctx);
        check_wide_pair<char>(a, b, ctx);
    }
    const int    ref = ref_cmp(a, b);
    String<char> sa{a.c_str(), SizeT(a.size())}, sb{b.c_str(), SizeT(b.size())};
    StringView<char> va{sa.First(), sa.Length()}, vb{sb.First(), sb.Length()};
    const std::string what = q(a) + " vs " + q(b);
    check_pair_axioms(Ops{sa < sb, sa <= sb, sa > sb, sa >= sb, sa == sb, sa != sb}, ref, "String " + what, ctx);
    check_pair_axioms(Ops{va < vb, va <= vb, va > vb, va >= vb, va == vb, va != vb}, ref, "StringView " + what, ctx);
    if (a.find('\0') == Str::npos && b.find('\0') == Str::npos) {
        const char *cb = sb.First();
        if (sa.First() != nullptr) { // comparing a storage-less String with a C string is not an order question (see C14)
            check_pair_axioms(Ops{sa < cb, sa <= cb, sa > cb, sa >= cb, sa == cb, sa != cb}, ref, "String vs C-string " + what, ctx);
        }
        if (cb != nullptr) {
            check_pair_axioms(Ops{va < cb, va <= cb, va > cb, va >= cb, va == cb, va != cb}, ref, "StringView vs C-string " + what, ctx);
        }
    }
    // a String that contains a NUL unit against the C string that ends at that NUL (its own prefix, in a heap block of exactly the
    // prefix's size + terminator): the String is the longer one - not equal, greater
    {
        const size_t z = a.find('\0');
        if (z != Str::npos && z + 1 <= a.size()) {
            const Str pre = a.substr(0, z);
            char     *cz  = static_cast<char *>(malloc(z + 1));
            memcpy(cz, pre.c_str(), z + 1);
            const char *cc = cz;
            String<char>     sx{a.c_str(), SizeT(a.size())};
            StringView<char> vx{sx.First(), sx.Length()};
            check_pair_axioms(Ops{sx < cc, sx <= cc, sx > cc, sx >= cc, sx == cc, sx != cc}, 1, "String with a NUL inside vs the C string ending there " + q(a), ctx);
            check_pair_axioms(Ops{vx < cc, vx <= cc, vx > cc, vx >= cc, vx == cc, vx != cc}, 1, "StringView with a NUL inside vs the C string ending there " + q(a), ctx);
            free(cz);
        }
    }
    // operands that share storage: two views cut from one buffer at the same start (what tokenising or prefix enumeration over a
    // single buffer produces), a view against the C string it was cut from, and both primitives on one pointer with two lengths
    if (a.size() != b.size() && (a.compare(0, std::string::npos, b, 0, a.size()) == 0 || b.compare(0, std::string::npos, a, 0, b.size()) == 0)) {
        const Str       &longer = a.size() > b.size() ? a : b;
        String<char>     buf{longer.c_str(), SizeT(longer.size())};
        StringView<char> xa{buf.First(), SizeT(a.size())}, xb{buf.First(), SizeT(b.size())};
        check_pair_axioms(Ops{xa < xb, xa <= xb, xa > xb, xa >= xb, xa == xb, xa != xb}, ref, "StringView (same buffer) " + what, ctx);
        if (longer.find('\0') == Str::npos && &longer == &b) {
            const char *cb = buf.First();
            check_pair_axioms(Ops{xa < cb, xa <= cb, xa > cb, xa >= cb, xa == cb, xa != cb}, ref, "StringView vs the C-string it is cut from " + what, ctx);
        }
        const char *p0 = buf.First();
        bool        l2 = StringUtils::IsLess(p0, p0, SizeT(a.size()), SizeT(b.size()), false);
        bool        g2 = StringUtils::IsGreater(p0, p0, SizeT(a.size()), SizeT(b.size()), false);
        bool        le2 = StringUtils::IsLess(p0, p0, SizeT(a.size()), SizeT(b.size()), true);
        bool        ge2 = StringUtils::IsGreater(p0, p0, SizeT(a.size()), SizeT(b.size()), true);
        if (l2 != (ref < 0) || g2 != (ref > 0) || le2 != (ref <= 0) || ge2 != (ref >= 0)) {
            ctx.fail("differs-from-reference-order", "StringUtils::IsLess/IsGreater on one pointer with two lengths " + what);
        }
    }
    if (a == b) { // an object compared with itself, and two views of one buffer
        StringView<char> xa{sa.First(), sa.Length()}, xb{sa.First(), sa.Length()};
        check_pair_axioms(Ops{xa < xb, xa <= xb, xa > xb, xa >= xb, xa == xb, xa != xb}, 0, "StringView (same buffer, same length) " + what, ctx);
        check_pair_axioms(Ops{sa < sa, sa <= sa, sa > sa, sa >= sa, sa == sa, sa != sa}, 0, "String with itself " + what, ctx);
    }
    // StringUtils primitives
    bool l = StringUtils::IsLess(a.data(), b.data(), SizeT(a.size()), SizeT(b.size()), false);
    bool g = StringUtils::IsGreater(a.data(), b.data(), SizeT(a.size()), SizeT(b.size()), false);
    bool le = StringUtils::IsLess(a.data(), b.data(), SizeT(a.size()), SizeT(b.size()), true);
    bool ge = StringUtils::IsGreater(a.data(), b.data(), SizeT(a.size()), SizeT(b.size()), true);
    if (l != (ref < 0) || g != (ref > 0) || le != (ref <= 0) || ge != (ref >= 0)) {
        ctx.fail("differs-from-reference-order", "StringUtils::IsLess/IsGreater " + what);
    }
}

std::vector<Str> small_universe(int maxlen) {
    std::vector<Str> u{""};
    size_t           begin = 0;
    for (int len = 1; len <= maxlen; ++len) {
        size_t end = u.size();
        for (size_t i = begin; i < end; ++i) {
            for (char c : {'a', 'b', 'c'}) {
                u.push_back(u[i] + c);
            }
        }
        begin = end;
    }
    return u;
}

// ---- value universe ----
struct VU {
    std::vector<std::unique_ptr<Value<char>>> v;
    std::vector<std::string>                  name;
    std::vector<int>                          kind; // 0 other, 1 uint, 2 int, 3 double, 4 string
    std::vector<long double>                  num;
    std::vector<Str>                          str;
    void add(Value<char> &&x, const std::string &n, int k = 0, long double nm = 0, const Str &s = "") {
        v.emplace_back(new Value<char>(Memory::Move(x)));
        name.push_back(n);
        kind.push_back(k);
        num.push_back(nm);
        str.push_back(s);
    }
};

void build_universe(VU &u) {
    u.add(Value<char>{}, "undefined");
    u.add(Value<char>{nullptr}, "null");
    u.add(Value<char>{true}, "true");
    u.add(Value<char>{false}, "false");
    for (unsigned long long x : {0ULL, 5ULL, 7ULL, 18446744073709551615ULL}) {
        u.add(Value<char>{x}, "u" + std::to_string(x), 1, (long double)x);
    }
    for (long long x : {-3LL, 0LL, 7LL, (long long)INT64_MIN}) {
        u.add(Value<char>{x}, "i" + std::to_string(x), 2, (long double)x);
    }
    for (double x : {-1.5, 0.0, 2.5, 7.0, 1e300}) {
        u.add(Value<char>{x}, "d" + std::to_string(x), 3, (long double)x);
    }
    for (const char *s : {"", "a", "ab", "abc", "b", "B"}) {
        u.add(Value<char>{String<char>{s}}, std::string("s'") + s + "'", 4, 0, s);
    }
    for (int n : {0, 1, 3}) {
        Value<char> a{ValueType::Array};
        for (int i = 0; i < n; ++i) {
            a += i;
        }
        u.add(Memory::Move(a), "array" + std::to_string(n));
    }
    for (int n : {0, 2}) {
        Value<char> o{ValueType::Object};
        for (int i = 0; i < n; ++i) {
            o[std::to_string(i).c_str()] = i;
        }
        u.add(Memory::Move(o), "object" + std::to_string(n));
    }
    // pointer-to-value members (labelled sub-class): read through to the target
    size_t base = u.v.size();
    for (size_t t : {size_t(5), size_t(9), size_t(14), size_t(18), size_t(1)}) {
        if (t < base) {
            Value<char> p;
            p.SetPointerToValue(u.v[t].get());
            u.add(Memory::Move(p), "ptr->" + u.name[t], u.kind[t], u.num[t], u.str[t]);
        }
    }
    // (appended later, so that the indices in older replay files keep their meaning) numbers of one kind whose bit patterns differ
    // although their magnitudes do not, or the other way round: -0.0 next to 0.0, the smallest subnormal, 2^63 as a double
    u.add(Value<char>{-0.0}, "d-0.0", 3, 0.0L);
    u.add(Value<char>{4.9406564584124654e-324}, "d-denorm-min", 3, (long double)4.9406564584124654e-324);
    u.add(Value<char>{-4.9406564584124654e-324}, "d-minus-denorm-min", 3, (long double)-4.9406564584124654e-324);
    u.add(Value<char>{9223372036854775808.0}, "d2^63", 3, 9223372036854775808.0L);
    {
        Value<char> p;
        p.SetPointerToValue(u.v[u.v.size() - 4].get());
        u.add(Memory::Move(p), "ptr->d-0.0", 3, 0.0L);
    }
    // objects and arrays that have lost a member (a removed slot stays behind until Compress): the operators agree with one another
    // whatever they count
    {
        Value<char> o{ValueType::Object};
        o["k1"] = 1;
        o["k2"] = 2;
        o["k3"] = 3;
        o.Remove("k2");
        u.add(Memory::Move(o), "object3-one-removed");
        Value<char> o2{ValueType::Object};
        o2["k1"] = 1;
        o2["k3"] = 3;
        u.add(Memory::Move(o2), "object2b");
        Value<char> o3{ValueType::Object};
        o3["a"] = 1;
        o3["b"] = 2;
        o3["c"] = 3;
        u.add(Memory::Move(o3), "object3");
        Value<char> a{ValueType::Array};
        a += 1;
        a += 2;
        a += 3;
        a.RemoveIndex(1);
        u.add(Memory::Move(a), "array3-one-removed");
        Value<char> p;
        p.SetPointerToValue(u.v[u.v.size() - 4].get());
        u.add(Memory::Move(p), "ptr->object3-one-removed");
    }
}

int value_ref(const VU &u, size_t i, size_t j) { // reference order where the property states one, else 2 (axioms only)
    if (u.kind[i] != 0 && u.kind[i] == u.kind[j]) {
        if (u.kind[i] == 4) {
            return ref_cmp(u.str[i], u.str[j]);
        }
        return u.num[i] < u.num[j] ? -1 : (u.num[i] == u.num[j] ? 0 : 1);
    }
    return 2;
}

Ops value_ops(const Value<char> &a, const Value<char> &b) { return Ops{a < b, a <= b, a > b, a >= b, a == b, false}; }

// ---- sorts ----
Str gen_sort_string(jm::Entropy &e) {
    static const char *pre[] = {"", "a", "ab", "abc", "x", "key", "key1", "ke"};
    Str                s     = pre[e.below(8)];
    unsigned           n     = e.below(4);
    for (unsigned i = 0; i < n; ++i) {
        s.push_back(char('a' + e.below(4)));
    }
    return s;
}

template <typename T, typename Less>
void check_sorted_permutation(std::vector<T> before, std::vector<T> after, bool ascend, Less less, const std::string &what, pbt::Ctx &ctx) {
    for (size_t i = 0; i + 1 < after.size(); ++i) {
        bool bad = ascend ? less(after[i + 1], after[i]) : less(after[i], after[i + 1]);
        if (bad) {
            ctx.fail("sort-not-ordered", what + ": elements " + std::to_string(i) + " and " + std::to_string(i + 1) + " are out of order");
        }
    }
    std::sort(before.begin(), before.end(), less);
    std::sort(after.begin(), after.end(), less);
    if (before.size() != after.size()) {
        ctx.fail("sort-not-permutation", what + ": size changed");
    }
    for (size_t i = 0; i < before.size(); ++i) {
        if (less(before[i], after[i]) || less(after[i], before[i])) {
            ctx.fail("sort-not-permutation", what + ": multiset of elements changed");
        }
    }
}

void run_sort(const Case &c, pbt::Ctx &ctx) {
    jm::Entropy e(c.bytes);
    const bool  ascend = e.chance(50);
    unsigned    n      = e.below(40);
    unsigned    shape  = e.below(4); // 0 random, 1 already sorted, 2 reversed, 3 many duplicates
    auto        strless = [](const Str &a, const Str &b) { return ref_cmp(a, b) < 0; };
    switch (e.below(6)) {
        case 0: { // Array<int>
            ctx.label("sort:Array<int>");
            std::vector<int> in;
            for (unsigned i = 0; i < n; ++i) {
                in.push_back(shape == 3 ? int(e.below(3)) : int(e.below(2000)) - 1000);
            }
            if (shape == 1) {
                std::sort(in.begin(), in.end());
            } else if (shape == 2) {
                std::sort(in.rbegin(), in.rend());
            }
            Array<int> a;
            for (int x : in) {
                a += x;
            }
            a.Sort(ascend);
            std::vector<int> out(a.First(), a.First() + a.Size());
            check_sorted_permutation(in, out, ascend, std::less<int>(), "Array<int>::Sort", ctx);
            break;
        }
        case 1: { // Array<String>
            ctx.label("sort:Array<String>");
            std::vector<Str> in;
            for (unsigned i = 0; i < n; ++i) {
                in.push_back(gen_sort_string(e));
            }
            if (shape == 1) {
                std::sort(in.begin(), in.end(), strless);
            }
            Array<String<char>> a;
            for (auto &s : in) {
                a += String<char>{s.c_str(), SizeT(s.size())};
            }
            a.Sort(ascend);
            std::vector<Str> out;
            for (SizeT i = 0; i < a.Size(); ++i) {
                out.emplace_back(a.First()[i].First() ? a.First()[i].First() : "", a.First()[i].Length());
            }
            check_sorted_permutation(in, out, ascend, strless, "Array<String>::Sort", ctx);
            break;
        }
        case 2: { // HArray keys, with removed members; lookups must stay correct
            ctx.label("sort:HArray");
            HArray<String<char>, int> h;
            std::vector<Str>          keys;
            for (unsigned i = 0; i < n; ++i) {
                Str k = gen_sort_string(e);
                if (std::find(keys.begin(), keys.end(), k) == keys.end()) {
                    keys.push_back(k);
                }
                h[String<char>{k.c_str(), SizeT(k.size())}] = int(std::find(keys.begin(), keys.end(), k) - keys.begin());
            }
            std::vector<Str> live = keys;
            unsigned         rm   = keys.empty() ? 0 : e.below(3);
            for (unsigned r = 0; r < rm && !live.empty(); ++r) {
                size_t idx = e.below(uint32_t(live.size()));
                h.Remove(live[idx].c_str());
                live.erase(live.begin() + long(idx));
                ctx.label("sort:HArray-with-removed-members");
            }
            h.Sort(ascend);
            std::vector<Str> out;
            for (SizeT i = 0; i < h.Size(); ++i) {
                const String<char> *k = h.GetKey(i);
                if (k != nullptr) {
                    out.emplace_back(k->First() ? k->First() : "", k->Length());
                }
            }
            check_sorted_permutation(live, out, ascend, strless, "HArray::Sort", ctx);
            for (size_t i = 0; i < keys.size(); ++i) {
                const int *v      = h.GetValue(keys[i].c_str(), SizeT(keys[i].size()));
                bool       islive = std::find(live.begin(), live.end(), keys[i]) != live.end();
                if (islive && (v == nullptr || *v != int(i))) {
                    ctx.fail("sort-breaks-lookup", "after HArray::Sort key " + q(keys[i]) + " no longer maps to its value");
                }
                if (!islive && v != nullptr) {
                    ctx.fail("sort-resurrects-key", "after HArray::Sort removed key " + q(keys[i]) + " is found again");
                }
                SizeT idx;
                if (islive && (!h.GetKeyIndex(idx, keys[i].c_str(), SizeT(keys[i].size())) || h.GetKey(idx) == nullptr ||
                               !h.GetKey(idx)->IsEqual(keys[i].c_str(), SizeT(keys[i].size())))) {
                    ctx.fail("sort-breaks-lookup", "after HArray::Sort key-to-index and index-to-key disagree for " + q(keys[i]));
                }
            }
            break;
        }
        case 3: { // Value array of one kind (numbers or strings) and mixed kinds
            ctx.label("sort:Value-array");
            Value<char>              v{ValueType::Array};
            std::vector<long double> nums;
            std::vector<Str>         strs;
            unsigned                 mode = e.below(4); // 0 uint 1 int 2 double 3 strings
            for (unsigned i = 0; i < n; ++i) {
                if (mode == 0) {
                    unsigned long long x = e.below(shape == 3 ? 3 : 5000);
                    v += x;
                    nums.push_back((long double)x);
                } else if (mode == 1) {
                    long long x = (long long)e.below(5000) - 2500;
                    v += x;
                    nums.push_back((long double)x);
                } else if (mode == 2) {
                    double x = (double(e.below(5000)) - 2500.0) / 8.0;
                    v += x;
                    nums.push_back((long double)x);
                } else {
                    Str s = gen_sort_string(e);
                    v += String<char>{s.c_str(), SizeT(s.size())};
                    strs.push_back(s);
                }
            }
            v.Sort(ascend);
            if (mode == 3) {
                std::vector<Str> out;
                for (SizeT i = 0; i < v.Size(); ++i) {
                    const Value<char> *x = v.GetValue(i);
                    out.emplace_back(x->StringStorage() ? x->StringStorage() : "", x->Length());
                }
                check_sorted_permutation(strs, out, ascend, strless, "Value::Sort (array of strings)", ctx);
            } else {
                std::vector<long double> out;
                for (SizeT i = 0; i < v.Size(); ++i) {
                    out.push_back((long double)v.GetValue(i)->GetNumber());
                }
                check_sorted_permutation(nums, out, ascend, std::less<long double>(), "Value::Sort (array of numbers)", ctx);
            }
            break;
        }
        case 4: { // Value object: sorted by key, values follow their keys
            ctx.label("sort:Value-object");
            Value<char>      v{ValueType::Object};
            std::vector<Str> keys;
            for (unsigned i = 0; i < n; ++i) {
                Str k = gen_sort_string(e);
                if (std::find(keys.begin(), keys.end(), k) == keys.end()) {
                    keys.push_back(k);
                }
                v[String<char>{k.c_str(), SizeT(k.size())}] = k.c_str();
            }
            v.Sort(ascend);
            std::vector<Str> out;
            for (SizeT i = 0; i < v.Size(); ++i) {
                const String<char> *k = v.GetKey(i);
                if (k != nullptr) {
                    out.emplace_back(k->First() ? k->First() : "", k->Length());
                    const Value<char> *x = v.GetValue(i);
                    if (x == nullptr || Str(x->StringStorage() ? x->StringStorage() : "", x->Length()) != out.back()) {
                        ctx.fail("sort-separates-key-and-value", "after Value::Sort the member " + q(out.back()) + " no longer carries its value");
                    }
                }
            }
            check_sorted_permutation(keys, out, ascend, strless, "Value::Sort (object keys)", ctx);
            for (auto &k : keys) {
                if (v.GetValue(k.c_str(), SizeT(k.size())) == nullptr) {
                    ctx.fail("sort-breaks-lookup", "after Value::Sort key " + q(k) + " is not found");
                }
            }
            break;
        }
        default: { // <loop sort=...> over an array of strings (characters that need no escaping)
            ctx.label("sort:loop");
            Value<char>      v;
            std::vector<Str> strs;
            for (unsigned i = 0; i < n; ++i) {
                Str s = gen_sort_string(e);
                v["list"] += String<char>{s.c_str(), SizeT(s.size())};
                strs.push_back(s);
            }
            if (n == 0) {
                v["list"] = Value<char>{ValueType::Array};
            }
            std::string before = std::string(v.Stringify().First() ? v.Stringify().First() : "");
            Str         tpl    = Str("<loop set=\"list\" value=\"it\" sort=\"") + (ascend ? "ascend" : "descend") + "\">{var:it};</loop>";
            StringStream<char> out;
            Template::Render(tpl.c_str(), SizeT(tpl.size()), v, out);
            Str              text(out.First() ? out.First() : "", out.Length());
            std::vector<Str> got;
            size_t           p = 0;
            while (p < text.size()) {
                size_t s = text.find(';', p);
                if (s == Str::npos) {
                    ctx.fail("loop-sort-output", "unexpected loop output '" + text + "'");
                }
                got.push_back(text.substr(p, s - p));
                p = s + 1;
            }
            check_sorted_permutation(strs, got, ascend, strless, "<loop sort>", ctx);
            std::string after = std::string(v.Stringify().First() ? v.Stringify().First() : "");
            if (before != after) {
                ctx.fail("loop-sort-modified-value", "sorting a loop set changed the caller's value");
            }
            break;
        }
    }
}

// ---------------------------------------------------------------------------------------------- big sorts
// Sets of 1025 .. 5000 items (every range a sort hands on is still "big" several levels down) in the shapes that are hard for a
// partitioning sort - sorted, reversed, all equal, few distinct, organ pipe - and 20000 sorted / reversed / equal items sorted on a
// thread whose stack has 512 KiB (the default of a secondary thread on macOS; musl's is smaller): the sort returns, ordered, a permutation.
struct BigSort {
    unsigned n{0}, shape{0}, cont{0};
    bool     ascend{true}, small_stack{false};
    std::string text() const {
        return std::to_string(n) + "," + std::to_string(shape) + "," + std::to_string(cont) + "," + std::to_string(ascend ? 1 : 0) + "," + std::to_string(small_stack ? 1 : 0);
    }
    static BigSort parse(const std::string &t) {
        BigSort  b;
        unsigned a = 1, st = 0;
        sscanf(t.c_str(), "%u,%u,%u,%u,%u", &b.n, &b.shape, &b.cont, &a, &st);
        b.ascend      = a != 0;
        b.small_stack = st != 0;
        return b;
    }
};

std::vector<uint32_t> big_input(const BigSort &b) {
    std::vector<uint32_t> v(b.n);
    uint32_t              x = 12345 + b.n;
    for (unsigned i = 0; i < b.n; ++i) {
        switch (b.shape) {
            case 0: x = x * 1664525u + 1013904223u; v[i] = (x >> 8) % 1000000u; break;
            case 1: v[i] = i * 3; break;
            case 2: v[i] = (b.n - i) * 3; break;
            case 3: v[i] = 7; break;
            case 4: v[i] = i % 7; break;
            default: v[i] = (i < b.n / 2) ? i * 2 : (b.n - i) * 2 + 1; break;
        }
    }
    return v;
}

struct BigSortJob {
    BigSort     b;
    std::string why; // empty: fine
};

void big_sort_body(BigSortJob &job) {
    const BigSort        &b  = job.b;
    std::vector<uint32_t> in = big_input(b);
    std::vector<uint32_t> out;
    if (b.cont == 0) {
        Array<unsigned int> a;
        for (uint32_t x : in) {
            a += x;
        }
        a.Sort(b.ascend);
        out.assign(a.First(), a.First() + a.Size());
    } else if (b.cont == 1) {
        Value<char> v;
        for (uint32_t x : in) {
            v += SizeT64(x);
        }
        v.Sort(b.ascend);
        for (SizeT i = 0; i < v.Size(); ++i) {
            const Value<char> *it = v.GetValue(i);
            out.push_back(it != nullptr ? uint32_t(it->GetUInt64()) : 0xFFFFFFFFu);
        }
    } else {
        // keys of a hash array: distinct keys whose order is the order of the numbers (fixed width), value = position on insertion
        HArray<String<char>, SizeT> h;
        char                        key[24];
        for (unsigned i = 0; i < b.n; ++i) {
            snprintf(key, sizeof key, "k%07u-%05u", in[i], i);
            h.Insert(String<char>{key}, SizeT(i));
        }
        h.Sort(b.ascend);
        std::string prev;
        for (SizeT i = 0; i < h.Size(); ++i) {
            const String<char> *k = h.GetKey(i);
            if (k == nullptr) {
                job.why = "GetKey(" + std::to_string(i) + ") is null after Sort";
                return;
            }
            std::string ks(k->First(), k->Length());
            unsigned    num = 0, pos = 0;
            sscanf(ks.c_str(), "k%u-%u", &num, &pos);
            const SizeT *val = h.GetValue(k->First(), k->Length());
            if (val == nullptr || *val != SizeT(pos) || pos >= b.n || in[pos] != num) {
                job.why = "after Sort the key " + ks + " no longer maps to its value";
                return;
            }
            if (i != 0 && (b.ascend ? !(prev < ks) : !(ks < prev))) {
                job.why = "keys " + prev + " and " + ks + " are out of order";
                return;
            }
            prev = ks;
            out.push_back(num);
        }
    }
    if (out.size() != in.size()) {
        job.why = "size changed from " + std::to_string(in.size()) + " to " + std::to_string(out.size());
        return;
    }
    for (size_t i = 0; i + 1 < out.size(); ++i) {
        if (b.ascend ? out[i + 1] < out[i] : out[i] < out[i + 1]) {
            job.why = "items " + std::to_string(i) + " and " + std::to_string(i + 1) + " are out of order (" + std::to_string(out[i]) + ", " + std::to_string(out[i + 1]) + ")";
            return;
        }
    }
    std::sort(in.begin(), in.end());
    std::sort(out.begin(), out.end());
    if (in != out) {
        job.why = "the result is not a permutation of the input";
    }
}

void *big_sort_thread(void *p) {
    big_sort_body(*static_cast<BigSortJob *>(p));
    return nullptr;
}

std::string big_sort_case(const BigSort &b) {
    BigSortJob job;
    job.b = b;
    if (!b.small_stack) {
        big_sort_body(job);
        return job.why;
    }
    pthread_attr_t at;
    pthread_attr_init(&at);
    pthread_attr_setstacksize(&at, 512 * 1024);
    pthread_t th;
    if (pthread_create(&th, &at, big_sort_thread, &job) != 0) {
        return ""; // (no thread: nothing decided)
    }
    pthread_join(th, nullptr);
    pthread_attr_destroy(&at);
    return job.why;
}

struct H {
    using Case = ::Case;
    static const char *name() { return "C15 order and sort"; }
    static rc::Gen<Case> gen() {
        using namespace rc;
        return gen::map(gen::tuple(gen::resize(200, gen::container<std::vector<uint8_t>>(gen::arbitrary<uint8_t>())), pbt::pick<int>({0, 1, 1, 1})),
                        [](std::tuple<std::vector<uint8_t>, int> t) {
                            Case c;
                            c.bytes = std::get<0>(t);
                            c.kind  = std::get<1>(t);
                            return c;
                        });
    }
    // coverage-guided mode: selector byte, then entropy
    static bool from_fuzz(const uint8_t *d, size_t n, Case &c) {
        pbt::FuzzBytes f(d, n);
        c.kind  = f.sel() & 1;
        c.bytes = f.rest();
        return true;
    }
    static std::string to_text(const Case &c) {
        pbt::KV     kv;
        std::string hex;
        char        b[4];
        for (uint8_t x : c.bytes) {
            snprintf(b, sizeof b, "%02x", x);
            hex += b;
        }
        kv.put("kind", c.kind);
        kv.put("bytes", hex);
        if (c.kind == 2) {
            kv.put("a", pbt::enc_bytes(c.a));
            kv.put("b", pbt::enc_bytes(c.b));
        }
        if (c.kind == 4) {
            kv.put("a", pbt::enc_bytes(c.a));
        }
        if (c.kind == 3) {
            kv.putu("i", c.i);
            kv.putu("j", c.j);
        }
        return kv.text();
    }
    static Case from_text(const std::string &t) {
        pbt::KV     kv = pbt::KV::parse(t);
        Case        c;
        std::string hex = kv.get("bytes");
        for (size_t i = 0; i + 1 < hex.size(); i += 2) {
            c.bytes.push_back(uint8_t(strtoul(hex.substr(i, 2).c_str(), nullptr, 16)));
        }
        c.kind = int(kv.geti("kind"));
        c.a    = pbt::dec_bytes(kv.get("a"));
        c.b    = pbt::dec_bytes(kv.get("b"));
        c.i    = size_t(kv.getu("i"));
        c.j    = size_t(kv.getu("j"));
        return c;
    }
    static void run(const Case &c, pbt::Ctx &ctx) {
        if (c.kind == 1) {
            ctx.nontrivial();
            run_sort(c, ctx);
            return;
        }
        if (c.kind == 4) {
            ctx.nontrivial();
            const std::string why = big_sort_case(BigSort::parse(c.a));
            if (!why.empty()) {
                ctx.fail("big-sort", "sort of " + c.a + " (items, shape, container, ascending, 512 KiB stack): " + why);
            }
            return;
        }
        if (c.kind == 2) {
            ctx.nontrivial();
            check_string_pair(c.a, c.b, ctx);
            check_string_pair(c.b, c.a, ctx);
            return;
        }
        if (c.kind == 3) {
            ctx.nontrivial();
            VU u;
            build_universe(u);
            if (c.i < u.v.size() && c.j < u.v.size()) {
                try {
                    check_pair_axioms(value_ops(*u.v[c.i], *u.v[c.j]), value_ref(u, c.i, c.j), "Value " + u.name[c.i] + " vs " + u.name[c.j], ctx, false);
                } catch (const pbt::Failure &f) {
                    throw pbt::Failure{(u.v[c.i]->Type() != u.v[c.j]->Type()) ? "value-cross-kind-" + f.cls : f.cls, f.msg};
                }
            }
            return;
        }
        // random longer strings with forced shared prefixes: pairs and a transitivity triple
        jm::Entropy e(c.bytes);
        Str         base;
        unsigned    bl = e.below(12);
        for (unsigned i = 0; i < bl; ++i) {
            base.push_back(char(0x20 + e.below(0x5F)));
        }
        Str s[3];
        for (auto &x : s) {
            x          = base.substr(0, e.below(unsigned(base.size()) + 1));
            unsigned n = e.below(5);
            for (unsigned i = 0; i < n; ++i) {
                x.push_back(e.chance(10) ? char(e.below(0x20)) : char(0x20 + e.below(0x5F)));
            }
        }
        ctx.label("random-string-triple");
        if (s[0] != s[1]) {
            ctx.nontrivial();
        }
        for (int i = 0; i < 3; ++i) {
            for (int j = 0; j < 3; ++j) {
                check_string_pair(s[i], s[j], ctx);
            }
        }
    }

    static void enumerate(pbt::Ctx &ctx, unsigned shard, unsigned nshards, const std::string &what) {
        ctx.distinct_by_construction = true;
        if (what == "big-sorts") {
            std::vector<BigSort> all;
            for (unsigned n : {1025u, 1500u, 2049u, 3000u, 5000u}) {
                for (unsigned shape = 0; shape < 6; ++shape) {
                    for (unsigned cont = 0; cont < 3; ++cont) {
                        for (int asc = 0; asc < 2; ++asc) {
                            BigSort b;
                            b.n = n, b.shape = shape, b.cont = cont, b.ascend = asc != 0;
                            all.push_back(b);
                        }
                    }
                }
            }
            for (unsigned shape : {1u, 2u, 3u}) {
                for (int asc = 0; asc < 2; ++asc) {
                    BigSort b;
                    b.n = 20000, b.shape = shape, b.cont = 0, b.ascend = asc != 0, b.small_stack = true;
                    all.push_back(b);
                }
            }
            for (size_t i = 0; i < all.size(); ++i) {
                if ((i % nshards) != shard) {
                    continue;
                }
                const std::string text = "kind=4\na=" + pbt::enc_bytes(all[i].text()) + "\nbytes=\n";
                ctx.set_cur(text);
                ++ctx.evaluations;
                ++ctx.nontrivial_counted;
                ++ctx.nontrivial_total;
                const std::string why = big_sort_case(all[i]);
                if (!why.empty()) {
                    ctx.failed    = true;
                    ctx.fail_cls  = "big-sort";
                    ctx.fail_msg  = "sort of " + all[i].text() + " (items, shape, container, ascending, 512 KiB stack): " + why;
                    ctx.fail_text = text;
                    ctx.write_stats();
                    return;
                }
            }
            ctx.exhaustive      = true;
            ctx.exhaustive_what = "big sorts: 5 sizes (1025..5000) x 6 shapes x 3 containers x 2 directions, and 20000 sorted / reversed / equal items on a 512 KiB stack";
            return;
        }
        if (what == "strings3" || what == "strings4") {
            std::vector<Str> u = small_universe(what == "strings3" ? 3 : 4);
            // pairs: all comparison surfaces
            uint64_t idx = 0;
            for (size_t i = 0; i < u.size() && !ctx.failed; ++i) {
                for (size_t j = 0; j < u.size(); ++j) {
                    if ((idx++ % nshards) != shard) {
                        continue;
                    }
                    ++ctx.evaluations;
                    try {
                        check_string_pair(u[i], u[j], ctx);
                        ++ctx.nontrivial_counted;
                    } catch (const pbt::Failure &f) {
                        ctx.failed    = true;
                        ctx.fail_cls  = f.cls;
                        ctx.fail_msg  = f.msg;
                        ctx.fail_text = "kind=2\na=" + pbt::enc_bytes(u[i]) + "\nb=" + pbt::enc_bytes(u[j]) + "\n";
                        return;
                    }
                }
            }
            // triples: transitivity of < on String
            std::vector<String<char>> ss;
            for (auto &x : u) {
                ss.emplace_back(x.c_str(), SizeT(x.size()));
            }
            for (size_t i = 0; i < u.size(); ++i) {
                if ((i % nshards) != shard) {
                    continue;
                }
                for (size_t j = 0; j < u.size(); ++j) {
                    if (!(ss[i] < ss[j])) {
                        continue;
                    }
                    for (size_t k = 0; k < u.size(); ++k) {
                        ++ctx.evaluations;
                        ++ctx.nontrivial_counted;
                        if (ss[j] < ss[k] && !(ss[i] < ss[k])) {
                            ctx.failed    = true;
                            ctx.fail_cls  = "not-transitive";
                            ctx.fail_msg  = q(u[i]) + " < " + q(u[j]) + " < " + q(u[k]) + " but not " + q(u[i]) + " < " + q(u[k]);
                            ctx.fail_text = "kind=2\na=" + pbt::enc_bytes(u[i]) + "\nb=" + pbt::enc_bytes(u[j]) + "\n";
                            return;
                        }
                    }
                }
            }
            ctx.exhaustive      = true;
            ctx.exhaustive_what = "all pairs (every comparison surface) and all triples (transitivity) of the strings over {a,b,c} up to length " +
                                  std::string(what == "strings3" ? "3" : "4");
            ctx.samples.push_back("a=ab\nb=abc\n");
        } else { // values
            VU u;
            build_universe(u);
            for (size_t i = 0; i < u.v.size(); ++i) {
                if ((i % nshards) != shard) {
                    continue;
                }
                for (size_t j = 0; j < u.v.size(); ++j) {
                    ++ctx.evaluations;
                    ++ctx.nontrivial_counted;
                    Ops o = value_ops(*u.v[i], *u.v[j]);
                    try {
                        check_pair_axioms(o, value_ref(u, i, j), "Value " + u.name[i] + " vs " + u.name[j], ctx, false);
                    } catch (const pbt::Failure &f) {
                        // cross-kind equality has its own narrow class
                        std::string cls = (u.v[i]->Type() != u.v[j]->Type()) ? "value-cross-kind-" + f.cls : f.cls;
                        ctx.failed    = true;
                        ctx.fail_cls  = cls;
                        ctx.fail_msg  = f.msg;
                        ctx.fail_text = "kind=3\ni=" + std::to_string(i) + "\nj=" + std::to_string(j) + "\n";
                        return;
                    }
                    for (size_t k = 0; k < u.v.size(); ++k) {
                        ++ctx.evaluations;
                        if ((*u.v[i] < *u.v[j]) && (*u.v[j] < *u.v[k]) && !(*u.v[i] < *u.v[k])) {
                            ctx.failed    = true;
                            ctx.fail_cls  = "value-not-transitive";
                            ctx.fail_msg  = u.name[i] + " < " + u.name[j] + " < " + u.name[k] + " but not " + u.name[i] + " < " + u.name[k];
                            ctx.fail_text = "kind=3\ni=" + std::to_string(i) + "\nj=" + std::to_string(j) + "\n";
                            return;
                        }
                    }
                }
            }
            ctx.exhaustive      = true;
            ctx.exhaustive_what = "all pairs and triples of a universe of " + std::to_string(u.v.size()) + " values of every kind";
            ctx.samples.push_back("i=u5\nj=s'ab'\n");
        }
    }
};

} // namespace

PBT_MAIN(H)
