// C16 — every allocation is released exactly once; nothing is used after release.
// Dedicated machine for parsed-tag-cache lifetimes (copy, move, assign over a non-empty cache, clear and reuse, render from
// copies, destroy in generated order) over generated and mutated templates; failed JSON parses and value histories with
// failure paths. Oracle: the allocation ledger through Memory::Allocate/Deallocate (exactly once, empty at the end) +
// AddressSanitizer (use after free, double free, invalid free) + LeakSanitizer at exit.
// The C01/C05/C12/C13/C14 harnesses run under the same ledger and are part of this property's plan.
#include "common/pbt.hpp"
#include "common/jmodel.hpp"
#include "common/tvalues.hpp"
#include "common/tgen.hpp"

#include <memory>

using namespace Qentem;
using jm::Entropy;
using jm::Units;

namespace {

struct Case {
    std::vector<uint8_t> bytes;
    int                  width{1};
    int                  gen2{0}; // 1: the first template may be a nest of 9-13 loops over a two-element array (absent in older files: 0)
};

struct Flags {
    bool failure_path{false}, transfer{false};
};

template <typename Char_T>
void run_width(const Case &c, pbt::Ctx &ctx, Flags &fl, std::string &trace) {
    using V     = Value<Char_T>;
    using SS    = StringStream<Char_T>;
    using TC    = TemplateCore<Char_T, V, SS>;
    using Cache = Array<Tags::TagBit>;
    Entropy e(c.bytes);
    const int value_id = int(e.below(tv::kPalette));
    V         value;
    tv::build<Char_T>(value_id, value);
    const bool deep_nest = (c.gen2 != 0 && value.IsObject() && !c.bytes.empty() && (c.bytes.back() % 3) == 0);
    if (deep_nest) {
        value[tv::Key<Char_T>("pp").v()] += 1;
        value[tv::Key<Char_T>("pp").v()] += 2;
    }

    // templates (exact-size buffers that outlive every cache parsed from them)
    std::vector<std::unique_ptr<jm::Buf<Char_T>>> texts;
    unsigned                                      nt = 1 + e.below(3);
    for (unsigned i = 0; i < nt; ++i) {
        Units u = tgen::random_template_text(e, value_id);
        if (e.chance(50) && !u.empty()) { // malformed: unfinished tags are dropped by the parser (failure path)
            switch (e.below(4)) {
                case 0: u.resize(e.below(uint32_t(u.size()))); break;
                case 1: u.erase(u.begin() + long(e.below(uint32_t(u.size())))); break;
                case 2: {
                    const char *f = (const char *[]){"<loop value=\"q\">", "<if case=\"1\">", "{svar:p, ", "{if case=\"1\" true=\""}[e.below(4)];
                    Units       ins;
                    for (; *f; ++f) {
                        ins.push_back((unsigned char)*f);
                    }
                    u.insert(u.begin() + long(e.below(uint32_t(u.size()))), ins.begin(), ins.end());
                    break;
                }
                default: u.insert(u.begin() + long(e.below(uint32_t(u.size()))), '}'); break;
            }
            fl.failure_path = true;
        }
        unsigned loops = 0;
        for (size_t k = 0; k + 4 < u.size(); ++k) {
            loops += (u[k] == '<' && u[k + 1] == 'l' && u[k + 2] == 'o' && u[k + 3] == 'o' && u[k + 4] == 'p');
        }
        if (loops > 4) {
            u.resize(40);
        }
        if (deep_nest && i == 0) {
            // 9-13 loops inside each other, every one over two items (the per-render slot array grows while outer loops are
            // in the middle of their iteration), printing the outermost and the innermost item
            const unsigned levels = 9 + unsigned(c.bytes.back() / 3) % 5;
            std::string    t;
            for (unsigned k = 0; k < levels; ++k) {
                t += "<loop set=\"pp\" value=\"w" + std::to_string(k) + "\">";
            }
            t += "{var:w0}{var:w" + std::to_string(levels - 1) + "}";
            for (unsigned k = 0; k < levels; ++k) {
                t += "</loop>";
            }
            u.assign(t.begin(), t.end());
            for (auto &x : u) {
                x &= 0xFF;
            }
        }
        texts.emplace_back(new jm::Buf<Char_T>(u));
    }

    struct Slot {
        std::unique_ptr<Cache> cache;
        int                    text{-1}; // which template the cache was parsed from (-1: empty)
    };
    std::vector<Slot> pool(4);
    for (auto &s : pool) {
        s.cache.reset(new Cache{});
    }
    auto fresh_render = [&](int t) {
        SS out;
        Template::Render(texts[size_t(t)]->cp(), SizeT(texts[size_t(t)]->n), value, out);
        return jm::units_of(out.First(), out.Length());
    };
    unsigned nops = 3 + e.below(25);
    for (unsigned step = 0; step < nops; ++step) {
        size_t a = e.below(4), b = e.below(4);
        Slot  &A = pool[a];
        Slot  &B = pool[b];
        switch (e.below(c.gen2 != 0 ? 12 : 10)) {
            case 10: { // every tag record replaced by move-assignment from a copy of itself (TagBit::operator=(TagBit &&) on live records)
                Cache cp{static_cast<const Cache &>(*A.cache)};
                for (SizeT i = 0; i < A.cache->Size() && i < cp.Size(); ++i) {
                    A.cache->Storage()[i] = Memory::Move(cp.Storage()[i]);
                }
                fl.transfer = true;
                trace += "move-assign-records;";
                break;
            }
            case 11: { // the records moved one by one into a new array (TagBit move construction), the emptied array replaced by it
                Cache nb;
                for (SizeT i = 0; i < A.cache->Size(); ++i) {
                    nb += Memory::Move(A.cache->Storage()[i]);
                }
                *A.cache    = Memory::Move(nb);
                fl.transfer = true;
                trace += "move-records-to-new-array;";
                break;
            }
            case 0:
            case 1: { // parse (into an empty or a non-empty cache: Parse appends, so clear first as the examples do)
                int t = int(e.below(uint32_t(texts.size())));
                A.cache->Clear();
                TC::Parse(texts[size_t(t)]->cp(), SizeT(texts[size_t(t)]->n), *A.cache);
                A.text = t;
                trace += "parse;";
                break;
            }
            case 2: // copy assign (over whatever A holds)
                if (a != b) {
                    *A.cache = static_cast<const Cache &>(*B.cache);
                    A.text   = B.text;
                    trace += "copy-assign;";
                }
                break;
            case 3: // move assign
                if (a != b) {
                    *A.cache = Memory::Move(*B.cache);
                    A.text   = B.text;
                    B.text   = -1;
                    fl.transfer = true;
                    trace += "move-assign;";
                }
                break;
            case 4: { // copy construct, render from the copy, drop the copy
                Cache cp{static_cast<const Cache &>(*A.cache)};
                if (A.text >= 0) {
                    SS out;
                    TC tc{texts[size_t(A.text)]->cp(), SizeT(texts[size_t(A.text)]->n)};
                    tc.Render(cp, value, out);
                    if (jm::units_of(out.First(), out.Length()) != fresh_render(A.text)) {
                        ctx.fail("copied-cache-render-differs", "a copy of a parsed cache renders differently");
                    }
                }
                trace += "copy-construct;";
                break;
            }
            case 5: { // move construct and move back
                Cache mv{Memory::Move(*A.cache)};
                if (A.cache->Size() != 0) {
                    ctx.fail("moved-from-cache-not-empty", "moved-from tag cache is not empty");
                }
                *A.cache   = Memory::Move(mv);
                fl.transfer = true;
                trace += "move-construct;";
                break;
            }
            case 6: A.cache->Clear(); A.text = -1; trace += "clear;"; break;
            case 7: A.cache->Reset(); A.text = -1; trace += "reset;"; break;
            case 8: { // destroy and recreate the slot (generated destruction order)
                A.cache.reset(new Cache{});
                A.text = -1;
                trace += "destroy;";
                break;
            }
            default: { // render through the cache
                if (A.text >= 0) {
                    SS out;
                    TC tc{texts[size_t(A.text)]->cp(), SizeT(texts[size_t(A.text)]->n)};
                    tc.Render(*A.cache, value, out);
                    if (jm::units_of(out.First(), out.Length()) != fresh_render(A.text)) {
                        ctx.fail("cached-render-differs", "render through a (copied/moved/reused) cache differs from a fresh render");
                    }
                }
                trace += "render;";
            }
        }
    }
    // a rejected JSON text and an expression list, for their failure paths
    {
        Units           bad = {'[', '{', '"', 'a', '"', ':', '[', '1', ',', '{', '"', 'b', '"', ':', '"', 'x', '"', '}', ',', ']', '}'};
        jm::Buf<Char_T> bb(bad);
        V               r = JSON::Parse(bb.cp(), SizeT(bb.n));
        if (!r.IsUndefined()) {
            ctx.fail("invalid-json-accepted", "trailing comma accepted");
        }
        fl.failure_path = true;
    }
    // destroy the remaining caches in a generated order
    while (!pool.empty()) {
        size_t k = e.below(uint32_t(pool.size()));
        pool.erase(pool.begin() + long(k));
    }
}

struct H {
    using Case = ::Case;
    static const char *name() { return "C16 allocation lifetimes"; }
    static rc::Gen<Case> gen() {
        using namespace rc;
        return gen::map(gen::tuple(gen::resize(300, gen::container<std::vector<uint8_t>>(gen::arbitrary<uint8_t>())), pbt::pick<int>({1, 1, 2, 4, 3}), pbt::pick<int>({0, 1, 1})),
                        [](std::tuple<std::vector<uint8_t>, int, int> t) {
                            Case c;
                            c.bytes = std::get<0>(t);
                            c.width = std::get<1>(t);
                            c.gen2  = std::get<2>(t);
                            return c;
                        });
    }
    // coverage-guided mode: selector byte, then entropy
    static bool from_fuzz(const uint8_t *d, size_t n, Case &c) {
        pbt::FuzzBytes f(d, n);
        static const int w[] = {1, 2, 4, 3};
        const uint8_t sel = f.sel();
        c.width = w[sel & 3];
        c.gen2  = (sel >> 2) & 1;
        c.bytes = f.rest();
        return true;
    }
    static std::string to_text(const Case &c) {
        pbt::KV     kv;
        std::string hex;
        char        b[4];
        for (uint8_t x : c.bytes) {
            snprintf(b, sizeof b, "%02x", x);
            hex += b;
        }
        kv.put("width", c.width);
        kv.put("gen2", c.gen2);
        kv.put("bytes", hex);
        return kv.text();
    }
    static Case from_text(const std::string &t) {
        pbt::KV     kv = pbt::KV::parse(t);
        Case        c;
        std::string hex = kv.get("bytes");
        for (size_t i = 0; i + 1 < hex.size(); i += 2) {
            c.bytes.push_back(uint8_t(strtoul(hex.substr(i, 2).c_str(), nullptr, 16)));
        }
        c.width = int(kv.geti("width", 1));
        c.gen2  = int(kv.geti("gen2", 0));
        return c;
    }
    static void run(const Case &c, pbt::Ctx &ctx) {
        Flags       fl;
        std::string trace;
        try {
            switch (c.width) {
                case 1: run_width<char>(c, ctx, fl, trace); break;
                case 2: run_width<char16_t>(c, ctx, fl, trace); break;
                case 3: run_width<wchar_t>(c, ctx, fl, trace); break;
                default: run_width<char32_t>(c, ctx, fl, trace); break;
            }
        } catch (pbt::Failure &f) {
            f.msg += " | ops: " + trace;
            throw;
        }
        if (fl.failure_path || fl.transfer) {
            ctx.nontrivial();
        }
        ctx.label("has-failure-path", fl.failure_path);
        ctx.label("has-ownership-transfer", fl.transfer);
    }
};

} // namespace

PBT_MAIN(H)
